#!/bin/bash
# apply_fix.sh <patch-basename-without-ext>... : apply pending_fixes/<name>.patch to /repo as one commit each
# (message from <name>.msg), after checking that the crate's 132 tests still pass with the feature off.
cd /repo
for n in "$@"; do
  p=/verif/pending_fixes/$n.patch; m=/verif/pending_fixes/$n.msg
  git apply --check $p || { echo "PATCH $n DOES NOT APPLY"; exit 1; }
  git apply $p
  r=$(CARGO_NET_OFFLINE=true cargo test --offline --lib 2>&1 | grep "^test result")
  echo "$n: $r"
  echo "$r" | grep -q "132 passed; 0 failed" || { echo "TESTS FAIL with $n"; git checkout -- .; exit 1; }
  git add -A
  git commit -q -F $m
  sha=$(git rev-parse --short HEAD)
  echo "$n -> $sha $(head -1 $m)"
  mkdir -p /verif/pending_fixes/applied; mv $p $m /verif/pending_fixes/applied/
  echo "$n $sha" >> /verif/pending_fixes/applied/LOG
done
