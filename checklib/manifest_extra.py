HOOK_COMMITS = ["666c934", "c245eda", "5c6361d"]
NOTES = ("Every check is `./check <id>`: it rebuilds the harness from /repo's working tree, rebuilds the Lean "
         "theorems, audits axioms, runs the model/implementation correspondence and writes evidence/<id>.json. "
         "See DESIGN.md.")
NOT_YET = {}

# properties whose check has been reviewed by the lead and passes on the current tree
READY = ["C01", "C02", "C03", "C04", "C05", "C06", "C07", "C08", "C09", "C10", "C11", "C12", "C13", "C14", "C15", "C16", "C17", "C18", "C19", "C20"]
