HOOK_COMMITS = ["666c934"]
NOTES = ("Every check is `./check <id>`: it rebuilds the harness from /repo's working tree, rebuilds the Lean "
         "theorems, audits axioms, runs the model/implementation correspondence and writes evidence/<id>.json. "
         "See DESIGN.md.")
NOT_YET = {}
LEVEL_TEXT = {
    "C19": {
        "design_ref": "DESIGN.md 3.C19",
        "technique": "Lean 4 theorems (induction-free doubling lemma pair_sat over an executable model) + differential correspondence with the Rust parsers",
        "text": "Machine-checked proof, for all buffers, cursors, widths {1,2,4,8}, byte orders and signedness, that the model of "
                "UInt*P/Int*P/ByteVecP returns the denoted value with span [i,i+w) and cursor i+w, or end-of-buffer with the cursor "
                "unmoved, and never reaches a panic (the debug-build `+` cannot overflow). The model mirrors the Rust composition "
                "(two halves, restore on second failure) and is tied to the code by an exhaustive 8/16-bit and random 32/64-bit "
                "correspondence run on every check.",
    },
}
