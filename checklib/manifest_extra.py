HOOK_COMMITS = ["666c934"]
NOTES = ("Every check is `./check <id>`: it rebuilds the harness from /repo's working tree, rebuilds the Lean "
         "theorems, audits axioms, runs the model/implementation correspondence and writes evidence/<id>.json. "
         "See DESIGN.md.")
NOT_YET = {}

# properties whose check has been reviewed by the lead and passes on the current tree
READY = ["C02", "C15", "C16", "C18", "C19", "C20"]
