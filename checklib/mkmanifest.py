#!/usr/bin/env python3
# Regenerates /verif/MANIFEST.json from checklib/props.py (claimed checks) and
# checklib/manifest_extra.py (free-text level descriptions).
import json, os, sys
ROOT = os.path.dirname(os.path.dirname(os.path.abspath(__file__)))
sys.path.insert(0, os.path.join(ROOT, "checklib"))
from props import PROPS, LEVELS as LEVEL_TEXT
from manifest_extra import NOT_YET, HOOK_COMMITS, NOTES, READY
PROPS = {k: v for k, v in PROPS.items() if k in READY}

def hook_commits():
    import subprocess
    try:
        out = subprocess.run(["git", "-C", "/repo", "log", "--format=%h %s"], capture_output=True, text=True).stdout
        return [l.split(" ", 1)[0] for l in reversed(out.strip().split("\n")) if l.split(" ", 1)[1].startswith("verif hook")]
    except Exception:
        return HOOK_COMMITS
ids = [json.loads(l)["id"] for l in open(os.path.join(ROOT, "properties.jsonl"))]
checks = []
for pid in ids:
    if pid not in PROPS: continue
    cfg = PROPS[pid]
    checks.append({
        "property_id": pid,
        "quick_cmd": f"./check {pid} --tier quick",
        "thorough_cmd": f"./check {pid} --tier thorough",
        "evidence_file": f"/verif/evidence/{pid}.json",
        "replay_cmd_template": f"./check {pid} --replay {{path}}",
        "engine": "lean4-proof+correspondence",
        "level_claimed": {"category": "proof", "text": LEVEL_TEXT[pid]["text"], "design_ref": LEVEL_TEXT[pid]["design_ref"]},
        "level_note": "; ".join(cfg["trusted_base"]) + ". Assumptions: " + "; ".join(cfg.get("assumptions", [])),
        "technique": LEVEL_TEXT[pid]["technique"],
    })
na = [{"property_id": pid, "reason": NOT_YET.get(pid, "machinery for this property is not built yet (see DESIGN.md section 7 for the order of work)")}
      for pid in ids if pid not in PROPS]
m = {
    "version": 1,
    "setup_cmd": "./setup.sh",
    "hooks": {
        "guard": "verif",
        "enable": "cargo feature `verif` of parsley-rust, switched on by the harness's path dependency (parsley-rust = { path = \"/repo\", features = [\"verif\"] })",
        "baseline_off_cmd": "cd /repo && cargo test --workspace --no-fail-fast --offline",
        "source_commits": hook_commits(),
        "add_only": True,
    },
    "engines": [{
        "name": "lean4-proof+correspondence", "path": "/verif/check",
        "serves_properties": [c["property_id"] for c in checks],
        "kind_free_text": "Lean 4 theorems about hand-written executable models (lake build + #print axioms audit), tied to /repo by a differential correspondence run (Rust harness vs compiled Lean driver) and by regeneration of data tables from the source",
    }],
    "checks": checks,
    "not_applicable": na,
    "notes": NOTES,
}
json.dump(m, open(os.path.join(ROOT, "MANIFEST.json"), "w"), indent=1)
print(f"MANIFEST.json: {len(checks)} checks, {len(na)} not_applicable")
