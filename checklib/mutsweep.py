#!/usr/bin/env python3
"""
mutsweep.py - systematic mutation sweep of /repo against the registered checks (development tool, not a check).

For every sampled single-token mutant of the non-test part of the source files the properties are anchored in:
  1. apply it in a private worktree of /repo (never in /repo itself),
  2. `cargo build --lib` (else: stillborn), `cargo test --lib` must still pass all tests (else: killed by the crate's tests,
     i.e. not the kind of change the checks are for),
  3. run the checks mapped to that file with VERIF_REPO=<worktree> VERIF_WORK=<private> VERIF_LEAN=<private copy>,
     cheapest first, stop at the first VIOLATION,
  4. record one JSON line per mutant in --out (status: stillborn | test-killed | killed:<Cxx> | survived | error).
Survivors are candidates for triage (equivalent mutant / outside every property / genuine gap of a check).

usage: mutsweep.py --out DIR [--workers 4] [--per-file 30] [--seed 1] [--files a.rs b.rs ...] [--resume]
"""
import sys, os, re, json, random, subprocess, threading, queue, time, shutil, argparse, hashlib

VERIF = os.path.dirname(os.path.dirname(os.path.abspath(__file__)))
REPO = "/repo"
SNAP = None

# file -> checks, cheapest first (from the anchors in properties.jsonl)
FILEMAP = {
    "src/pdf_lib/pdf_prim.rs": ["C02", "C15", "C05", "C12"],
    "src/pdf_lib/pdf_obj.rs": ["C02", "C16", "C15", "C05", "C14", "C03", "C06"],
    "src/pdf_lib/pdf_traverse_xref.rs": ["C03", "C04", "C01"],
    "src/pdf_lib/pdf_file.rs": ["C13", "C15", "C03", "C04"],
    "src/pdf_lib/pdf_streams.rs": ["C13", "C14", "C15", "C03", "C06"],
    "src/pdf_lib/pdf_filters.rs": ["C07", "C06", "C03"],
    "src/pdf_lib/pdf_type_check.rs": ["C08", "C09", "C10"],
    "src/pdf_lib/catalog.rs": ["C10"],
    "src/pdf_lib/page_tree.rs": ["C10"],
    "src/pdf_lib/page.rs": ["C10"],
    "src/pdf_lib/common_data_structures.rs": ["C10"],
    "src/pdf_lib/name_tree.rs": ["C10"],
    "src/pdf_lib/number_tree.rs": ["C10"],
    "src/pdf_lib/pdf_page_dom.rs": ["C11", "C01"],
    "src/pdf_lib/pdf_content_streams.rs": ["C12", "C15", "C01"],
    "src/pdf_lib/pdf_operator_types.rs": ["C12"],
    "src/pcore/parsebuffer.rs": ["C17", "C19", "C15", "C18", "C02"],
    "src/pcore/transforms.rs": ["C17", "C03"],
    "src/pcore/prim_combinators.rs": ["C18", "C15"],
    "src/pcore/prim_ascii.rs": ["C18", "C15"],
    "src/pcore/prim_binary.rs": ["C19", "C15", "C13"],
    "src/rtps_lib/rtps_prim.rs": ["C20", "C15"],
    "src/rtps_lib/rtps_packet.rs": ["C20", "C15"],
    "src/bin/pdf_printer.rs": ["C01"],
    "src/bin/rtps_parse.rs": ["C20"],
}

SKIP_LINE = re.compile(r"^\s*(//|#\[|use |pub use |mod |pub mod |extern |\*|/\*)|println!|eprintln!|format!|debug_assert|log::|ta3_log|exit_log|panic!|unreachable!|verif_|cfg\(feature")

OPS = [
    ("rel", re.compile(r" <= "), [" < "]),
    ("rel", re.compile(r" >= "), [" > "]),
    ("rel", re.compile(r"(?<=[\w\)\]]) < (?=[\w\(])"), [" <= "]),
    ("rel", re.compile(r"(?<=[\w\)\]]) > (?=[\w\(])"), [" >= "]),
    ("eq", re.compile(r" == "), [" != "]),
    ("eq", re.compile(r" != "), [" == "]),
    ("bool", re.compile(r" && "), [" || "]),
    ("bool", re.compile(r" \|\| "), [" && "]),
    ("arith", re.compile(r"(?<=[\w\)\]]) \+ (?=[\w\(])"), [" - "]),
    ("arith", re.compile(r"(?<=[\w\)\]]) - (?=[\w\(])"), [" + "]),
    ("arith", re.compile(r"(?<=[\w\)\]]) \+= (?=[\w\(])"), [" -= "]),
    ("const", re.compile(r"(?<![\w\.\"'])(\d+)(?![\w\.\"'])"), None),   # n -> n+1
    ("lit", re.compile(r"\btrue\b"), ["false"]),
    ("lit", re.compile(r"\bfalse\b"), ["true"]),
    ("neg", re.compile(r"\bif (?!let\b)([^{]+) \{\s*$"), None),         # if c { -> if !(c) {
    ("some", re.compile(r"\bSome\(([a-z_]+)\)"), None),                 # handled as no-op (kept for future)
]
# second operator set (--ops B): run after set A
OPS_B = [
    ("relswap", re.compile(r"(?<=[\w\)\]]) < (?=[\w\(])"), [" > "]),
    ("relswap", re.compile(r"(?<=[\w\)\]]) > (?=[\w\(])"), [" < "]),
    ("relswap", re.compile(r" <= "), [" >= "]),
    ("relswap", re.compile(r" >= "), [" <= "]),
    ("constm", re.compile(r"(?<![\w\.\"'])(\d+)(?![\w\.\"'])"), None),          # n -> n-1 (n > 0)
    ("dropl", re.compile(r"\bif (?!let\b)([^{&|]+) (&&|\|\|) ([^{]+) \{\s*$"), None),  # if a && b { -> if b {
    ("dropr", re.compile(r"\bif (?!let\b)([^{&|]+) (&&|\|\|) ([^{]+) \{\s*$"), None),  # if a && b { -> if a {
    ("brk", re.compile(r"^(\s*)break\b"), None),                                    # break -> continue
    ("brk", re.compile(r"^(\s*)continue\b"), None),                                 # continue -> break
    ("minmax", re.compile(r"\.min\("), [".max("]),
    ("minmax", re.compile(r"\.max\("), [".min("]),
    ("retnone", re.compile(r"\breturn Some\((.*)\)(;?)\s*$"), None),                # return Some(x) -> return None
    ("arith2", re.compile(r"(?<=[\w\)\]]) \* (?=[\w\(])"), [" / "]),
    ("arith2", re.compile(r"(?<=[\w\)\]]) / (?=[\w\(])"), [" * "]),
    ("arith2", re.compile(r"(?<=[\w\)\]]) % (?=[\w\(])"), [" / "]),
    ("range", re.compile(r"(?<=[\w\)\]]) \.\. (?=[\w\(])"), [" ..= "]),
    ("range", re.compile(r"(?<=[\w\)\]]) \.\.= (?=[\w\(])"), [" .. "]),
    ("unwrapor", re.compile(r"\.is_some\(\)"), [".is_none()"]),
    ("unwrapor", re.compile(r"\.is_none\(\)"), [".is_some()"]),
    ("unwrapor", re.compile(r"\.is_ok\(\)"), [".is_err()"]),
    ("unwrapor", re.compile(r"\.is_err\(\)"), [".is_ok()"]),
    ("unwrapor", re.compile(r"\.is_empty\(\)"), [".len() == 1"]),
]
# third operator set (--ops C): "wrong variable" (an identifier replaced by another local of the same function), swapped
# arguments of a two-argument call, and byte constants of the same family exchanged (white space / delimiters)
OPS_C = [("idsub", None, None), ("argswap", re.compile(r"\b([a-z_][\w\.]*)\(([a-z_][\w\.]*), ([a-z_][\w\.]*)\)"), None),
         ("bytefam", re.compile(r"(?<![\w\.\"'])(0|9|10|12|13|32|37|40|41|47|60|62|91|93)(?![\w\.\"'])"), None)]
BYTEFAM = {"0": "32", "9": "32", "10": "13", "13": "10", "12": "10", "32": "10", "37": "47", "40": "41", "41": "40", "47": "37",
           "60": "62", "62": "60", "91": "93", "93": "91"}
KEYWORDS = set("let mut if else match for in while loop return break continue fn pub impl self Self struct enum use mod as ref move true false Some None Ok Err where dyn crate super const static type trait unsafe".split())
ACTIVE_OPS = OPS
STMT = re.compile(r"^\s*(?!let\b|return\b|break\b|continue\b)[a-z_][\w\.]*(\.[a-z_]+\([^;]*\)|\s*(\+|-)?=\s*[^;]+);\s*$")


def code_part(line):
    # strip trailing // comment (naive: not inside a string with //)
    i = line.find("//")
    if i >= 0 and line[:i].count('"') % 2 == 0:
        return line[:i], line[i:]
    return line, ""


def in_string(code, pos):
    return code[:pos].count('"') % 2 == 1


def mutants_of(path):
    lines = open(os.path.join(REPO, path)).read().split("\n")
    end = len(lines)
    for i, l in enumerate(lines):
        if re.match(r"\s*#\[cfg\(test\)\]", l):
            end = i; break
    out = []
    # locals per function (for the identifier-substitution operator): names bound by `let` / parameters between two `fn` lines
    fn_locals, cur = {}, set()
    fn_start = 0
    for i in range(end):
        if re.match(r"\s*(pub(\([a-z]+\))? )?fn \w+", lines[i]):
            for j in range(fn_start, i): fn_locals[j] = cur
            cur, fn_start = set(), i
            for m in re.finditer(r"\b([a-z_]\w*)\s*:", lines[i]): cur.add(m.group(1))
        for m in re.finditer(r"\blet (?:mut )?\(?([a-z_]\w*)", lines[i]): cur.add(m.group(1))
        for m in re.finditer(r"\bfor \(?([a-z_]\w*)", lines[i]): cur.add(m.group(1))
    for j in range(fn_start, end): fn_locals[j] = cur
    for i in range(end):
        l = lines[i]
        if SKIP_LINE.search(l): continue
        code, cmt = code_part(l)
        if not code.strip(): continue
        for kind, rx, reps in ACTIVE_OPS:
            if kind == "some": continue
            if kind == "idsub":
                locs = sorted(x for x in fn_locals.get(i, set()) if x not in KEYWORDS and len(x) > 1 and x != "_")
                if len(locs) < 2 or re.match(r"\s*let ", code): continue
                for m in re.finditer(r"(?<![\w\.])([a-z_]\w*)(?![\w\(!:])", code):
                    if in_string(code, m.start()) or m.group(1) not in locs: continue
                    for other in locs:
                        if other != m.group(1):
                            out.append((i, kind, l, code[:m.start(1)] + other + code[m.end(1):] + cmt))
                continue
            if kind == "argswap":
                for m in rx.finditer(code):
                    if in_string(code, m.start()) or m.group(2) == m.group(3): continue
                    out.append((i, kind, l, code[:m.start(2)] + m.group(3) + ", " + m.group(2) + code[m.end(3):] + cmt))
                continue
            if kind == "bytefam":
                for m in rx.finditer(code):
                    if in_string(code, m.start()): continue
                    out.append((i, kind, l, code[:m.start(1)] + BYTEFAM[m.group(1)] + code[m.end(1):] + cmt))
                continue
            for m in rx.finditer(code):
                if in_string(code, m.start()): continue
                if kind == "constm":
                    n = int(m.group(1))
                    if n == 0 or n > 70000: continue
                    new = code[:m.start(1)] + str(n - 1) + code[m.end(1):]
                    out.append((i, kind, l, new + cmt))
                elif kind in ("dropl", "dropr"):
                    keep = m.group(3) if kind == "dropl" else m.group(1)
                    new = code[:m.start(1)] + keep + code[m.end(3):]
                    out.append((i, kind, l, new + cmt))
                elif kind == "brk":
                    w = code[m.end(1):]
                    new = code[:m.end(1)] + ("continue" + w[5:] if w.startswith("break") else "break" + w[8:])
                    out.append((i, kind, l, new + cmt))
                elif kind == "retnone":
                    new = code[:m.start()] + "return None" + m.group(2)
                    out.append((i, kind, l, new + cmt))
                elif kind == "const":
                    n = int(m.group(1))
                    if n > 70000: continue
                    new = code[:m.start(1)] + str(n + 1) + code[m.end(1):]
                    out.append((i, kind, l, new + cmt))
                elif kind == "neg":
                    c = m.group(1)
                    new = code[:m.start(1)] + "!(" + c + ")" + code[m.end(1):]
                    out.append((i, kind, l, new + cmt))
                else:
                    for r in reps:
                        new = code[:m.start()] + r + code[m.end():]
                        out.append((i, kind, l, new + cmt))
        if ACTIVE_OPS is OPS and STMT.match(code):
            out.append((i, "del", l, "// MUT-DELETED " + l.strip()))
    return out


def sh(cmd, cwd, env, timeout):
    try:
        p = subprocess.run(cmd, cwd=cwd, env=env, stdout=subprocess.PIPE, stderr=subprocess.STDOUT, timeout=timeout,
                           start_new_session=True)
        return p.returncode, p.stdout.decode("utf-8", "replace")
    except subprocess.TimeoutExpired as e:
        subprocess.run(["pkill", "-f", cwd], stdout=subprocess.DEVNULL, stderr=subprocess.DEVNULL)
        return 124, (e.stdout or b"").decode("utf-8", "replace") + "\nTIMEOUT"


class Worker(threading.Thread):
    def __init__(self, idx, q, outf, lock, base):
        super().__init__(daemon=True)
        self.idx, self.q, self.outf, self.lock = idx, q, outf, lock
        self.wt = os.path.join(base, f"wt{idx}")
        self.lean = os.path.join(base, f"lean{idx}")
        self.work = os.path.join(base, f"work{idx}")
        self.env = dict(os.environ, CARGO_NET_OFFLINE="true", CARGO_TARGET_DIR=os.path.join(self.wt, "target"))
        self.cenv = dict(os.environ, CARGO_NET_OFFLINE="true", VERIF_REPO=self.wt, VERIF_WORK=self.work, VERIF_LEAN=self.lean)

    def setup(self):
        if not os.path.isdir(self.wt):
            subprocess.run(["git", "-C", REPO, "worktree", "add", "--detach", self.wt, "HEAD"], check=True,
                           stdout=subprocess.DEVNULL, stderr=subprocess.DEVNULL)
        subprocess.run(["git", "-C", self.wt, "checkout", "-q", "--", "."], check=True)
        if not os.path.isdir(self.lean):
            # sources from the committed snapshot, build products from the live project (lake rebuilds what differs)
            shutil.copytree(os.path.join(SNAP, "lean"), self.lean, symlinks=True)
            shutil.copytree(os.path.join(VERIF, "lean", ".lake"), os.path.join(self.lean, ".lake"), symlinks=True)
        os.makedirs(self.work, exist_ok=True)
        rc, out = sh(["cargo", "test", "--offline", "--lib"], self.wt, self.env, 1800)
        assert "132 passed; 0 failed" in out, out[-2000:]

    def run(self):
        self.setup()
        while True:
            try:
                mut = self.q.get_nowait()
            except queue.Empty:
                return
            rec = self.one(mut)
            with self.lock:
                self.outf.write(json.dumps(rec) + "\n"); self.outf.flush()
                print(f"[w{self.idx}] {rec['id']} {rec['file']}:{rec['line']} {rec['op']} -> {rec['status']} ({rec['secs']}s)", flush=True)

    def one(self, mut):
        path, (ln, kind, old, new), mid = mut
        t0 = time.time()
        rec = {"id": mid, "file": path, "line": ln + 1, "op": kind, "old": old.strip(), "new": new.strip(), "checks": {}}
        fp = os.path.join(self.wt, path)
        src = open(fp).read()
        lines = src.split("\n")
        assert lines[ln] == old
        lines[ln] = new
        open(fp, "w").write("\n".join(lines))
        try:
            tgt = ["--bins"] if path.startswith("src/bin/") else ["--lib"]
            rc, out = sh(["cargo", "build", "--offline", "--features", "verif"] + tgt, self.wt, self.env, 900)
            if rc != 0:
                rec["status"] = "stillborn"; return rec
            rc, out = sh(["cargo", "test", "--offline", "--lib"], self.wt, self.env, 600)
            if rc != 0 or "132 passed; 0 failed" not in out:
                rec["status"] = "test-killed"; return rec
            rec["status"] = "survived"
            for c in FILEMAP[path]:
                t1 = time.time()
                rc, out = sh([os.path.join(SNAP, "check"), c], SNAP, self.cenv, 1500)
                v = [l for l in out.split("\n") if l.startswith("VIOLATION")]
                rec["checks"][c] = {"rc": rc, "secs": round(time.time() - t1), "violation": v[0] if v else None,
                                    "tail": out.strip().split("\n")[-1][:300]}
                if rc == 1 and v:
                    rec["status"] = "killed:" + c; break
                if rc == 124:
                    rec["status"] = "killed-timeout:" + c; break
                if rc != 0:
                    rec["status"] = "error:" + c
            return rec
        finally:
            open(fp, "w").write(src)
            rec["secs"] = round(time.time() - t0)


def main():
    ap = argparse.ArgumentParser()
    ap.add_argument("--out", required=True)
    ap.add_argument("--workers", type=int, default=4)
    ap.add_argument("--per-file", type=int, default=30)
    ap.add_argument("--seed", type=int, default=1)
    ap.add_argument("--files", nargs="*")
    ap.add_argument("--base", default="/tmp/mutsweep")
    ap.add_argument("--list", action="store_true")
    ap.add_argument("--ops", default="A")
    ap.add_argument("--only", help="file with one mutant id per line: run only these")
    ap.add_argument("--resname", help="name of the result file inside --out")
    a = ap.parse_args()
    global ACTIVE_OPS
    if a.ops == "B": ACTIVE_OPS = OPS_B
    if a.ops == "C": ACTIVE_OPS = OPS_C
    os.makedirs(a.out, exist_ok=True)
    resf = os.path.join(a.out, "results.jsonl" if a.ops == "A" else f"results_{a.ops}.jsonl")
    if a.resname: resf = os.path.join(a.out, a.resname)
    only = set(open(a.only).read().split()) if a.only else None
    done = set()
    if os.path.exists(resf):
        for l in open(resf):
            try: done.add(json.loads(l)["id"])
            except Exception: pass
    rng = random.Random(a.seed)
    q = queue.Queue()
    total = 0
    for path in (a.files or sorted(FILEMAP)):
        ms = mutants_of(path)
        rng2 = random.Random(f"{a.seed}:{path}")
        rng2.shuffle(ms)
        # at most one mutant per (line, op kind) among the sample, to spread over the file
        seen, pick = set(), []
        cnt = {}
        for m in ms:
            k = (m[0], m[1])
            if m[1] == "idsub":                      # up to two different substitutions per line (most do not type-check)
                cnt[k] = cnt.get(k, 0) + 1
                if cnt[k] > 2: continue
                k = (m[0], m[1], cnt[k])
            if k in seen: continue
            seen.add(k); pick.append(m)
            if len(pick) >= a.per_file: break
        total += len(ms)
        for m in pick:
            mid = hashlib.sha1(f"{path}:{m[0]}:{m[3]}".encode()).hexdigest()[:10]
            if mid in done: continue
            if only is not None and mid not in only: continue
            if a.list:
                print(path, m[0] + 1, m[1], "|", m[2].strip(), "=>", m[3].strip())
            q.put((path, m, mid))
    print(f"{total} candidate mutants, {q.qsize()} queued, {len(done)} already done", flush=True)
    if a.list: return
    # the checks run from a snapshot of the committed /verif (check, checklib, corpus, known findings, harness and Lean sources),
    # so that engineers editing /verif while the sweep runs cannot disturb it
    global SNAP
    SNAP = os.path.join(a.base, "snap")
    if not os.path.isdir(SNAP):
        os.makedirs(SNAP)
        subprocess.run(f"git -C {VERIF} archive HEAD | tar -x -C {SNAP}", shell=True, check=True)
    lock = threading.Lock()
    with open(resf, "a") as outf:
        ws = [Worker(i, q, outf, lock, a.base) for i in range(a.workers)]
        for w in ws: w.start()
        for w in ws: w.join()
    print("sweep finished", flush=True)


if __name__ == "__main__":
    main()
