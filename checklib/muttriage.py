#!/usr/bin/env python3
"""
muttriage.py - classifies the survivors of checklib/mutsweep.py (mutation/results.jsonl) with the hand-written table below
(every survivor was read against the source) and writes mutation/SUMMARY.md.  Classes:
  equivalent : the mutant cannot change any observable behaviour (dead branch, redundant restore, commented-out code, x >= 0 on usize)
  outside    : behaviour changes, but no property of properties.jsonl speaks about it (log text, error locations of filters,
               code that is not wired into any pipeline, validation helpers nobody calls, ...)
  gap        : behaviour a property speaks about changed and no check noticed -> generator / theorem strengthened; `fixed_by` names
               the commit or follow-up; the mutant is re-run afterwards (status `killed-after:<check>`).
"""
import json, os, collections
ROOT = os.path.dirname(os.path.dirname(os.path.abspath(__file__)))
T = [
 # (file suffix, first line, last line, class, note)
 ("parsebuffer.rs", 199, 199, "outside", "locate_value orders (start,end) of ERROR locations built by the filters; `<=` is equivalent, the negation swaps them; no property speaks about filter error locations"),
 ("prim_ascii.rs", 33, 39, "outside", "location attached to an AsciiChar error (start 0 -> 1); C15/C18 observe the cursor and the error kind of failures, not their location"),
 ("name_tree.rs", 119, 140, "equivalent", "struct NamesPredicate is never constructed (dead code; the shipped name-tree check uses NameTreePredicate)"),
 ("number_tree.rs", 149, 170, "equivalent", "struct NumsPredicate is never constructed (dead code)"),
 ("page.rs", 299, 299, "gap", "optional entry /B dropped from the shipped page specification: no theorem pinned the page type's entry table and the mutation menu did not contain /B"),
 ("pdf_content_streams.rs", 68, 68, "equivalent", "the '%' branch of the content-stream object parser is unreachable: the preceding WhitespaceEOL has consumed every comment"),
 ("pdf_content_streams.rs", 132, 133, "outside", "value of a boolean OPERAND in a content stream; C12 speaks about string operands of text-showing operators and operand kinds, the extractor never reads a boolean's value"),
 ("pdf_file.rs", 334, 334, "outside", "XrefSectT::is_valid (free-list validation helper) is not called by the loader or any property's code path"),
 ("pdf_file.rs", 410, 410, "equivalent", "rewind of blanks before a subsection header; XrefSubSectP skips them itself"),
 ("pdf_file.rs", 536, 536, "outside", "StartXrefP would accept `startxref` immediately followed by the number; acceptance of that malformed spelling is not in any property's rejection list (C03/C04 quantify over well-formed documents, C13 over tables and streams)"),
 ("pdf_filters.rs", 75, 75, "gap", "default of /Columns when absent from /DecodeParms: generators always wrote /Columns when a predictor was used"),
 ("pdf_filters.rs", 83, 83, "equivalent", "_earlyexchange is unused in FlateDecode"),
 ("pdf_filters.rs", 160, 160, "outside", "location passed by the verification hook verif_predict (cfg feature verif)"),
 ("pdf_filters.rs", 170, 262, "outside", "LZWDecode / decode_bytes_lzw: the type is never instantiated by decode_stream or any other code path (filters supported: Flate, ASCIIHex, ASCII85), and no property names LZW"),
 ("pdf_filters.rs", 369, 369, "outside", "/Predictor 15 (PNG optimum) is outside C07's six predictors (stated assumption of C07)"),
 ("pdf_filters.rs", 517, 517, "equivalent", "PROVED equivalent: the group counter is only read through `!= 0`, and 2k mod 5 / -(k mod 5) vanish exactly when k mod 5 does (Lemmas/A85Reject.lean a85_counter_plus2_equiv, a85_counter_minus1_equiv); the `z`-position family added while analysing it catches the non-equivalent siblings (%4, +0, reset at ~)"),
 ("pdf_obj.rs", 79, 79, "gap", "PDFObjContext::set_encrypted: see pdf_traverse_xref.rs:280"),
 ("pdf_obj.rs", 428, 428, "equivalent", "ReferenceP is only entered after the look-ahead has seen non-empty white space twice"),
 ("pdf_obj.rs", 518, 518, "equivalent", "`n.unwrap();` has no effect"),
 ("pdf_obj.rs", 528, 528, "equivalent", "the '%' branch of parse_internal is unreachable after WhitespaceEOL"),
 ("pdf_obj.rs", 603, 603, "equivalent", "WhitespaceEOL restores the cursor itself when it fails (C15 theorem), the extra restore is redundant"),
 ("pdf_obj.rs", 627, 627, "equivalent", "check_prefix never returns Err"),
 ("pdf_obj.rs", 636, 636, "equivalent", "every path after the peek sets the cursor again"),
 ("pdf_obj.rs", 752, 760, "outside", "cursor position after a FAILED parse_pdf_indirect_obj (invalid generation); C15's no-consume clause covers the token parsers and parse_pdf_obj, C05 observes the error kind; every caller abandons the buffer"),
 ("pdf_page_dom.rs", 130, 160, "outside", "FeaturePresence / commented-out code; not in C11's statement"),
 ("pdf_page_dom.rs", 620, 660, "outside", "font-descriptor /Flags bits; C11 speaks about pages, nodes, resources inheritance and content streams"),
 ("pdf_prim.rs", 201, 201, "equivalent", "IntegerT::is_zero only occurs as `is_zero() || is_usize()`, and is_usize holds for 0"),
 ("pdf_prim.rs", 202, 265, "outside", "is_positive of IntegerT/RealT is called by unit tests only"),
 ("pdf_prim.rs", 318, 358, "gap", "cursor restore on RealP's i128 overflow exits: needs number tokens of 39+ digits (integer part, fractional part)"),
 ("pdf_prim.rs", 693, 693, "equivalent", "restore when start == end (the cursor has not moved)"),
 ("pdf_prim.rs", 698, 747, "gap", "OperatorP `#xx` hex-code normalisation (length threshold, trailing bytes after a code): no generated operator token contained `#` + two hex digits"),
 ("pdf_prim.rs", 842, 842, "equivalent", "extract() has already advanced the cursor by length"),
 ("pdf_streams.rs", 109, 109, "equivalent", "initial last_ofs is never compared (first pair is exempt)"),
 ("pdf_streams.rs", 122, 145, "equivalent", "error-path cursor restores inside the header view, which is dropped on error"),
 ("pdf_streams.rs", 149, 149, "equivalent", "offset ordering is enforced a second time when the members are parsed at their offsets (overrun / seek check); the stream is rejected either way with the same error kind"),
 ("pdf_streams.rs", 560, 560, "equivalent", "usize >= 0; a zero-width third field reads as 0 = the default"),
 ("pdf_streams.rs", 693, 693, "outside", "start offset recorded inside a decoded StreamContentT; not observable through any property (C15 documents `start` as absolute and exempt)"),
 ("pdf_traverse_xref.rs", 150, 150, "outside", "log / exit message text (file offsets)"),
 ("pdf_traverse_xref.rs", 232, 232, "equivalent", "XrefSectP restores the cursor on failure"),
 ("pdf_traverse_xref.rs", 280, 280, "gap", "/Encrypt in a trailer sets the context's encrypted flag, which makes object streams and cross-reference streams be refused; the generators never wrote /Encrypt, so the model's `enc` flag was never exercised by the correspondence run"),
 ("pdf_traverse_xref.rs", 356, 356, "equivalent", "parse_xref_section already falls back to parse_xref_stream"),
 ("pdf_traverse_xref.rs", 421, 421, "equivalent", "inside a /* */ comment"),
 ("pdf_traverse_xref.rs", 500, 830, "outside", "log / exit message text and offsets used only in log lines"),
 ("pdf_type_check.rs", 105, 105, "outside", "initial value of the verification-only step counter (cfg feature verif)"),
 ("pdf_type_check.rs", 325, 339, "gap", "TypeCheck::new_refined / new_indirect no longer register their type in the context: the harness built every named type through one constructor"),
 ("pdf_type_check.rs", 613, 637, "equivalent", "PROVED equivalent for every configuration, graph, context, object and specification (Props/C08Unwind.lean unwind_mutants_equivalent: same verdict, error kind and work-loop count; both situations are reachable, witness theorems); the families added while analysing it catch the control mutant `> 1`"),
 ("pdf_type_check.rs", 992, 992, "equivalent", "unreachable arm (a key taken from the dictionary always has a value)"),
 # --- the two binaries ---
 ("pdf_printer.rs", 90, 175, "outside", "dump_root's breadth-first listing: depth labels, duplicate visits of already printed objects, `if false` debug switches; C01 speaks about panic / abort / hang, and the mutants that make the traversal diverge on cyclic graphs (170 neg, 172 del) ARE killed (hang detected); what is printed is not observed"),
 ("pdf_printer.rs", 176, 235, "outside", "spacing of the extracted text on stdout (C12 owns the extracted tokens; the binary's formatting is no property's subject)"),
 ("pdf_printer.rs", 236, 460, "outside", "log offsets, command-line option declarations, log-level table, JSON output switch"),
 ("rtps_parse.rs", 1, 80, "outside", "the rtps_parse binary (file loop, packet counter, exit codes, argument handling); C20's checks call the library parser the binary wraps"),
 # --- operator set B only ---
 ("pdf_file.rs", 320, 333, "outside", "XrefSectT::is_valid (free-list validation helper) is not called by the loader or any property's code path"),
 ("pdf_content_streams.rs", 456, 456, "equivalent", "at end of input the next loop iteration's first parse fails with end-of-buffer exactly where the `break` left; same result"),
 ("pdf_filters.rs", 148, 148, "equivalent", "pixel_bytes is already rounded up, so max(1, .) only matters for /Colors 0, where the row is empty and no neighbour is read"),
 ("pdf_filters.rs", 272, 272, "outside", "/Predictor 15 is outside C07's six predictors"),
 ("pdf_filters.rs", 289, 289, "equivalent", "predictor_geometry has already rejected every sample size other than 1, 2, 4, 8, 16"),
 ("pdf_filters.rs", 384, 384, "equivalent", "index 0 is the row's filter-type byte: never emitted and never read as a neighbour (j > bytes_per_pixel is strict)"),
 ("pdf_filters.rs", 462, 462, "equivalent", "hex2bin returns the slice it has written; a larger scratch buffer changes nothing"),
 ("pdf_prim.rs", 566, 566, "outside", "NameT::is_empty has no caller in the crate"),
 ("pdf_prim.rs", 649, 649, "equivalent", "after the `break` condition the window iterator is exhausted, so `continue` leaves the loop at its head"),
 ("pdf_prim.rs", 743, 743, "equivalent", "same as 649 for OperatorP"),
 ("pdf_traverse_xref.rs", 257, 257, "outside", "a classic section WITHOUT a trailer on the /Prev chain is used (original) or refused (mutant): malformed input outside C03/C04's well-formed histories; seen only by the correspondence run if generated - added to the corruption menu as a follow-up"),
 ("pdf_traverse_xref.rs", 570, 570, "equivalent", "an object queued for the second pass is never already defined when its turn comes (identifiers are de-duplicated by the walk and object-stream members have generation 0 entries of type 2, which are not queued)"),
 ("pdf_traverse_xref.rs", 679, 679, "equivalent", "RestrictView over a stream's own content span cannot fail"),
 ("pdf_type_check.rs", 828, 828, "equivalent", "`continue` re-tests `seen.insert(id)` with the id just inserted, which is false: the loop ends as with `break`"),
 ("pdf_type_check.rs", 993, 998, "equivalent", "993 is an unreachable arm; at 998 the result is already an error and the verdict (reject) cannot change"),
 ("rtps_prim.rs", 45, 237, "outside", "cursor restore of RTPS sub-parsers on failure: C20 speaks about accepted datagrams re-encoding and rejection; after a failed sub-parser the datagram is rejected and the buffer abandoned"),
]


# operator set C (wrong variable / swapped arguments / byte-family constants): its survivors are classified by this table first
TC = [
 ("parsebuffer.rs", 380, 540, "outside", "start/end of the location attached to an ERROR (C15's failure clause is about the cursor; error locations are nobody's subject)"),
 ("prim_ascii.rs", 30, 40, "outside", "location attached to an AsciiChar error"),
 ("prim_combinators.rs", 170, 178, "outside", "location attached to Not's error"),
 ("common_data_structures.rs", 140, 144, "outside", "text of a predicate's error message"),
 ("name_tree.rs", 119, 140, "equivalent", "dead code (NamesPredicate is never constructed)"),
 ("number_tree.rs", 149, 170, "equivalent", "dead code (NumsPredicate is never constructed)"),
 ("pdf_content_streams.rs", 260, 435, "outside", "arguments of error messages of the text extractor"),
 ("pdf_file.rs", 59, 59, "gap", "SUCCESS location of HeaderP (end := start): C15 quantifies over every parser, the check covered pcore, pdf_prim and parse_pdf_obj only -> follow-up C15d extends the success clause to every ParsleyParser implementor"),
 ("pdf_file.rs", 100, 125, "outside", "location attached to an error of XrefEntP"),
 ("pdf_file.rs", 247, 247, "gap", "SUCCESS location of XrefSubSectP: see pdf_file.rs:59"),
 ("pdf_file.rs", 334, 334, "outside", "XrefSectT::is_valid is not called"),
 ("pdf_file.rs", 500, 505, "outside", "location attached to an error"),
 ("pdf_filters.rs", 160, 160, "outside", "verification hook"),
 ("pdf_filters.rs", 170, 262, "outside", "LZWDecode: never instantiated"),
 ("pdf_filters.rs", 297, 310, "equivalent", "row_length and row_bytes hold the same value"),
 ("pdf_filters.rs", 398, 398, "equivalent", "average(a, b) is symmetric"),
 ("pdf_obj.rs", 440, 440, "outside", "location attached to an error"),
 ("pdf_page_dom.rs", 620, 660, "outside", "font-descriptor flag bits"),
 ("pdf_prim.rs", 70, 180, "outside", "location attached to an error of a token parser"),
 ("pdf_prim.rs", 201, 265, "outside", "is_zero / is_positive: equivalent or unused"),
 ("pdf_prim.rs", 310, 310, "outside", "location attached to an error"),
 ("pdf_prim.rs", 424, 424, "equivalent", "x % 2 != 32 is always true: a '0' is appended to an even digit string too, and the lone trailing digit is then ignored by the pair loop"),
 ("pdf_prim.rs", 541, 541, "outside", "location attached to an error"),
 ("pdf_prim.rs", 720, 720, "gap", "`#hh` codes: the NUL test on the decoded byte replaced by a test of one nibble; only codes with a zero nibble (#0A, #20, #A0) distinguish it -> all 256 codes added to C15's family"),
 ("pdf_prim.rs", 873, 873, "outside", "location attached to an error"),
 ("pdf_streams.rs", 109, 109, "equivalent", "initial last_ofs is never compared"),
 ("pdf_streams.rs", 520, 520, "outside", "location attached to an error"),
 ("pdf_streams.rs", 582, 582, "gap", "SUCCESS location of a cross-reference-stream entry: see pdf_file.rs:59"),
 ("pdf_streams.rs", 693, 693, "outside", "start recorded inside a decoded StreamContentT"),
 ("pdf_traverse_xref.rs", 699, 699, "equivalent", "loop variable is unused"),
 ("pdf_traverse_xref.rs", 1, 905, "outside", "arguments of log and exit messages (object numbers, offsets, counts printed in diagnostics)"),
]


def classify(r):
    if r.get("_set") == "C":
        f = r["file"].split("/")[-1]
        best = None
        for (sf, a, b, c, n) in TC:
            if f == sf and a <= r["line"] <= b and (best is None or b - a < best[0]):
                best = (b - a, c, n)
        if best: return best[1], best[2]
    return classify_ab(r)


def classify_ab(r):
    f = r["file"].split("/")[-1]
    best = None
    for (sf, a, b, c, n) in T:
        if f == sf and a <= r["line"] <= b and (best is None or b - a < best[0]):
            best = (b - a, c, n)          # the narrowest matching range wins
    if best: return best[1], best[2]
    return "untriaged", ""


def main():
    rs = [json.loads(l) for l in open(os.path.join(ROOT, "mutation", "results.jsonl"))]
    for nm in ("results_B.jsonl", "results_bin.jsonl", "results_C.jsonl"):
        pb = os.path.join(ROOT, "mutation", nm)
        if os.path.exists(pb):
            for l in open(pb):
                r = json.loads(l)
                if nm == "results_C.jsonl": r["_set"] = "C"
                rs.append(r)
    rerun = {}
    for nm in ("rerun.jsonl", "rerun_B.jsonl", "rerun_C.jsonl"):
        p = os.path.join(ROOT, "mutation", nm)
        if os.path.exists(p):
            for l in open(p):
                r = json.loads(l); rerun[r["id"]] = r
    # a survivor of the first run that a strengthened check kills in the re-run counts as a closed gap
    for r in rs:
        if r["status"] == "survived" and r["id"] in rerun and rerun[r["id"]]["status"].startswith("killed") and classify(r)[0] != "gap":
            r["_closed"] = True
    st = collections.Counter(r["status"].split(":")[0] for r in rs)
    out = ["# Mutation sweep (checklib/mutsweep.py) - summary", "",
           "Single-token mutants, two operator sets (A: relational / equality / boolean / arithmetic operator swaps, literal n -> n+1, true <-> false, negated `if`, deleted statement; B: < <-> >, n -> n-1, one operand of && / || dropped, break <-> continue, min <-> max, return Some -> None, * / %, .. <-> ..=, is_some/is_ok/is_empty flipped; C: an identifier replaced by another local of the same function, the two arguments of a call swapped, byte constants of one family exchanged) "
           "of the non-test part of the 25 source files the properties are anchored in (23 library files, sets A and B; the binaries pdf_printer.rs and rtps_parse.rs, set A); one mutant per (line, operator kind). "
           "A mutant that does not compile is `stillborn`; one that fails the crate's own 132 tests is `test-killed` (not the kind of change the checks are for); "
           "the others are run through the quick tier of every check mapped to the file (VERIF_REPO = private worktree).", "",
           f"* mutants: {len(rs)}; stillborn {st['stillborn']}; killed by the crate's tests {st['test-killed']}; "
           f"**survive the tests: {st['killed'] + st['survived'] + st['killed-timeout']}**, of which killed by a check: {st['killed'] + st['killed-timeout']}, not noticed by any check: {st['survived']}", ""]
    kc = collections.Counter(r["status"].split(":")[1] for r in rs if r["status"].startswith("killed"))
    out.append("* kills per check: " + ", ".join(f"{k} {v}" for k, v in sorted(kc.items())))
    surv = [r for r in rs if r["status"] == "survived"]
    cl = collections.Counter()
    rows = collections.defaultdict(list)
    for r in surv:
        c, n = classify(r)
        if r.get("_closed"): c, n = "gap", "(operator set B) same site as a set-A gap"
        cl[c] += 1
        rows[(c, r["file"], n)].append(r)
    out.append(f"* survivors by triage class: " + ", ".join(f"{k} {v}" for k, v in sorted(cl.items())))
    gaps = [r for r in surv if classify(r)[0] == "gap" or r.get("_closed")]
    closed = [r for r in gaps if r["id"] in rerun and rerun[r["id"]]["status"].startswith("killed")]
    out.append(f"* gaps: {len(gaps)} mutants; re-run after strengthening: {len(closed)} now killed, "
               f"{len([r for r in gaps if r['id'] in rerun and not rerun[r['id']]['status'].startswith('killed')])} still surviving, {len([r for r in gaps if r['id'] not in rerun])} not re-run yet")
    out += ["", "## Survivors", "", "| class | file:lines | mutants | why / what was done | after strengthening |", "|---|---|---|---|---|"]
    for (c, f, n), lst in sorted(rows.items()):
        lines = sorted(set(r["line"] for r in lst))
        after = ""
        if c == "gap" or any(r.get("_closed") for r in lst):
            res = [rerun[r["id"]]["status"] if r["id"] in rerun else "not re-run" for r in lst]
            after = ", ".join(f"{k} x{v}" for k, v in collections.Counter(res).items())
        out.append(f"| {c} | {f.replace('src/', '')}:{','.join(map(str, lines))} | {len(lst)} | {n} | {after} |")
    open(os.path.join(ROOT, "mutation", "SUMMARY.md"), "w").write("\n".join(out) + "\n")
    print("\n".join(out[:12]))
    un = [r for r in surv if classify(r)[0] == "untriaged"]
    for r in un: print("UNTRIAGED", r["file"], r["line"], r["old"][:80], "=>", r["new"][:80])


if __name__ == "__main__":
    main()
