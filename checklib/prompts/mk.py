import json, os, sys
props={json.loads(l)['id']:json.loads(l) for l in open('/verif/properties.jsonl')}
tmpl=open('/verif/checklib/prompts/template.txt').read()
extras=json.load(open('/verif/checklib/prompts/extras.json'))
def ptext(i):
    p=props[i]
    return f"{i} - {p['title']}\nStatement: {p['statement']}\nQuantifier: {p['quantifier']['text']}\nWhy tests cannot settle it: {p['why_tests_cant']}\nAnchors: {json.dumps(p['anchors'])[:1500]}"
os.makedirs('/verif/checklib/prompts/out',exist_ok=True)
for k,ex in extras.items():
    ids=ex.get('ids',[k])
    pt='\n\n'.join(ptext(i) for i in ids)
    first=ids[0]
    open(f'/verif/checklib/prompts/out/{k}.txt','w').write(tmpl.replace('{ids}',' and '.join(ids)).replace('{first}',first).replace('{lower}',first.lower()).replace('{ptext}',pt).replace('{extra}',ex['notes']))
