import json, sys, os
props={json.loads(l)['id']:json.loads(l) for l in open('/verif/properties.jsonl')}
tmpl=open('/verif/checklib/prompts/seed_template.txt').read()
for pid in sys.argv[1:]:
    tag = pid
    base = pid.split('_')[0]
    p=props[base]
    pt=f"{p['title']}\n{p['statement']}\nQuantified over: {p['quantifier']['text']}\nRelevant source files: {', '.join(p['anchors']['files'])}"
    wt=f"/tmp/seed_{tag}"
    txt = tmpl.replace('{wt}',wt).replace('{ptext}',pt).replace('{pid}',base)
    open(f"/verif/checklib/prompts/seed/{tag}.txt","w").write(txt); os.makedirs("/tmp/seedprompts",exist_ok=True); open(f"/tmp/seedprompts/{tag}.txt","w").write(txt)
    os.system(f"git -C /repo worktree add -q {wt} HEAD 2>&1 | tail -1")
    print(tag, wt)
