import json, sys, os
props={json.loads(l)['id']:json.loads(l) for l in open('/verif/properties.jsonl')}
tmpl=open('/verif/checklib/prompts/seed_template.txt').read()
for pid in sys.argv[1:]:
    tag = pid
    base = pid.split('_')[0]
    p=props[base]
    pt=f"{p['title']}\n{p['statement']}\nQuantified over: {p['quantifier']['text']}\nRelevant source files: {', '.join(p['anchors']['files'])}"
    wt=f"/tmp/seed_{tag}"
    import glob
    prev=[json.load(open(m)).get('summary','')[:400] for m in sorted(glob.glob(f'/verif/seeded/{base}*/meta.json'))]
    if prev:
        pt += "\n\nOther engineers have ALREADY seeded the following changes for this property - choose a DIFFERENT mechanism and a different part of the relevant code (they are listed only so that you do not repeat them):\n" + "\n".join(f"  - {x}" for x in prev)
    txt = tmpl.replace('{wt}',wt).replace('{ptext}',pt).replace('{pid}',base)
    open(f"/verif/checklib/prompts/seed/{tag}.txt","w").write(txt); os.makedirs("/tmp/seedprompts",exist_ok=True); open(f"/tmp/seedprompts/{tag}.txt","w").write(txt)
    os.system(f"git -C /repo worktree add -q {wt} HEAD 2>&1 | tail -1")
    print(tag, wt)
