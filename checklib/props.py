# Per-property configuration of ./check.
#  modules   : Lean modules holding the property theorems (built on every run)
#  theorems  : the REQUIRED obligations (fully qualified); a missing one is a broken obligation
#  partial   : theorems that prove less than the statement -> what they leave out
#  n         : random cases per tier (on top of corpus + exhaustive streams)
#  rule      : how cases are generated and what makes one non-trivial
#  gen       : Gen/*.lean files regenerated from /repo by `corr extract`
COMMON_TB = [
    "Lean 4.33.0 kernel (thorough tier: re-checked with leanchecker)",
    "axioms: at most propext, Classical.choice, Quot.sound (audited with #print axioms on every run)",
    "Lean compiler/runtime for the executable side of the model (driver parsley_model)",
    "correspondence harness /verif/harness (canonicalisation, catch_unwind) and ./check (diff, shrink)",
]

PROPS = {
    "C19": {
        "modules": ["Parsley.Props.C19"],
        "theorems": [
            "Parsley.C19.uint_parse_spec", "Parsley.C19.int_parse_spec", "Parsley.C19.bytevec_spec",
            "Parsley.C19.comb_no_overflow", "Parsley.C19.bin_never_panics", "Parsley.C19.pair_sat",
        ],
        "n": {"quick": 3000, "thorough": 400000},
        "exhaustive": {"quick": False, "thorough": True},
        "rule": "all 8-bit patterns; 16-bit patterns (stride 13 quick / all 65536 thorough) x {u16,i16} x {be,le}; every "
                "remaining-length 0..w+1 for every width/endian/signedness; boundary 32/64-bit patterns; random buffers "
                "<= 11 bytes x random cursor x random parser; non-trivial = multi-byte parser with >=2 bytes of buffer or a non-zero cursor",
        "trusted_base": COMMON_TB + [
            "modelled, not verified: ParseBuffer::peek/incr_cursor_unsafe/set_cursor_unsafe/extract as list indexing on a whole buffer (views: C17)"],
        "assumptions": ["the buffer is an unrestricted ParseBuffer (restricted views are covered by C17)"],
    },
}
