# Loads the per-property configuration modules checklib/props/Cxx.py.
# Each defines CFG (used by ./check) and LEVEL (used by mkmanifest.py):
#  CFG.modules   : Lean modules holding the property theorems (built on every run)
#  CFG.theorems  : the REQUIRED obligations (fully qualified); a missing one is a broken obligation
#  CFG.partial   : {theorem: what it leaves out} for theorems proving less than the statement
#  CFG.n         : random cases per tier (on top of corpus + exhaustive streams)
#  CFG.rule      : how cases are generated and what makes one non-trivial
#  CFG.gen       : Gen/*.lean files regenerated from /repo by `cXX extract <name>`
#  CFG.rustgen   : True if the harness bin has a native `gen`
import os, importlib.util
COMMON_TB = [
    "Lean 4.33.0 kernel (thorough tier: re-checked with leanchecker)",
    "axioms: at most propext, Classical.choice, Quot.sound (audited with #print axioms on every run)",
    "Lean compiler/runtime for the executable side of the model (driver parsley_model_<id>)",
    "correspondence harness /verif/harness (canonicalisation, catch_unwind) and ./check (diff, shrink)",
]
PROPS, LEVELS = {}, {}
_d = os.path.join(os.path.dirname(os.path.abspath(__file__)), "props")
for _f in sorted(os.listdir(_d)):
    if _f.endswith(".py") and _f[0] == "C":
        _s = importlib.util.spec_from_file_location(_f[:-3], os.path.join(_d, _f))
        _m = importlib.util.module_from_spec(_s)
        _m.COMMON_TB = COMMON_TB
        _s.loader.exec_module(_m)
        PROPS[_f[:-3]] = _m.CFG
        LEVELS[_f[:-3]] = _m.LEVEL
