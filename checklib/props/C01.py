CFG = {
    "modules": ["Parsley.Props.C01", "Parsley.Props.C04", "Parsley.Props.C12", "Parsley.Props.C06",
                "Parsley.Lemmas.PipelineSized", "Parsley.Lemmas.LoaderDefsInv"],
    "shrink": True,
    "repo_bins": ["pdf_printer"],
    "compare_words": 1,   # `completed` | `rejected` | `abnormal`: the end-to-end model (Model/Pipeline.lean) must agree with the real binary's exit status
    "rustgen": True,      # prefixes / mutations of the repository's sample PDFs as explicit `doc` lines (the Lean driver cannot read them)
    "theorems": ["Parsley.C01.pipeline_never_panics_sized", "Parsley.C01.pipeline_never_panics_small",
                 "Parsley.C01.pipeline_never_panics_small_k1", "Parsley.C01.pipeline_never_panics_small_k3",
                 "Parsley.C01.pipeline_reduces_to_loader", "Parsley.C01.pipeline_never_panics_partial",
                 "Parsley.C01.process_file_never_panics",
                 "Parsley.C01.extract_never_panics", "Parsley.C01.dump_root_terminates", "Parsley.C01.dump_root_depth_labels",
                 "Parsley.C01.depth_overflow_reachable_scaled", "Parsley.C01.shipped_check_total",
                 "Parsley.C01.pipeline_fuel_bound_partial", "Parsley.C01.pipeline_encrypted_hybrid_rejected",
                 "Parsley.C01.parseDataE_agrees", "Parsley.C01.pipeline_stages_never_panic_partial",
                 "Parsley.PipelineSized.parseData_no_panic_small", "Parsley.PipelineSized.objStmPass_ok'",
                 "Parsley.PipelineSized.objStmParse_np_rel", "Parsley.PipelineSized.decodeLoop_len",
                 "Parsley.PipelineSized.preserved_chains", "Parsley.PipelineSized.preserved_content",
                 "Parsley.PipelineSized.getXrefInfo_ok'", "Parsley.PipelineSized.decodeObjStream_len",
                 "Parsley.PipelineSized.collect_len",
                 "Parsley.LoaderDefsInv.parseIndirect_defs", "Parsley.LoaderDefsInv.getXrefInfo_inv",
                 "Parsley.LoaderDefsInv.firstPass_inv", "Parsley.LoaderDefsInv.secondPass_inv",
                 "Parsley.PipelineLemmas.bfsD_eq_bfs",
                 "Parsley.LoaderDecoders.applyFilter_no_panic", "Parsley.LoaderDecoders.applyFilter_len",
                 "Parsley.LoaderDecoders.size_clause_false",
                 "Parsley.C16.parse_never_panics", "Parsley.C16.depth_restored", "Parsley.C05.indirect_never_panics",
                 "Parsley.C13.table_never_panics", "Parsley.C13.dictinfo_never_panics", "Parsley.C13.parseStream_never_panics",
                 "Parsley.C13.rows_terminate", "Parsley.C07.predictor_never_panics", "Parsley.C07.filter_never_panics",
                 "Parsley.C14.objstm_never_panics", "Parsley.C11.dom_never_panics", "Parsley.C11.dom_terminates",
                 "Parsley.C11.resolve_fuel_sufficient", "Parsley.C09.machine_steps_le_fuel", "Parsley.C09.machine_fuel_independent",
                 "Parsley.C09.machine_terminates", "Parsley.C03.load_never_panics_partial", "Parsley.C04.prev_cycle_or_oob_rejected",
                 "Parsley.C12.extract_total_on_trees", "Parsley.C06.flate_glue_rejects"],
    "partial": {
        "Parsley.C01.pipeline_never_panics_sized":
            "FULL STATEMENT WANTED: for every byte string, Pipeline.run bs (the end-to-end model of pdf_printer: loader, dump_root, type check against "
            "the regenerated shipped catalog specification, page DOM, per-page decoding, text extraction, with the glue of src/bin/pdf_printer.rs) is "
            "`completed` or `rejected`. PROVED: exactly that for every file below 2^62 bytes under ONE hypothesis, DecodedSizes: decoding an input of MORE "
            "than 2^63/2064 bytes (2^61 for ASCII85, 2^64 for ASCIIHex) yields at most 2^63 bytes. The decoders' totality (the inflate model's own fuel, "
            "ASCII85, ASCIIHex, predictor) is no longer assumed (LoaderDecoders.applyFilter_no_panic), and the hypothesis is used in ONE place of the "
            "whole pipeline: the object-stream pass of the loader (decoded data becomes a buffer whose set_cursor address arithmetic must not overflow); "
            "everything after the loader is unconditional (process_file_never_panics). The size clause cannot be dropped for the list model "
            "(LoaderDecoders.size_clause_false: lists, unlike Rust buffers, can be longer than isize::MAX). NOT covered by any theorem: the machine stack "
            "actually consumed, zlib / jpeg-decoder / regex internals (DCTDecode is an opaque decoder that never succeeds in the model), allocation failure "
            "(incl. Vec capacity overflow above isize::MAX), wall-clock time, a closed stdout. Those are exercised only by running the real binary.",
        "Parsley.C01.pipeline_never_panics_small":
            "FULL STATEMENT WANTED: as above, for every byte string. PROVED WITHOUT ANY DECODER HYPOTHESIS for every file bs and every k with "
            "2064^k * |bs| <= 2^63 (k=1: 4.4e15 bytes, k=2: 2.1e12, k=3: 1.04e9, k=4: 5.0e5) in which no dictionary that the object parser can read at any "
            "offset and nesting depth names more than k filters (FilterArraysLE k; carried through the loader as an invariant of the definitions map, "
            "Lemmas/LoaderDefsInv.lean + Lemmas/PipelineSized.lean): a chain of n filters multiplies the length by at most 2064^n (applyFilter_len), so "
            "every decoded object stream is a Rust buffer. MISSING for the full statement: files that name longer chains or exceed the bound - a bound in "
            "|bs| alone exists only below ~72 bytes (n is limited by the number of 12-byte filter names in a dictionary, and intermediate results of a "
            "chain are not limited by the file), so the chain length has to appear in the statement. The hypothesis FilterArraysLE is a statement about "
            "the object grammar on the file (all offsets, all depths); no decidable sufficient condition for it is proved here.",
        "Parsley.C01.pipeline_never_panics_partial":
            "(kept) the statement of the first two rounds under C03's DecodersTotal; now a corollary of pipeline_never_panics_sized (only the size clause "
            "of the hypothesis is used)",
        "Parsley.C01.pipeline_fuel_bound_partial":
            "FULL STATEMENT WANTED: one closed-form step bound in |bs|. PROVED, closed forms where they exist: the loader's /Prev loop never exhausts its "
            "budget |s|+1 (and C04.chain_length_bounded); every stream object the loader's file-level passes define has a raw content of at most |s| bytes, "
            "one decode_stream yields at most 2064^(number of filters) times its input, and a page with m content streams of at most k filters gets a "
            "content buffer of at most m*(1+2064^k*|s|) bytes, of which the text extractor's two budgets (|buffer|+1, 2|buffer|+2; never exhausted) are "
            "linear functions. PROVED as budgets of the LOADED document: dump_root |objU|+1 dequeues; check_type workBound iterations (any larger fuel gives "
            "the same verdict and count); to_page_dom |defs|+1. EXACT DEPENDENCY of the rest: |defs|, |objU|, workBound and the number m of content streams "
            "depend on the number and size of the objects defined; |bs| bounds these only for objects parsed from the file itself - members of an object "
            "stream are parsed from decoded data of up to 2064^k*|bs| bytes, the entries of a cross-reference stream from decoded rows likewise - and no "
            "lemma 'a parsed object has at most as many nodes as bytes consumed' is proved, so even the file-level part of |objU| is not bounded here.",
        "Parsley.C01.dump_root_depth_labels":
            "dump_root AS WRITTEN in /repo before fix C01-01 labels queue entries with `depth: u32`, `depth + 1` being a debug-checked add that the main "
            "model (bfs) leaves out. PROVED: the labelled loop (bfsD 2^32) equals the modelled one whenever the traversal's universe has at most 2^32 "
            "distinct objects, because a label is always smaller than the number of processed objects; the site is reachable beyond that "
            "(depth_overflow_reachable_scaled: limit scaled to 3, chain of four references). So for the UNFIXED code the pipeline theorems additionally need "
            "|objU| <= 2^32; with pending_fixes/C01-01 (saturating_add) the site does not exist and bfs is the loop as written.",
        "Parsley.C01.pipeline_stages_never_panic_partial":
            "the stage theorems gathered into one obligation (object parser, indirect objects / stream framing, xref table, xref stream dictionary and rows, "
            "predictor reversal, object streams, page DOM, loader, type-check work loop) so that a stage model losing its no-panic theorem breaks C01 as well; "
            "superseded as the main claim by pipeline_never_panics_sized / _small"},
    "n": {"quick": 1200, "thorough": 20000},
    "exhaustive": {"quick": False, "thorough": False},
    "rule": "STRUCTURES RUNNING INTO THE END OF THE FILE WHILE STILL REACHABLE (follow-up to seed C01_11): a classic table / cross-reference stream / object stream that is the LAST thing in the file and is announced by a complete earlier startxref or by /Prev of a complete newer section, cut at every byte of its last entries (dense near the end, strided beyond) - termination, no panic, and the documented outcome for each cut; "
            "every case is a complete file (`doc <hex>`) run through (a) the REAL pdf_printer binary, built from /repo's working tree, in a subprocess "
            "(10 s limit, 4 GiB address space; outcome = exit status 0 completed / 1 rejected / anything else abnormal) and (b) the end-to-end Lean model "
            "Pipeline.run; the outcome words must agree, and the oracle accepts only completed/rejected. Generators: hand-built adversarial documents "
            "(self-referential objects used as /Kids, /Contents, /Resources, /Pages, /Length, /Root, /Font, /Filter; /Kids, /Contents and reference-chain "
            "loops: self, cycle, lasso, long, dangling, cyclic containers at 18 reference positions; corpus/C01/long_reference_chain.case: an acyclic chain of 300 references below the catalog (dump_root depth label 302); 15 /DecodeParms shapes with extreme /Predictor /Columns "
            "/Colors /BitsPerComponent singly and as parallel arrays; a /DecodeParms BOUNDARY SWEEP on every stream the pipeline itself decodes "
            "(corpus/C01/decodeparms_boundary.case + about 930 documents in quick, 19 000 in thorough): the page's content stream, the first stream of a "
            "/Contents array, the object stream holding catalog and page tree, or the cross-reference stream carries FlateDecode - alone, after "
            "ASCIIHexDecode, after ASCII85Decode (which then gets a parameter dictionary too) - with /Predictor in {absent, 0, 1, 2, 3, 9, 10..15, 16, -1, "
            "2^31, 2^32+1, 2^62, i64::MAX, i64::MIN, real, string, array, null, name} while the others are sane (spelled out and left to their defaults), "
            "then under a TIFF and a PNG predictor (thorough: 2 and 10..15) each of /Colors /Columns /BitsPerComponent in {absent, 0, 1, 2, 7, 8, 16, 17, "
            "-1, 2^31, 2^32+1, 2^62, i64::MAX, i64::MIN, non-integer objects}, then pairs of {0, -1, 17, i64::MAX} in two of the three entries and of a "
            "bad /Predictor with one bad entry; the data is the host's own payload (content operators, object-stream text, cross-reference rows) padded "
            "to whole rows and ENCODED by the spec-side predictor encoder for the nearest sane parameters (so the sane values complete with the text "
            "extracted through a really reversed predictor on all four hosts), in five shapes: empty, one byte, one byte short of a row, whole rows, whole "
            "rows plus one byte; every unusable value meets non-empty data on every host (hosts x chains fully crossed in thorough); "
            "LYING STRUCTURAL METADATA (corpus/C01/lying_metadata.case + about 650 documents in quick, 15 000 in thorough): complete one-page documents "
            "of three layouts - classic table; cross-reference stream + object stream holding catalog, page tree, font, descriptor and an unused last "
            "member; hybrid (classic table in four subsections + /XRefStm, compressed objects named only by the stream) - each also with an incremental "
            "update in the same style (/Prev), the stream layouts also with /W [1 4 4], an explicit /Index, and FlateDecode on both streams; in each "
            "document ONE number that describes the file's own structure lies, taking in turn {0, 1, exact-1, exact+1, exact+2, 2*exact, 2^31, 2^32+1, "
            "2^62, i64::MAX, -1, extent-1, extent, extent+1} (thorough adds exact+2^32, exact+2^64, -exact, 2^31-1, 2^32-1, 2^32, 2^63, 2^64-1, i64::MIN, "
            "2*extent ...; extent = file length for file offsets, length of the member data for object-stream offsets, /Size for object numbers, member "
            "count for indices, 4 for /W; binary row fields are truncated to their width) while every other number is exact for the bytes as written: "
            "object-stream header offsets and member numbers, /First, /N, the streams' /Length; cross-reference stream /Size, /W entries, /Index "
            "numbers, row type / field 2 / field 3 (offset and generation of a type-1 entry, object-stream number and index of a type-2 entry - one row "
            "and all rows together -, next-free of a type-0 entry); classic entry offsets, next-free, subsection start and count, trailer /Size; "
            "/XRefStm; startxref (of the last and of the superseded section); /Prev; stream /Length direct and through a reference defined after its "
            "stream; /Count and the object named by /Kids; plus TRUNCATIONS with everything else consistent: object-stream data cut at {0, 1, First-1, "
            "First, First+1, last offset-1, last offset, last offset+1, end-1}, cross-reference rows cut inside and after the first row. The builder "
            "records every field it consults, so thorough sweeps all of them in all 14 configurations; quick sweeps about 60 field instances; "
            "the /Filter x /DecodeParms SHAPE TABLE of StreamT::filters (C06 runs it on the function alone) on the same four streams the pipeline "
            "decodes itself - content stream alone and first in a /Contents array, object stream holding catalog and page tree, cross-reference "
            "stream - in complete documents (corpus/C01/filter_parms_shapes.case + 297 documents in quick, 5280 in thorough): /Filter in {absent, a "
            "name (Flate, ASCIIHex; thorough also ASCII85, unknown), array of 0 / 1 / 2 / 3 names, a non-name (7, null; thorough also string, "
            "dictionary, boolean, real, defined and dangling reference), arrays mixing a name with a non-name in both orders (thorough: nested array, "
            "null and reference elements, unknown filter before / after a known one, repeated filters)} x /DecodeParms in {absent, null, << >>, "
            "<< /Predictor 1 >>, << /Predictor 12 /Columns 4 >>, arrays of 0 / 1 / 2 / 3 (thorough 4) entries of null / dictionary / integer / "
            "reference (thorough: name, string, nested and empty arrays) with equal and non-matching lengths, scalars 7 /N, a reference (thorough "
            "string, boolean, real, dangling reference)}, the two keys in both orders; the data is the host's own payload REALLY ENCODED for the "
            "layers the /Filter entry names (stored-block zlib, hex, base-85, outermost first; PNG-Up rows by the spec-side predictor encoder where "
            "the shape hands the predictor dictionary to a FlateDecode layer), so the legal shapes complete on the object-stream and "
            "cross-reference hosts only through the real decoders. Quick: every pair once with the host rotating, plus single name / one-name "
            "array x {[], [null], [<< >>], [null null]} and three legal predictor chains on all four hosts; thorough: every pair on every host; "
            "Flate, ASCIIHex, ASCII85 and chained filters; 15 extreme numbers substituted into "
            "/Length, /N, /First, /W, /Index, /Prev, startxref; classic-table, xref-stream (+Flate), object-stream, incrementally-updated and encrypted "
            "layouts (corpus/C01/encrypted_hybrid.case: the complete one-page document as a hybrid file whose trailer declares /Encrypt - the code refuses the /XRefStm stream and exits (the oracle accepts completed or rejected; the model correspondence pins which), "
            "the control without the declaration completes); /Prev self, cycle and out-of-range; nesting 10..10^5 (thorough 10^6) levels in an object, in a content stream and inside a "
            "compatibility section); a content-stream family on a one-page document that reaches text extraction (about 170 hostile snippets: stray "
            "delimiters inside and outside BX..EX, nested/lone BX EX, unterminated strings/arrays/dictionaries, operators with missing or extra "
            "operands, BT/ET mismatches, unknown operators, inline images with binary data, numbers at the i64/i128 limits, names with #00, comments "
            "without end of line, empty and blank streams), each also doubled, put inside BX..EX and after BT across TWO content streams, and eight "
            "token sequences split over two content streams at every token boundary; multi-page trees (flat and with an inner node) mixing good pages, "
            "undecodable or unknown-filter content, ill-formed content, non-embedded fonts and content arrays; 15 font dictionaries; random number "
            "substitutions, truncations, byte edits, random content-token walks and snippet pairs on six base documents; natively generated: every "
            "prefix (quick: every 23rd) and random multi-edit mutations of the four sample PDFs of the repository; "
            "WORK-AMPLIFYING SHAPES in well-formed files (corpus/C01/work_amplifying_shapes.case + 63 documents in quick, about 1200 in thorough; emitted "
            "LAST, because the runner shortens its time limit after five timeouts): small type-correct documents (<= 10 KB in quick) in which the number of "
            "paths / mentions is exponential or quadratic in the file size, so that the code as it is (every traversal visits a distinct object once) "
            "answers in milliseconds while a traversal that works per mention or per path cannot finish within the 10 s limit and is reported as "
            "`abnormal timeout`: layered DAGs of `levels` layers of w objects in which every object names every object of the next layer m times, grouped "
            "(a a b b) or interleaved (a b a b) - w=1: ladders listing the same kid 2, 3 (thorough 4, 10) times on 24..60 (thorough ..100) consecutive levels; "
            "w=2: diamonds, 30 (thorough 20..80) layers, m = 1, 2, 3; w=3, 5, 8 (thorough 16, 30): kids shared between all siblings; 2..4 layers with m = 50..200 "
            "(thorough ..1500): the quadratic / cubic version; controls of 0..3 (thorough 0..8, fully crossed) levels - each built (a) as the PAGE TREE itself "
            "(/Pages nodes with /Parent, /Count, /Kids; 0, 1 or 2 leaf pages below the last layer sharing one content stream and one font; thorough also "
            "without /Parent) for the page-DOM work queue, the type checker and per-page decoding, and (b) from dictionaries (one key per mention), arrays, "
            "and directly nested containers, ending at a stream, hung below the page, the catalog, the content stream's dictionary or the root of the page "
            "tree, for dump_root and the type checker's reference handling; plus the linear members of the class: /Contents arrays repeating one stream "
            "2..200 (thorough 1000) times inline and through an array object, one font under 1..200 keys, /Resources through a chain of 1..100 references, "
            "1..50 (thorough 300) pages sharing all of these. Expected outcome = the model's own (Pipeline.run under its budgets |objU|+1, workBound, "
            "|defs|+1, which are per distinct object: the model runs each of these documents in under a second). Files above 1.5 MB with more than 50 "
            "consecutive nesting openers (the 10^6-deep cases of the thorough tier) are answered `rejected` by a labelled closed form instead of the "
            "byte-list model. non-trivial = document >= 64 bytes (distinct by case hash)",
    "trusted_base": COMMON_TB + [
        "the end-to-end model Model/Pipeline.lean is hand-written glue over the stage models (Loader, Filters/Inflate/Predictor, TypeCheck + the regenerated "
        "Gen/CatalogSpec, PageDom, Content); it is tied to the real binary by the correspondence run on every case (exit status vs model outcome)",
        "Gen/CatalogSpec.lean is regenerated by ./check C10, not by this check: a change of the shipped specification in /repo shows here as a correspondence break",
        "DCTDecode (jpeg-decoder) is an opaque decoder that never succeeds in the model; println!/log output is not modelled (the harness gives the binary /dev/null)",
        "the subprocess runner (ulimit -v, 10 s timeout, exit-status classification) in harness/src/bin/c01.rs",
        "labelled closed form for files above 1.5 MB that contain more than 50 consecutive nesting openers (Driver/C01.lean sizeCap): the model is not run on them"],
    "assumptions": ["exit status 0 = completed, 1 = located diagnostic (exit_log!); 101 = Rust panic (log_panics), signals = abort/stack overflow",
                    "DecodedSizes (the one hypothesis of pipeline_never_panics_sized): decoding an input of more than 2^63/2064 bytes yields at most 2^63 bytes; "
                    "pipeline_never_panics_small replaces it by a bound on the file size and on the number of filters a dictionary names",
                    "for /repo WITHOUT pending_fixes/C01-01: fewer than 2^32 distinct objects reachable from the root (dump_root's u32 depth label)"],
}
LEVEL = {
    "design_ref": "DESIGN.md 3.C01 and 8",
    "technique": "Lean 4 end-to-end model of pdf_printer (Pipeline.run) with a no-panic/termination theorem assembled from the stage theorems + "
                 "correspondence of the model's outcome with the real binary's exit status on adversarial documents",
    "text": "PARTIAL. Proved (machine-checked): the end-to-end model Pipeline.run - loader, dump_root traversal with decode_stream on every reachable "
            "stream, type check against the regenerated shipped catalog specification, page DOM, per-page decoding and text extraction, with the glue of "
            "src/bin/pdf_printer.rs - ends in `completed` or `rejected`, no modelled Rust partial operation (unwrap, assert!, index, overflow, "
            "unreachable!) and no loop fuel being reachable, (a) for every file below 2^62 bytes under ONE size hypothesis about decoder inputs of more "
            "than 2^63/2064 bytes (DecodedSizes; the decoders' totality is a theorem now), and (b) with NO decoder hypothesis for every file with "
            "2064^k*|file| <= 2^63 (k=1: 4.4e15 bytes, k=3: 1 GB) in which no dictionary the object parser can read names more than k filters. Everything "
            "after the loader (process_file) is unconditional for every loaded context; the text extractor's totality, dump_root's termination on cyclic "
            "graphs and the absence of the type checker's unreachable! sites on the shipped specification are proved at full strength. Budgets: explicit per "
            "loop, closed forms in |file| for the /Prev loop, stream contents, one decode_stream and one page's content buffer; the rest as functions of the "
            "loaded document with the exact dependency stated. The binary's glue was re-read line by line: the only unmodelled statement that can panic is "
            "dump_root's u32 `depth + 1` (needs 2^32 distinct objects; proved safe below that, fix C01-01 removes it); println! on a closed stdout and "
            "allocation limits are outside the model. Not proved: stack depth, external libraries, allocator, time; for these, and to tie the model to the "
            "code, the check runs the real pdf_printer binary on generated adversarial documents and on prefixes/mutations of the sample files, requires "
            "exit status 0 or 1, and requires the model to predict which of the two.",
}
