CFG = {
    "modules": ["Parsley.Props.C01", "Parsley.Props.C04", "Parsley.Props.C12", "Parsley.Props.C06"],
    "shrink": True,
    "repo_bins": ["pdf_printer"],
    "compare_words": 1,   # `completed` | `rejected` | `abnormal`: the end-to-end model (Model/Pipeline.lean) must agree with the real binary's exit status
    "rustgen": True,      # prefixes / mutations of the repository's sample PDFs as explicit `doc` lines (the Lean driver cannot read them)
    "theorems": ["Parsley.C01.pipeline_never_panics_partial", "Parsley.C01.process_file_never_panics",
                 "Parsley.C01.extract_never_panics", "Parsley.C01.dump_root_terminates", "Parsley.C01.shipped_check_total",
                 "Parsley.C01.pipeline_fuel_bound_partial", "Parsley.C01.parseDataE_agrees",
                 "Parsley.C01.pipeline_stages_never_panic_partial",
                 "Parsley.C16.parse_never_panics", "Parsley.C16.depth_restored", "Parsley.C05.indirect_never_panics",
                 "Parsley.C13.table_never_panics", "Parsley.C13.dictinfo_never_panics", "Parsley.C13.parseStream_never_panics",
                 "Parsley.C13.rows_terminate", "Parsley.C07.predictor_never_panics", "Parsley.C07.filter_never_panics",
                 "Parsley.C14.objstm_never_panics", "Parsley.C11.dom_never_panics", "Parsley.C11.dom_terminates",
                 "Parsley.C11.resolve_fuel_sufficient", "Parsley.C09.machine_steps_le_fuel", "Parsley.C09.machine_fuel_independent",
                 "Parsley.C09.machine_terminates", "Parsley.C03.load_never_panics_partial", "Parsley.C04.prev_cycle_or_oob_rejected",
                 "Parsley.C12.extract_total_on_trees", "Parsley.C06.flate_glue_rejects"],
    "partial": {
        "Parsley.C01.pipeline_never_panics_partial":
            "FULL STATEMENT WANTED: for every byte string, Pipeline.run bs (the end-to-end model of pdf_printer: loader, dump_root, type check against "
            "the regenerated shipped catalog specification, page DOM, per-page decoding, text extraction, with the glue of src/bin/pdf_printer.rs) is "
            "`completed` or `rejected`. PROVED: exactly that for every file below 2^62 bytes under ONE hypothesis inherited from C03's loader theorem "
            "and not discharged: DecodersTotal (the executable zlib inflate model of C06 never ends in its own fuel outcome, and no decoder returns "
            "more than 2^63 bytes). Every other panic site and every fuel is proved unreachable for all inputs: the loader (C03, with C16/C05/C13/C14/C07 "
            "inside), dump_root's breadth-first traversal on arbitrary (cyclic) graphs within |objU|+1 dequeues, the type-check machine on the shipped "
            "specification (C09 work bound; its two unreachable! sites: no node of the regenerated specification is a disjunction without alternatives), "
            "to_page_dom (C11), the decode_stream glue, and the text extractor for ALL inputs (extract_never_panics: extractor loop and nested object "
            "parser fuels suffice, no Rust partial operation fires). NOT covered by any theorem: the machine stack actually consumed, zlib / "
            "jpeg-decoder / regex internals (DCTDecode is an opaque decoder that never succeeds in the model), allocation failure, wall-clock time, a "
            "closed stdout. Those are exercised only by running the real binary.",
        "Parsley.C01.pipeline_fuel_bound_partial":
            "FULL STATEMENT WANTED: one closed-form step bound in |bs|. PROVED: explicit budgets per loop, each a function of the LOADED document "
            "(dump_root: |objU|+1 dequeues; check_type: workBound iterations, any larger fuel gives the same verdict and count; to_page_dom: |defs|+1; "
            "text extraction: |content|+1 loop iterations and 2|content|+2 for the nested object parser) and the /Prev chain bound of C04 in |bs|. "
            "Not a function of |bs| alone because an object stream may decode to more bytes than the file has.",
        "Parsley.C01.pipeline_stages_never_panic_partial":
            "the stage theorems gathered into one obligation (object parser, indirect objects / stream framing, xref table, xref stream dictionary and rows, "
            "predictor reversal, object streams, page DOM, loader, type-check work loop) so that a stage model losing its no-panic theorem breaks C01 as well; "
            "superseded as the main claim by pipeline_never_panics_partial"},
    "n": {"quick": 1200, "thorough": 20000},
    "exhaustive": {"quick": False, "thorough": False},
    "rule": "every case is a complete file (`doc <hex>`) run through (a) the REAL pdf_printer binary, built from /repo's working tree, in a subprocess "
            "(10 s limit, 4 GiB address space; outcome = exit status 0 completed / 1 rejected / anything else abnormal) and (b) the end-to-end Lean model "
            "Pipeline.run; the outcome words must agree, and the oracle accepts only completed/rejected. Generators: hand-built adversarial documents "
            "(self-referential objects used as /Kids, /Contents, /Resources, /Pages, /Length, /Root, /Font, /Filter; /Kids, /Contents and reference-chain "
            "loops: self, cycle, lasso, long, dangling, cyclic containers at 18 reference positions; 15 /DecodeParms shapes with extreme /Predictor /Columns "
            "/Colors /BitsPerComponent singly and as parallel arrays; Flate, ASCIIHex, ASCII85 and chained filters; 15 extreme numbers substituted into "
            "/Length, /N, /First, /W, /Index, /Prev, startxref; classic-table, xref-stream (+Flate), object-stream, incrementally-updated and encrypted "
            "layouts (corpus/C01/encrypted_hybrid.case: the complete one-page document as a hybrid file whose trailer declares /Encrypt - the code refuses the /XRefStm stream and exits (the oracle accepts completed or rejected; the model correspondence pins which), "
            "the control without the declaration completes); /Prev self, cycle and out-of-range; nesting 10..10^5 (thorough 10^6) levels in an object, in a content stream and inside a "
            "compatibility section); a content-stream family on a one-page document that reaches text extraction (about 170 hostile snippets: stray "
            "delimiters inside and outside BX..EX, nested/lone BX EX, unterminated strings/arrays/dictionaries, operators with missing or extra "
            "operands, BT/ET mismatches, unknown operators, inline images with binary data, numbers at the i64/i128 limits, names with #00, comments "
            "without end of line, empty and blank streams), each also doubled, put inside BX..EX and after BT across TWO content streams, and eight "
            "token sequences split over two content streams at every token boundary; multi-page trees (flat and with an inner node) mixing good pages, "
            "undecodable or unknown-filter content, ill-formed content, non-embedded fonts and content arrays; 15 font dictionaries; random number "
            "substitutions, truncations, byte edits, random content-token walks and snippet pairs on six base documents; natively generated: every "
            "prefix (quick: every 23rd) and random multi-edit mutations of the four sample PDFs of the repository. Files above 1.5 MB with more than 50 "
            "consecutive nesting openers (the 10^6-deep cases of the thorough tier) are answered `rejected` by a labelled closed form instead of the "
            "byte-list model. non-trivial = document >= 64 bytes (distinct by case hash)",
    "trusted_base": COMMON_TB + [
        "the end-to-end model Model/Pipeline.lean is hand-written glue over the stage models (Loader, Filters/Inflate/Predictor, TypeCheck + the regenerated "
        "Gen/CatalogSpec, PageDom, Content); it is tied to the real binary by the correspondence run on every case (exit status vs model outcome)",
        "Gen/CatalogSpec.lean is regenerated by ./check C10, not by this check: a change of the shipped specification in /repo shows here as a correspondence break",
        "DCTDecode (jpeg-decoder) is an opaque decoder that never succeeds in the model; println!/log output is not modelled (the harness gives the binary /dev/null)",
        "the subprocess runner (ulimit -v, 10 s timeout, exit-status classification) in harness/src/bin/c01.rs",
        "labelled closed form for files above 1.5 MB that contain more than 50 consecutive nesting openers (Driver/C01.lean sizeCap): the model is not run on them"],
    "assumptions": ["exit status 0 = completed, 1 = located diagnostic (exit_log!); 101 = Rust panic (log_panics), signals = abort/stack overflow",
                    "DecodersTotal (hypothesis of pipeline_never_panics_partial, inherited from C03): zlib inflate model never out of its own fuel, decoder outputs <= 2^63 bytes"],
}
LEVEL = {
    "design_ref": "DESIGN.md 3.C01 and 8",
    "technique": "Lean 4 end-to-end model of pdf_printer (Pipeline.run) with a no-panic/termination theorem assembled from the stage theorems + "
                 "correspondence of the model's outcome with the real binary's exit status on adversarial documents",
    "text": "PARTIAL. Proved (machine-checked): for every file below 2^62 bytes the end-to-end model Pipeline.run - loader, dump_root traversal with "
            "decode_stream on every reachable stream, type check against the regenerated shipped catalog specification, page DOM, per-page decoding and "
            "text extraction, with the glue of src/bin/pdf_printer.rs - ends in `completed` or `rejected`: no modelled Rust partial operation (unwrap, "
            "assert!, index, overflow, unreachable!) and no loop fuel is reachable, with explicit budgets per loop; one hypothesis (DecodersTotal: the "
            "zlib inflate model's own fuel, decoder output sizes) is inherited from the loader theorem and not discharged. The text extractor's totality, "
            "dump_root's termination on cyclic graphs and the absence of the type checker's unreachable! sites on the shipped specification are proved at "
            "full strength for all inputs. Not proved: stack depth, external libraries, allocator, time; for these, and to tie the model to the code, the "
            "check runs the real pdf_printer binary on generated adversarial documents and on prefixes/mutations of the sample files, requires exit "
            "status 0 or 1, and requires the model to predict which of the two.",
}
