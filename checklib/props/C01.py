CFG = {
    "modules": ["Parsley.Props.C01", "Parsley.Props.C04", "Parsley.Props.C12", "Parsley.Props.C06"],
    "shrink": True,
    "repo_bins": ["pdf_printer"],
    "compare_words": 1,   # `completed` | `rejected` | `abnormal`: the end-to-end model (Model/Pipeline.lean) must agree with the real binary's exit status
    "rustgen": True,      # prefixes / mutations of the repository's sample PDFs as explicit `doc` lines (the Lean driver cannot read them)
    "theorems": ["Parsley.C01.pipeline_stages_never_panic_partial",
                 "Parsley.C16.parse_never_panics", "Parsley.C16.depth_restored", "Parsley.C05.indirect_never_panics",
                 "Parsley.C13.table_never_panics", "Parsley.C13.dictinfo_never_panics", "Parsley.C13.parseStream_never_panics",
                 "Parsley.C13.rows_terminate", "Parsley.C07.predictor_never_panics", "Parsley.C07.filter_never_panics",
                 "Parsley.C14.objstm_never_panics", "Parsley.C11.dom_never_panics", "Parsley.C11.dom_terminates",
                 "Parsley.C11.resolve_fuel_sufficient", "Parsley.C09.machine_steps_le_fuel", "Parsley.C09.machine_fuel_independent",
                 "Parsley.C09.machine_terminates", "Parsley.C03.load_never_panics_partial", "Parsley.C04.prev_cycle_or_oob_rejected",
                 "Parsley.C12.extract_total_on_trees", "Parsley.C06.flate_glue_rejects"],
    "partial": {"Parsley.C01.pipeline_stages_never_panic_partial":
                "stage-by-stage: object parser, indirect objects / stream framing, xref table, xref stream dictionary and rows, predictor reversal "
                "object streams, page DOM construction (terminates within |defs|+1 iterations), the whole loader parse_data composed from the stage models (no panic for every file < 2^62 bytes, conditional on the decoders being total: DecodersTotal), the /Prev chain bound, the type-check work loop (terminates within the explicit workBound); the type-check loop's fuel-independence/step theorems (C09) and the filter glue (C06) and text-extraction loop (C12) theorems are audited under their own properties. NOT covered by any theorem: the composition glue of "
                "pdf_traverse_xref.rs and src/bin/pdf_printer.rs between the stages, the machine stack actually consumed, zlib/jpeg-decoder/regex internals, "
                "allocation failure, wall-clock time. Those are exercised only by running the real binary (below)."},
    "n": {"quick": 1200, "thorough": 60000},
    "exhaustive": {"quick": False, "thorough": False},
    "rule": "the REAL pdf_printer binary, built from /repo's working tree, is run in a subprocess (20 s limit, 4 GiB address space) on: hand-built adversarial "
            "documents (self-referential objects used as /Kids, /Contents, /Resources, /Pages, /Length, /Root, /Font, /Filter; /Kids and /Contents and reference-chain "
            "loops; 15 /DecodeParms shapes with extreme /Predictor /Columns /Colors /BitsPerComponent singly and as parallel arrays; Flate, ASCIIHex, ASCII85 and chained "
            "filters; 15 extreme numbers substituted into /Length, /N, /First, /W, /Index, /Prev, startxref; classic-table, xref-stream (+Flate), object-stream and "
            "incrementally-updated layouts; /Prev self, cycle and out-of-range; nesting 10..10^5 (thorough 10^6) levels in an object and in a content stream); every "
            "prefix (quick: every 23rd) of the four sample PDFs of the repository; random number substitutions, truncations and byte edits of five base documents; "
            "random multi-edit mutations of the sample PDFs. Oracle: exit status 0 or 1. non-trivial = document >= 64 bytes or a sample mutation (distinct by case hash)",
    "trusted_base": COMMON_TB + [
        "the pipeline as a whole is NOT modelled: the executable 'model' of this check is the statement itself (terminates normally); per-stage models belong to C02/C05/C06/C07/C09/C11/C12/C13/C14",
        "the subprocess runner (ulimit -v, 20 s timeout, exit-status classification) in harness/src/bin/c01.rs"],
    "assumptions": ["exit status 0 = completed, 1 = located diagnostic (exit_log!); 101 = Rust panic (log_panics), signals = abort/stack overflow"],
}
LEVEL = {
    "design_ref": "DESIGN.md 3.C01 and 8",
    "technique": "Lean 4 no-panic/termination theorems per pipeline stage (gathered into one obligation) + adversarial-document runs of the real binary",
    "text": "PARTIAL. Proved (machine-checked, all inputs): every modelled stage of the pipeline - object parser with its depth context, indirect objects and stream "
            "framing, classic xref sections, xref-stream dictionary/rows, predictor reversal - ends in a value or an error and never reaches a panic site, with explicit "
            "loop-fuel bounds; these theorems are re-checked here so that losing one breaks C01. Not proved: the glue between stages, stack depth, external "
            "libraries, allocator, time; for these the check runs the real pdf_printer binary on generated adversarial documents and on prefixes/mutations of the "
            "sample files and requires exit status 0 or 1.",
}
