CFG = {
    "modules": ["Parsley.Props.C02", "Parsley.Props.C16"],
    "theorems": ["Parsley.C02.name_window_decoder_eq", "Parsley.C02.name_spelling_decodes", "Parsley.C02.name_roundtrip", "Parsley.C02.integer_spec", "Parsley.C02.integer_roundtrip",
                 "Parsley.C02.hexstring_spec", "Parsley.C02.litstring_roundtrip", "Parsley.C02.litLoop_balanced",
                 "Parsley.C02.real_spec", "Parsley.C02.ws_loop_eq_skip", "Parsley.C02.skipWs_run", "Parsley.C02.wsRun_run",
                 "Parsley.C02.parseObj_token", "Parsley.C02.spell_parse_name", "Parsley.C02.spell_parse_litstring",
                 "Parsley.C02.spell_parse_hexstring", "Parsley.C02.spell_parse_keyword", "Parsley.Shift.parseObj_pre",
                 "Parsley.C02.spell_parse_int", "Parsley.C02.spell_parse_real", "Parsley.C02.spell_parse_ref",
                 "Parsley.C02.numberOrRef_after_int", "Parsley.C02.reference_spec",
                 "Parsley.C16.parse_never_panics", "Parsley.C16.obj_loc"],
    "partial": {"(spell_parse)": "END-TO-END through parse_pdf_obj (any leading whitespace/comment run, any context, any depth below the bound) for names, literal strings, hexadecimal strings, true/false/null, reals, references (any non-empty whitespace runs) and integers followed by a delimiter or the end of the buffer: proved (spell_parse_*); the number branch of the dispatcher is characterised exactly (numberOrRef_after_int: integer unless the look-ahead `ws+ int ws+ R<non-regular>` succeeds). NOT proved yet: integers followed by whitespace inside arrays/dictionaries (needs the look-ahead analysis of the following token) and the structural induction over arrays and dictionaries. Also proved: the whitespace/comment loop equals a byte-wise skipper on every input, and prefix independence of the whole object parser (parseObj_pre). Original note: the composite theorem `parseObj (spell v ch ++ ctx) = v` for all values/choices/contexts is not proved yet; "
                "proved so far: integers (IntegerP on every sign/digit string/context, and every encoder spelling incl. leading zeros), hexadecimal strings (every digit/whitespace body, odd-digit padding, any context), literal strings (every balanced-modulo-escapes body, any context) and the name token at full strength (windowed decoder = declarative #hh decoder; every raw/#hh spelling with any hex case decodes to the name; "
                "whole-token round trip in any terminator context), plus cursor=end/no-panic for every input (C16). Numbers, strings, references, arrays and "
                "dictionaries are decided by the spelling-generator correspondence (oracle = the value that was spelled)."},
    "n": {"quick": 4000, "thorough": 150000},
    "exhaustive": {"quick": False, "thorough": False},
    "rule": "random values (depth <= 4; boundary integers, reals, names/strings over delimiters, escapes and high bytes, references, arrays, "
            "dictionaries) x random encoder choices (whitespace/comment runs, #hh vs raw and hex case, literal vs hex strings, hex whitespace, "
            "odd-digit shorthand, signs, leading zeros, entry order, null-valued entries) x 15 following contexts x depth slack 0..2; one "
            "single-byte mutation/truncation and one duplicate-key spelling per value. non-trivial = spelling of >= 4 bytes (distinct by case hash)",
    "trusted_base": COMMON_TB + ["modelled, not verified: ParseBuffer primitives as list functions; the spec-side encoder `spell` defines what a legal spelling is"],
    "assumptions": ["integers range over -(2^63-1)..2^63-1 (i64::MIN has no accepted spelling); reals are (numerator, 10^k) with k >= 1, unnormalised, as the parser represents them",
                    "string values are the raw bodies (the parser does not unescape)"],
}
LEVEL = {
    "design_ref": "DESIGN.md 3.C02/C16",
    "technique": "Lean 4 token round-trip theorems over an executable model + spelling-generator differential correspondence",
    "text": "Machine-checked proof that the name decoder (the windows(3) loop as written) equals the declarative #hh decoder on every span and that every "
            "raw/#hh spelling of every null-free byte string, in any hex case, followed by any terminator context, parses to exactly that name with the cursor "
            "after its last byte; for the other token kinds and the composite objects the property is decided on the real code by an oracle that knows the value "
            "that was spelled (random values x random encoder choices x contexts), with the executable model tied to the parser by the same run.",
}
