CFG = {
    "modules": ["Parsley.Props.C02"],
    "theorems": [],
    "n": {"quick": 4000, "thorough": 150000},
    "exhaustive": {"quick": False, "thorough": False},
    "rule": "random values (depth <= 4; boundary integers, reals, names/strings over delimiters, escapes and high bytes, references, arrays, "
            "dictionaries) x random encoder choices (whitespace/comment runs, #hh vs raw and hex case, literal vs hex strings, hex whitespace, "
            "odd-digit shorthand, signs, leading zeros, entry order, null-valued entries) x 15 following contexts x depth slack 0..2; one "
            "single-byte mutation/truncation and one duplicate-key spelling per value. non-trivial = spelling of >= 4 bytes (distinct by case hash)",
    "trusted_base": COMMON_TB + ["modelled, not verified: ParseBuffer primitives as list functions; the spec-side encoder `spell` defines what a legal spelling is"],
    "assumptions": ["integers range over -(2^63-1)..2^63-1 (i64::MIN has no accepted spelling); reals are (numerator, 10^k) with k >= 1, unnormalised, as the parser represents them",
                    "string values are the raw bodies (the parser does not unescape)"],
}
LEVEL = {
    "design_ref": "DESIGN.md 3.C02/C16",
    "technique": "Lean 4 token round-trip theorems over an executable model + spelling-generator differential correspondence",
    "text": "placeholder",
}
