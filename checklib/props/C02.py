CFG = {
    "modules": ["Parsley.Props.C02", "Parsley.Props.C16", "Parsley.Props.C02Struct", "Parsley.Lemmas.SpellEncoder", "Parsley.Props.C02Encoder", "Parsley.Props.C02Wide", "Parsley.Props.C02Dec", "Parsley.Props.C02Hash", "Parsley.Props.C02Sign"],
    "theorems": ["Parsley.C02.name_window_decoder_eq", "Parsley.C02.name_spelling_decodes", "Parsley.C02.name_roundtrip", "Parsley.C02.integer_spec", "Parsley.C02.integer_roundtrip",
                 "Parsley.C02.hexstring_spec", "Parsley.C02.litstring_roundtrip", "Parsley.C02.litLoop_balanced",
                 "Parsley.C02.real_spec", "Parsley.C02.ws_loop_eq_skip", "Parsley.C02.skipWs_run", "Parsley.C02.wsRun_run",
                 "Parsley.C02.parseObj_token", "Parsley.C02.spell_parse_name", "Parsley.C02.spell_parse_litstring",
                 "Parsley.C02.spell_parse_hexstring", "Parsley.C02.spell_parse_keyword", "Parsley.Shift.parseObj_pre",
                 "Parsley.C02.spell_parse_int", "Parsley.C02.spell_parse_real", "Parsley.C02.spell_parse_ref",
                 "Parsley.C02.numberOrRef_after_int", "Parsley.C02.reference_spec",
                 "Parsley.C16.parse_never_panics", "Parsley.C16.obj_loc",
                 "Parsley.C02.spell_parse", "Parsley.C02.spell_parse_at", "Parsley.C02.parseInternal_spells",
                 "Parsley.C02.lookAhead_iff_refTail", "Parsley.C02.follows_iff_ctxOK", "Parsley.C02.follows_in_array",
                 "Parsley.C02.follows_in_dict", "Parsley.C02.lookAhead_elems", "Parsley.C02.lookAhead_sep_tok",
                 "Parsley.C02.within_bound_accepted", "Parsley.C02.dict_no_null_values",
                 "Parsley.C02.dict_duplicate_rejected", "Parsley.C02.Spells.depth_le",
                 "Parsley.C02.spell_is_Spells", "Parsley.C02.spellElems_is_Spells", "Parsley.C02.spellEntries_is_Spells",
                 "Parsley.C02.spell_parse_encoder", "Parsley.C02.spell_parse_encoder_canon", "Parsley.C02.spell_parse_encoder_at",
                 "Parsley.C02.encoder_within_bound_accepted", "Parsley.C02.encoder_depth_le", "Parsley.C02.canon_sorted",
                 "Parsley.C02.Spells.mono", "Parsley.C02.Spells.starts_regular", "Parsley.C02.Spells.ends_regular",
                 "Parsley.C02.sepFor_run", "Parsley.C02.follows_canon", "Parsley.C02.genContexts_follow",
                 "Parsley.C02.generator_case_parses", "Parsley.C02.dup_key_witness", "Parsley.C02.nulKey_not_last_witness",
                 "Parsley.C02.null_value_witness", "Parsley.C02.ref_range_witness",
                 # number tokens of any size: the dispatcher computes the spec NumLit.denote
                 "Parsley.C02.number_token_denotes", "Parsley.C02.spell_parse_wide", "Parsley.C02.numberOrRef_wide",
                 "Parsley.C02.numberOrRef_overflow", "Parsley.C02.parseInternal_int_range", "Parsley.C02.denote_wide_not_int",
                 # number tokens WITH a decimal point of any size: the dispatcher computes the spec DecLit.denote (all overflow exits of RealP's fraction loop)
                 "Parsley.C02.decimal_token_denotes", "Parsley.C02.spell_parse_decimal", "Parsley.C02.realP_dec_overflow",
                 "Parsley.C02.numberOrRef_dec_overflow", "Parsley.C02.accFrac_overflow", "Parsley.C02.parseInternal_trailing_dot",
                 # name tokens with raw `#` (a `#` not followed by two hex digits is a literal byte): the model's windows(3) loop computes the spec Spec/NameLit.lean nameDenote
                 "Parsley.C02.name_model_eq_nameDenote", "Parsley.C02.name_raw_hash_parse", "Parsley.C02.name_null_code_rejected",
                 "Parsley.C02.nameDenote_hash_literal", "Parsley.C02.nameDenote_hash_code",
                 # C02_12: explicit signs on the two numbers of a reference (Props/C02Sign.lean): `<sign>n ws+ <sign>g ws+ R` - sign none / `+` on any value in range,
                 # `-` before a digit string denoting 0, any zero padding, any non-empty whitespace/comment runs, end of buffer or a non-regular byte behind the `R` -
                 # parses to Reference(n, g) with the cursor immediately after the `R` (generalises reference_spec / spell_parse_ref; Spells.ref itself is not extended)
                 "Parsley.C02.signed_reference_spec", "Parsley.C02.spell_parse_signed_ref", "Parsley.C02.int_at_signed"],
    "partial": {
                "(depth)": "the depth hypothesis of spell_parse is on the SPELLING depth d (index of `Spells`), not on depth(v): a dropped null-valued "
                "entry still needs one nesting level (`<</A null>>` has value depth 1 but is rejected at cur+1 = max by the real parser and the model); "
                "Spells.depth_le proves depth v <= d."},
    "n": {"quick": 4000, "thorough": 150000},
    "exhaustive": {"quick": False, "thorough": False},
    "rule": "corpus (26 hand-built number tokens); point-free number tokens of any size (oracle Spec/NumLit.lean: Integer inside -2^63..2^63-1, the real value/1 up to +-(2^127-1), not an object beyond; "
            "never an Integer of the reduced value): 72 literals k*2^64+t and -(k*2^64-t) (k in 1,2,3,2^31,2^62,2^63-1; t in 0,1,-1,5,42,-17) + 34 boundary literals (+-2^31, +-(2^63-1), +-2^63, +-(2^63+1), +-(2^64-1), +-2^64, "
            "+-10^19, +-10^30, +-(2^127-1), +-2^127, +-(2^128+-5), +-10^39), with `-`/`+`/no sign, 0-2 leading zeros, 4 leading whitespace runs, each bare before the generator's following contexts "
            "(quick: 4 of 15 + ` 2 R` + ` 0 R`; thorough: all), as array element, single array element, dictionary value, array inside a dictionary, and - outside i64 - as object number (`<tok> 0 R` in an "
            "array / dictionary: rejected) and generation (`5 <tok> R`: the Integer 5; in an array: rejected) of a would-be reference; "
            "number tokens WITH a decimal point of any size (oracle Spec/DecLit.lean: the Real (all digits, 10^k) while numerator and 10^k fit an i128, `12.` = the point-free token, "
            "not an object beyond; parser side decimal_token_denotes): 20 digit strings around 2^127-1 (last digit decides, one digit more / fewer, 10^37..10^39, 2^128+5, i64 boundaries) split "
            "into integer and fraction part at 6 places (thorough: every place), fractions of 1/18/36..40 zeros (+ `1`, `99`) after numerators ``, 0, 7, 17, and 5 ordinary tokens; signs, leading "
            "zeros, leads, following contexts and array / dictionary / would-be-reference positions as for the point-free tokens; corpus decimal_literals.case (21 hand-built); "
            "ZERO PADDING (`pad` cases, corpus zero_padding.case 44 hand-built; leading zeros never change what a digit string denotes - Spells.int/.real/.ref: ANY non-empty digit string whose VALUE fits): "
            "0..45 leading zeros (every count: the digit run crosses 19|20 = length of i64::MAX and 38|39 = length of i128::MAX whatever the value's own length) in front of EVERY integer position: "
            "object number, generation, and both numbers of a reference (6 bases incl. 0 0, 1 65535, i64::MAX i64::MAX; 8 whitespace/comment separators); a signed integer (10 magnitudes 0..2^127, sign -/+/none); "
            "the integer part of a signed real (9 tokens incl. empty integer part, `12.`, 39-digit numerators, 38/39 fraction zeros) - each bare before the generator's following contexts (quick 4 of 15 rotating, thorough all) "
            "and as array element / single element / twice in an array / dictionary value (last, not last) / array in a dictionary / dictionary in an array (quick: a third of the bases and one sign per padding, rotating; thorough: all); "
            "VALUE sweep of references: object numbers 10^k-1 and 10^k for k = 1..20, 65535/65536, 2^31, 2^32(+-), 2^53, 2^63-2, 2^63-1 | 2^63.., 2^64(+-), 2^127(-1), 10^39 x generations 0, 1, 9, 10, 255, 256, 65534..65537, 99999, 100000, "
            "2^31(-1), 2^32(-1,+5), 10^18, 2^63-1 | 2^63, 2^64(+5), 2^127(-1), 10^39 (quick: 2 generations per object number + every generation with 12 and i64::MAX; thorough: full cross), each as written and with the object number, "
            "the generation, and both padded to exactly 19/20/38/39/40 digits, in all the positions above; oracle `refDenote` (Driver/C02.lean, spec side: the reference (value, value) iff both values <= i64::MAX; otherwise at the top level "
            "the first token alone by NumLit.denote, inside an array / dictionary not an object); and every random value that contains a number once more, spelled by `padSpell` (the encoder's freedoms + 0..45 zeros per integer position at any depth). "
            "SIGNED COMPONENTS OF A REFERENCE (`sgn` / `nosgn` cases, corpus signed_reference.case 32 hand-built): object number and generation are integers of the lexical rules, so each may carry an explicit `+` "
            "(also before leading zeros) and `-0` is 0: 7 bases (7 0, 12 3, 0 0, 629 1, 1 65535, i64::MAX 0, 5 i64::MAX) x sign of the object number (none, `+`, `-`) x sign of the generation x zero padding behind the sign "
            "(5 patterns incl. 19 zeros; quick 2 per combination, rotating) x 8 whitespace / comment separators x 4 leads, each bare before the generator's following contexts (quick 4 of 15 rotating, thorough all) and in 9 positions "
            "(single array element, between elements, behind / before another reference, behind a string, dictionary value last / not last, array in a dictionary, dictionary in an array); a `-` before a non-zero number: not an object (`nosgn`). "
            "Near misses that are no references (14 shapes: `7 + R`, `7 +R`, `7 + 0 R`, `7 0 +R`, `7 +0R x`, `7 +0 Rx`, `7 +-0 R`, `7 ++0 R`, `7 -+0 R`, `7 +0 +R`, `7 +0 r`, `7 - 0 R`, `7 +0 R+`, LF-separated lone `+`) after 5 bases x 3 signs of the first number: "
            "at the top level the first number alone with the cursor behind it, in the 9 positions not an object. Expectation: the judge's OWN reading of the case text (Driver/C02.lean sgnShape / sgnDenote / sgnMember: optional sign, digits, ws+, optional sign, digits, ws+, `R`, "
            "end or non-regular byte; shares nothing with the model; consistent with Spells.int and with RefTail of Props/C02Struct.lean, whose generation already carries the optional sign - `Spells.ref` itself is NOT extended, so spell_parse does not cover the signed spellings); "
            "the judge recognises a case text as a member of the family, so shrunk replays stay inside it; classes wrong-value-or-cursor / legal-spelling-rejected / non-reference-accepted. Also every reference written by `padSpell` (random values, any depth) now carries a `+` before "
            "the object number / the generation one time in three each. Per tier: quick 2491 ordinary cases (1211 sgn + 1280 nosgn), thorough 9660 (7560 sweep + 2100 near misses); as many view twins (a third of the `sgn` twins end the window with the spelling). "
            "RAW `#` IN NAMES (`hash` / `nohash` cases, corpus raw_hash.case 90 hand-built): in a name token `#` followed by two hexadecimal digits is a code for one byte (00 not allowed); a `#` NOT followed by two hexadecimal digits "
            "is accepted by Parsley as the literal byte `#` and is included as a spelling (oracle Spec/NameLit.lean nameDenote: left to right, own digit table, independent of the model; parser side name_model_eq_nameDenote / name_raw_hash_parse; "
            "the encoder `spell` always writes `#23`, so the random spellings below never contain a raw `#`). Tokens: EVERY sequence of 1..4 (thorough 1..6) symbols over {A, #, 4, 1, G, `#41`} that contains a `#` - so a raw `#` stands at every "
            "position where it cannot start a code (last byte, second-to-last byte before a hex digit or another byte, before one hex + one non-hex byte, `##`, directly before each delimiter) before and behind real codes - "
            "and every sequence of 1..3 (thorough 1..5) symbols over {A, #, 0, `#00`, `#41`} (null code: `/#00#`-like tokens must be rejected); quick also 300 random sequences of 5..6 symbols, and per 16 random values one random token of 1..8 symbols "
            "over 27 symbols (hex digits of either case, non-hex letters, a high byte, codes `#4a` `#4A` `#7e` `#23` `#2F` `#20` `#00` `#FF` `#0a`, near-codes `#4G` `#g1`, `##`). Each token: bare after 4 leads before the following contexts "
            "(the generator's 15 + `)` `>` `{` `}` TAB FF `/` `%`; quick 6 of 23 rotating, thorough all for <= 5 symbols), as array element (3 texts), dictionary key (4 texts incl. a second key), dictionary value, key and value, nested, "
            "and next to a second spelling of the same name (every byte as a code; every byte raw): both in one array (that name twice), as two keys of one dictionary in both orders and nested (must be rejected: `<</#41B# 1/AB# 2>>`). "
            "The judge recognises the text of a case as a member of the family (hashTexts) and derives the expectation from the spec side alone; classes wrong-value-or-cursor / null-code-in-name-accepted / duplicate-key-accepted. "
            "Per tier: quick 37334 ordinary cases (28102 hash + 9232 nohash), thorough 1059156 (824377 hash + 234779 nohash); as many view twins. "
            "random values (depth <= 4; boundary integers, reals, names/strings over delimiters, escapes and high bytes, references, arrays, "
            "dictionaries) x random encoder choices (whitespace/comment runs, #hh vs raw and hex case, literal vs hex strings, hex whitespace, "
            "odd-digit shorthand, signs, leading zeros, entry order, null-valued entries) x 15 following contexts x depth slack 0..2; one "
            "single-byte mutation/truncation and one duplicate-key spelling per value. "
            "VIEW TWINS (Driver/Views.lean, corpus views.case): EVERY case above runs a second time as `vw <steps> <pre> <suf> <case>` - the case's bytes are a window strictly inside ONE larger allocation pre ++ window ++ suf, "
            "selected by a chain of RestrictView / RestrictViewFrom steps (the harness checks that the view shows exactly the window), and parse_pdf_obj runs on that view; bytes in front of the window cycled over 1, 7, 11, 2, 0, 13, 1000, 64, 5, 3 of them (header-like text with complete objects, or random bytes; period 16) x chain of restrictions (RestrictView; RestrictViewFrom; From then View; View then View with junk on both sides of the inner window; View then From; a View from 0 then From; three deep; period 7) x what lies behind the window (period 5). "
            "The unchanged code reports start, end and cursor as cursors of the view it was given, so the expected output is literally that of the plain case; model and oracle are computed from the window's bytes alone "
            "(model of a view = model of its window: Parsley.C17.view_refines_copy); classes of rejected view cases carry the prefix `view-`. What lies behind the window continues the text: behind a truncated spelling the rest of it, "
            "otherwise more digits, ` 0 R` / ` 2 R`, `.5`, regular characters, `#41`, closing delimiters; one `sp`/`lit` twin in three has its window END WITH THE SPELLING (the case's following context, then the continuation, lie behind it: "
            "the end of the view is the delimiter, e.g. `12` | ` 0 R`). CUT family (view only): 10 fixed + 40 (thorough 400) random legal spellings cut at EVERY byte, the rest and a following context behind the window: whatever is accepted must lie "
            "inside the window, and a string / array / dictionary without its closing delimiter must be rejected (`cut-accepted`). Per tier: quick 69491 ordinary (19895 of them zero-padding / reference-value cases: 18210 swept + 1685 random; 37334 raw-# name cases) + 69491 view twins + 1210 cuts, thorough 1623214 (224946: 161768 + 63178; 1059156 raw-# name cases) + 1623214 + 9034. "
            "non-trivial = spelling of >= 4 bytes (distinct by case hash; a view case counts when there are bytes in front of or behind the window)",
    "trusted_base": COMMON_TB + ["modelled, not verified: ParseBuffer primitives as list functions; the relational spec `Spells` defines what a legal spelling is (the encoder `spell` used as generator is proved to produce legal spellings on its whole domain `wfDeep`; every generated value is checked to lie in `wfDeep` at generation time and at build time)"],
    "assumptions": ["integers of the value type handed to the encoder range over -(2^63-1)..2^63-1 (IntegerP has no spelling for i64::MIN; through parse_pdf_obj `-9223372036854775808` does parse, as the Integer i64::MIN, "
                    "by the real-number path: parseInternal_int_range / number_token_denotes and the `lit` cases); a point-free token outside the i64 range is the real value/1 (spell_parse_wide), beyond i128 not an object; a token with a point whose digits (point removed) exceed 2^127-1 or with 39+ fraction digits is not an object, `12.` is the Integer 12 and a lone `.` is read as 0 (decimal_token_denotes; the generator writes at least one digit); reals are (numerator, 10^k) with k >= 1, unnormalised, as the parser represents them",
                    "string values are the raw bodies (the parser does not unescape)",
                    "names: a `#` that is NOT followed by two hexadecimal digits is accepted by Parsley as the literal byte `#` (ISO 32000 asks writers to spell it `#23`); the spec Spec/NameLit.lean nameDenote includes such tokens as spellings "
                    "(name_raw_hash_parse, `hash` cases); the relational spec `Spells` / the encoder keep to `#23`, so spell_parse and dict_duplicate_rejected do not speak about raw-`#` key spellings (covered by the `hash` / `nohash` cases only)",
                    "domain of the encoder theorems (spell_is_Spells, spell_parse_encoder*): the decidable predicate `wfDeep` of Spec/SpellingWF.lean. It excludes exactly: "
                    "integers outside +-(2^63-1); reals with numerator >= 2^120 or a denominator that is not 10^k (1<=k<30); NUL bytes in names/keys; comments and streams; "
                    "object numbers above i64::MAX (ref_range_witness: `wf` allowed them, the parser reads 2^63 as a real); null dictionary values (null_value_witness: the "
                    "entry is dropped); repeated keys (dup_key_witness: rejected); the key `\\x01nul` anywhere but in the LAST written position (nulKey_not_last_witness: the "
                    "encoder's extra `/#01nul null` entry would repeat a key with a non-null value). Dictionaries may be written in any entry order: the result is `canon v` "
                    "(sorted maps), = v when `sortedDeep v` (canon_sorted). The former partial lemma spell_is_Spells_partial (scalars/references) is now only a lemma of spell_is_Spells."],
}
LEVEL = {
    "design_ref": "DESIGN.md 3.C02/C16",
    "technique": "Lean 4 theorems `spell_parse` (all values x all legal spellings x all contexts x all depths) and `spell_parse_encoder` (the same on the executable encoder: all values in `wfDeep` x all choice streams) over an executable model + spelling-generator differential correspondence",
    "text": "Machine-checked proof of the whole statement on the executable model (spell_parse): for every value, every legal spelling of it "
            "(relational spec `Spells`: all token spellings, all whitespace/comment separators - non-empty exactly between regular characters -, "
            "arrays and dictionaries nested to any depth, null-valued entries dropped, repeated non-null keys excluded), after any whitespace/comment "
            "run, before any context satisfying the declarative condition `Follows` (delimiter / end of buffer after regular-ending tokens; no "
            "`ws+ int ws+ R` after an integer - proved EQUIVALENT to the dispatcher's look-ahead), at any context depth with room for the spelling: "
            "parse_pdf_obj returns exactly the value, located at the spelling, cursor after its last byte, depth restored. For ALL inputs: an accepted "
            "value contains no null-valued dictionary entry at any level (dict_no_null_values); a repeated non-null key is rejected whatever follows "
            "(dict_duplicate_rejected). The model is tied to the real parser by the correspondence run, whose oracle knows the value that was spelled "
            "(random values x random encoder choices x contexts). The generator itself is inside the theorem: the executable encoder `spell` is proved to "
            "produce a legal spelling for every value of its decidable domain `wfDeep` and EVERY choice stream (spell_is_Spells: arrays, dictionaries in any "
            "entry order, the extra `/#01nul null` entries, separators decided on bytes), so spell_parse_encoder(_canon) states the round trip on "
            "`ws ++ spell v choices ++ rest` with no relational premise; the generator's 15 contexts are proved legal (genContexts_follow), the `sp` "
            "case of the driver is the theorem generator_case_parses, and every generated value is checked to lie in `wfDeep` (build-time #eval and a "
            "`genbad` case at run time). The exclusions of `wfDeep` each have a proved witness.",
}
