CFG = {
    "modules": ["Parsley.Props.C02", "Parsley.Props.C16", "Parsley.Props.C02Struct"],
    "theorems": ["Parsley.C02.name_window_decoder_eq", "Parsley.C02.name_spelling_decodes", "Parsley.C02.name_roundtrip", "Parsley.C02.integer_spec", "Parsley.C02.integer_roundtrip",
                 "Parsley.C02.hexstring_spec", "Parsley.C02.litstring_roundtrip", "Parsley.C02.litLoop_balanced",
                 "Parsley.C02.real_spec", "Parsley.C02.ws_loop_eq_skip", "Parsley.C02.skipWs_run", "Parsley.C02.wsRun_run",
                 "Parsley.C02.parseObj_token", "Parsley.C02.spell_parse_name", "Parsley.C02.spell_parse_litstring",
                 "Parsley.C02.spell_parse_hexstring", "Parsley.C02.spell_parse_keyword", "Parsley.Shift.parseObj_pre",
                 "Parsley.C02.spell_parse_int", "Parsley.C02.spell_parse_real", "Parsley.C02.spell_parse_ref",
                 "Parsley.C02.numberOrRef_after_int", "Parsley.C02.reference_spec",
                 "Parsley.C16.parse_never_panics", "Parsley.C16.obj_loc",
                 "Parsley.C02.spell_parse", "Parsley.C02.spell_parse_at", "Parsley.C02.parseInternal_spells",
                 "Parsley.C02.lookAhead_iff_refTail", "Parsley.C02.follows_iff_ctxOK", "Parsley.C02.follows_in_array",
                 "Parsley.C02.follows_in_dict", "Parsley.C02.lookAhead_elems", "Parsley.C02.lookAhead_sep_tok",
                 "Parsley.C02.within_bound_accepted", "Parsley.C02.dict_no_null_values",
                 "Parsley.C02.dict_duplicate_rejected", "Parsley.C02.Spells.depth_le",
                 "Parsley.C02.spell_is_Spells_partial"],
    "partial": {"Parsley.C02.spell_is_Spells_partial": "the FULL statement `spell_parse` is proved (Props/C02Struct.lean): for every value, every legal spelling "
                "in the relational spec `Spells d v tok` (mutual over values, array element lists and dictionary entry lists; separators non-empty exactly "
                "between regular characters; null-valued entries dropped, repeated non-null keys excluded), every leading whitespace/comment run, every "
                "context satisfying the declarative condition `Follows` (proved equivalent to what the parser needs: lookAhead_iff_refTail) and every "
                "parser context with cur + d <= max, parse_pdf_obj returns exactly the value, located at the spelling, cursor after its last byte, depth "
                "restored. What is partial is only the link from the relational spec to the EXECUTABLE encoder `spell` of Spec/Spelling.lean that the "
                "driver uses as generator: proved for ALL scalars - keywords, integers, reals (spellReal), names, literal and hexadecimal strings "
                "(hexBody_spec) and references (object number <= i64 max, which `wf` does not state); NOT proved for the encoder's arrays and dictionaries "
                "(sepFor on bytes vs. on value kinds; the encoder's extra `/#01nul null` entry needs the key to be unused; `wf` does not require sorted, "
                "duplicate-free dictionaries). For those the generator/spec agreement is decided by the correspondence run.",
                "(depth)": "the depth hypothesis of spell_parse is on the SPELLING depth d (index of `Spells`), not on depth(v): a dropped null-valued "
                "entry still needs one nesting level (`<</A null>>` has value depth 1 but is rejected at cur+1 = max by the real parser and the model); "
                "Spells.depth_le proves depth v <= d."},
    "n": {"quick": 4000, "thorough": 150000},
    "exhaustive": {"quick": False, "thorough": False},
    "rule": "random values (depth <= 4; boundary integers, reals, names/strings over delimiters, escapes and high bytes, references, arrays, "
            "dictionaries) x random encoder choices (whitespace/comment runs, #hh vs raw and hex case, literal vs hex strings, hex whitespace, "
            "odd-digit shorthand, signs, leading zeros, entry order, null-valued entries) x 15 following contexts x depth slack 0..2; one "
            "single-byte mutation/truncation and one duplicate-key spelling per value. non-trivial = spelling of >= 4 bytes (distinct by case hash)",
    "trusted_base": COMMON_TB + ["modelled, not verified: ParseBuffer primitives as list functions; the spec-side encoder `spell` defines what a legal spelling is"],
    "assumptions": ["integers range over -(2^63-1)..2^63-1 (i64::MIN has no accepted spelling); reals are (numerator, 10^k) with k >= 1, unnormalised, as the parser represents them",
                    "string values are the raw bodies (the parser does not unescape)"],
}
LEVEL = {
    "design_ref": "DESIGN.md 3.C02/C16",
    "technique": "Lean 4 theorem `spell_parse` (all values x all legal spellings x all contexts x all depths) over an executable model + spelling-generator differential correspondence",
    "text": "Machine-checked proof of the whole statement on the executable model (spell_parse): for every value, every legal spelling of it "
            "(relational spec `Spells`: all token spellings, all whitespace/comment separators - non-empty exactly between regular characters -, "
            "arrays and dictionaries nested to any depth, null-valued entries dropped, repeated non-null keys excluded), after any whitespace/comment "
            "run, before any context satisfying the declarative condition `Follows` (delimiter / end of buffer after regular-ending tokens; no "
            "`ws+ int ws+ R` after an integer - proved EQUIVALENT to the dispatcher's look-ahead), at any context depth with room for the spelling: "
            "parse_pdf_obj returns exactly the value, located at the spelling, cursor after its last byte, depth restored. For ALL inputs: an accepted "
            "value contains no null-valued dictionary entry at any level (dict_no_null_values); a repeated non-null key is rejected whatever follows "
            "(dict_duplicate_rejected). The model is tied to the real parser by the correspondence run, whose oracle knows the value that was spelled "
            "(random values x random encoder choices x contexts); the encoder's scalars are proved to be legal spellings (spell_is_Spells_partial).",
}
