CFG = {
    "modules": ["Parsley.Props.C03"],
    "theorems": [],
    "partial": {},
    "n": {"quick": 300, "thorough": 5000},
    "exhaustive": {"quick": False, "thorough": False},
    "shrink": False,
    "rule": "tbd",
    "trusted_base": COMMON_TB,
    "assumptions": [],
}
LEVEL = {"design_ref": "DESIGN.md 3.C03/C04", "technique": "tbd", "text": "tbd"}
