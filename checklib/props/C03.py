CFG = {
    "modules": ["Parsley.Props.C03"],
    "theorems": [
        "Parsley.C03.identity_mismatch_rejected", "Parsley.C03.identity_mismatch_rejected_second",
        "Parsley.C03.firstPass_reject_lifts", "Parsley.C03.firstPass_direct",
        "Parsley.C03.load_defines_exactly_partial", "Parsley.C03.tiny_reads",
        "Parsley.C03.load_never_panics_partial", "Parsley.LoaderNoPanic.parseData_no_panic",
        "Parsley.LoaderNoPanic.parseIndirect_inv", "Parsley.LoaderNoPanic.xrefLoop_ok", "Parsley.LoaderNoPanic.parseObjects_no_panic",
        "Parsley.C03.hybrid_hidden_gen0_witness",
    ],
    "partial": {
        "load_defines_exactly_partial":
            "FULL STATEMENT WANTED: for every document d and layout l, parseData (renderDoc d l) = ok (defs = d.objs, root = d.root). "
            "PROVED: the object-loading stage (parse_objects) for direct objects - for all entry lists with distinct identifiers whose offsets "
            "hold objects that read as (id, gen) -> value in every context not yet defining them (premise ReadsAt, shown satisfiable by tiny_reads), "
            "parse_objects started from the empty context defines exactly those identifiers with those values and nothing else. "
            "NOT closed by a theorem (decided by the correspondence run against the oracle DocSpec.resolve on generated files, and by kernel-evaluated "
            "whole-model runs on one concrete file per layout): the composition with header scan / leading-garbage view / backward scans / startxref / "
            "trailer and with the xref decoders (C13: table, stream, /W, /Index; C06/C07: Flate + PNG-Up), the premise ReadsAt for arbitrary spellings "
            "(C02's spell_parse is itself partial), and the layouts: object streams, hybrid files, forward-referenced /Length (second pass).",
        "load_never_panics_partial":
            "FULL STATEMENT WANTED: for all inputs parseData never reaches a panic site. PROVED: for every input below 2^62 bytes no panic site of "
            "the loader's glue or of any composed parser (object, indirect object, xref table, xref stream incl. /Index and /W arithmetic, object "
            "stream incl. set_cursor address arithmetic, the /Prev loop's fuel, both passes with the context invariant cur<=max and sorted "
            "definitions) is reachable, PROVIDED the stream decoders neither panic nor return more than 2^63 bytes (hypothesis DecodersTotal about "
            "Filters.applyFilter Loader.ext: the executable zlib inflate model can end in its own fuel outcome, hex2bin has an unreachable index "
            "site; discharging these is C06/C07 material). The real decoders are exercised by the correspondence run (Flate'd xref and object streams).",
        "(known finding)": "hybrid files whose hidden objects have generation-0 free entries lose those objects (#31): hybrid_hidden_gen0_witness; "
            "same root cause as C04-generation-changed",
    },
    "n": {"quick": 1000, "thorough": 30000},
    "exhaustive": {"quick": False, "thorough": False},
    "shrink": False,
    "rule": "corpus (hand-built: tiny classic / garbage / two objects / identity mismatch / non-reference root / startxref out of range / no magic / "
            "no startxref / forward /Length / missing holder / minimal xref stream; smallest generated instances of the known finding) + per seed one "
            "document from the spec-side generator (Spec/Doc.lean renderHistory with one revision): 2-6 user objects with values from the C02 generator "
            "spelled by Spelling.spell (random choices), generations 0-2, some streams with random data and extra entries, /Length direct or by reference "
            "with the holder numbered below or above the stream (second pass), random file order, padding of white space / comments (incl. a comment "
            "containing %%EOF), xref offset at the padding or at the number, optional binary header comment, leading garbage 0-39 bytes without '%'; "
            "6 layout families by case index: classic table (subsection cuts 0-3, three entry terminators, leading zeros) x2, cross-reference stream "
            "(w0 0-2, extra widths up to 4 bytes, /Index partition or omitted, optional Flate stored blocks, optional PNG-Up predictor, rotated dictionary "
            "order) x2, hybrid (table + /XRefStm, hidden generation 65535), mixed; with stream/hybrid layouts about half of the eligible objects go into "
            "1-2 object streams (optionally Flate'd, gaps of white space between members); every 3rd case index additionally a purpose-built `sys` document (plain objects, streams with direct / backward / forward referenced /Length, "
            "an object stream where the layout allows) cycling through table / stream / hybrid x 8 identity-mismatch corruptions (offsets exchanged: two plain "
            "objects; a direct, backward, forward /Length stream and a plain object; two forward /Length streams (second pass only); an object listed under an "
            "unused number: forward /Length stream (second pass only), plain object, backward /Length stream) - all must be rejected - plus the uncorrupted "
            "control that must load exactly; an ACCEPTED load of a corrupted (mut) file is checked from the bytes alone: every in-use entry of the newest "
            "section, when that is a classic table read by position, must be defined and have n g obj at its offset (class accepted-with-wrong-object-at-entry); "
            "every 4th document again with the offsets of two in-use "
            "entries exchanged (must be rejected); every 2nd with one corruption (truncate, alter/delete/insert a byte, replace a number by an extreme "
            "one, cut the middle) judged for correspondence and no panic. Oracle = DocSpec.resolve on what the encoder wrote (never the model); it also "
            "re-derives the file from the seed and compares the bytes. non-trivial = document/history of >= 300 bytes, any mismatch or corpus case, a "
            "corrupted file of >= 200 bytes; distinct by case hash",
    "trusted_base": COMMON_TB + [
        "modelled, not verified: ParseBuffer views as byte lists with a view-relative cursor (C17), BTreeMap/BTreeSet as ordered association lists / membership lists",
        "reused component models with their own correspondence checks: Prim/Obj (C02/C15/C16), Indirect (C05), Xref (C13), ObjStm (C14), Filters/Inflate (C06), Predictor (C07)",
        "external crates behind the decoders (flate2/zlib, ascii85, binascii) are modelled, DCTDecode is treated as always failing on loader data",
        "hook (feature verif): exit_log! unwinds with VerifExit instead of process::exit(1); PDFObjContext::verif_ids lists the defined identifiers",
    ],
    "assumptions": [
        "the harness needs the hook patch pending_fixes/C03-00-hook-unwinding-exit-log.patch applied to /repo",
        "generated documents keep the magic '%PDF-' out of the leading garbage and the keywords startxref / trailer out of object values (they would be found by the scans)",
        "a PNG predictor over zero rows (empty hybrid cross-reference stream) is rejected by the predictor code; the generator keeps such streams plain",
    ],
}
LEVEL = {
    "design_ref": "DESIGN.md 3.C03/C04",
    "technique": "Lean 4 theorems over an executable model of the loader composing the component models of C02/C05/C13/C14/C06/C07 + "
                 "differential correspondence with the real parse_data (in-process, unwinding exit_log! hook) + declarative oracle (newest revision that "
                 "mentions a number wins) on documents rendered by an independent encoder",
    "text": "Executable model of parse_data / parse_xref_section / parse_xref_stream / get_xref_info / info_from_xref_entries / parse_objects written "
            "line by line after the code (same exits; panics of the component parsers propagated). Machine-checked for all inputs: an object whose "
            "identifier differs from its cross-reference entry is rejected (both passes); the object-loading stage defines exactly the entries' "
            "identifiers with the values read at their offsets (direct objects; premise shown satisfiable). The full statement (all layouts, end to "
            "end) is decided on the real code by the oracle over generated documents covering table / stream / hybrid, /W, /Index, Flate + PNG-Up, "
            "object streams, direct and referenced /Length, leading garbage; model and code agree on every generated and corrupted file. Known "
            "finding #31 (hybrid, hidden object with a generation-0 free entry is lost) is reproduced, classified on the case and witnessed by a theorem.",
}
