CFG = {
    "modules": ["Parsley.Props.C03", "Parsley.Props.C03E2E", "Parsley.Props.C03E2EXref", "Parsley.Props.C03E2EObjStm", "Parsley.Props.C03E2EAll", "Parsley.Props.C03Render", "Parsley.Props.C03RenderX", "Parsley.Props.C03Enc",
                "Parsley.Props.C03RenderDeep", "Parsley.Props.C03AnyFlate", "Parsley.Props.C03RenderFwd", "Parsley.Props.C03LenMember", "Parsley.Props.C03SelfRow"],
    "theorems": [
        "Parsley.C03.identity_mismatch_rejected", "Parsley.C03.identity_mismatch_rejected_second",
        "Parsley.C03.firstPass_reject_lifts", "Parsley.C03.firstPass_direct",
        "Parsley.C03.load_defines_exactly_partial", "Parsley.C03.tiny_reads",
        "Parsley.C03.load_never_panics_partial", "Parsley.LoaderNoPanic.parseData_no_panic",
        "Parsley.LoaderNoPanic.parseIndirect_inv", "Parsley.LoaderNoPanic.xrefLoop_ok", "Parsley.LoaderNoPanic.parseObjects_no_panic",
        "Parsley.C03.hybrid_hidden_gen0_witness",
        # follow-up C03_6 (generator strengthening): the /Length of an ordinary stream stored in an object stream
        "Parsley.C03.length_holder_in_objstm_witness",
        # follow-up C03_8 (generator strengthening): the row a cross-reference stream object has for itself is never compared with its offset
        "Parsley.C03.xrefstm_self_entry_unchecked_witness", "Parsley.C03.firstPass_skips_defined",
        # follow-up C03b: end to end
        "Parsley.C03.load_defines_exactly_classic", "Parsley.C03.load_defines_exactly_classic_fwd", "Parsley.C03.load_never_panics",
        "Parsley.C03.exFile_wf", "Parsley.C03.exFileF_wf",
        "Parsley.LoaderE2E.load_classic_core", "Parsley.LoaderE2E.load_classic_fwd", "Parsley.LoaderE2E.body_all",
        "Parsley.LoaderTwoPass.load_two_pass", "Parsley.LoaderTwoPass.firstPass_two", "Parsley.LoaderTwoPass.secondPass_two",
        "Parsley.LoaderTwoPass.twoObjs_loads",
        "Parsley.LoaderE2E.load_classic", "Parsley.LoaderE2E.reads_spelled", "Parsley.LoaderE2E.reads_stream_direct",
        "Parsley.LoaderE2E.reads_stream_ref", "Parsley.LoaderE2E.trailer_spelled", "Parsley.LoaderE2E.table_roundtrip_at",
        "Parsley.LoaderE2E.section_classic", "Parsley.LoaderE2E.xrefinfo_classic", "Parsley.LoaderE2E.reads_body",
        "Parsley.LoaderE2E.parseData_scan", "Parsley.LoaderE2E.scanBack_at", "Parsley.LoaderE2E.scanFwd_at",
        "Parsley.LoaderE2E.loadView_tail",
        "Parsley.LoaderDecoders.applyFilter_no_panic", "Parsley.LoaderDecoders.inflate_no_panic",
        "Parsley.LoaderDecoders.applyFilter_len", "Parsley.LoaderDecoders.load_never_panics",
        "Parsley.LoaderDecoders.size_clause_false",
        # follow-up C03c: cross-reference stream layouts, object streams, hybrid files, generator link
        "Parsley.C03.load_defines_exactly_xrefstream", "Parsley.C03.exXFile_wf",
        "Parsley.LoaderE2E.load_xrefstream", "Parsley.LoaderE2E.load_xrefstream_core", "Parsley.LoaderE2E.xrefinfo_stream",
        "Parsley.LoaderE2E.section_stream", "Parsley.LoaderE2E.parseXrefStream_written", "Parsley.LoaderE2E.xrefStreamP_decoded",
        "Parsley.LoaderE2E.xrefSectP_at_digit", "Parsley.LoaderE2E.xwsEol_run", "Parsley.LoaderE2E.stored_decodes",
        "Parsley.LoaderE2E.stage_with_xs",
        "Parsley.LoaderE2E.applyFilters_flate_stored", "Parsley.LoaderE2E.applyFilters_flate_pred", "Parsley.LoaderE2E.applyFilters_flate_up",
        "Parsley.LoaderE2E.streamFilters_unfiltered", "Parsley.LoaderE2E.flateDecode_post",
        "Parsley.C03.load_defines_exactly_objstm", "Parsley.C03.load_defines_exactly_hybrid", "Parsley.C03.load_defines_exactly_hybrid_objstm",
        "Parsley.C03.exAFile_wf", "Parsley.C03.exBFile_wf", "Parsley.C03.exCFile_wf",
        "Parsley.LoaderE2E.load_xrefstream_objstm", "Parsley.LoaderE2E.load_hybrid", "Parsley.LoaderE2E.load_hybrid_objstm",
        "Parsley.LoaderE2E.load_hybrid_core", "Parsley.LoaderE2E.section_hybrid", "Parsley.LoaderE2E.xrefinfo_hybrid",
        "Parsley.LoaderE2E.stage_with_xs_objstm",
        "Parsley.LoaderObjStm.stage_from_objstm", "Parsley.LoaderObjStm.stage_from_objstm_written", "Parsley.LoaderObjStm.WCont.loads",
        "Parsley.LoaderObjStm.extracts_written", "Parsley.LoaderObjStm.firstPass_mixed", "Parsley.LoaderObjStm.definedStreams_conts",
        "Parsley.LoaderObjStm.objStmPass_conts",
        "Parsley.C03.renderHistory_classic_wf_partial", "Parsley.C03.render_classic_loads_partial", "Parsley.C03.render_classic_binds_partial",
        "Parsley.LoaderE2E.renderObjs_body", "Parsley.LoaderE2E.trailer_spells",
        "Parsley.LoaderE2E.tableEnts_tableSubs", "Parsley.LoaderE2E.tableSubs_subOk", "Parsley.LoaderE2E.classicOf_wf",
        "Parsley.LoaderE2E.render_is_classic", "Parsley.C03.exRev_simple",
        "Parsley.C03.load_defines_exactly_xrefstream_all", "Parsley.C03.load_defines_exactly_hybrid_all",
        "Parsley.C03.exDFile_wf", "Parsley.C03.exEFile_wf",
        "Parsley.LoaderE2E.load_xrefstream_all", "Parsley.LoaderE2E.load_hybrid_all", "Parsley.LoaderE2E.stage_with_xs_all",
        "Parsley.LoaderObjStm.stage_two_pass_objstm", "Parsley.LoaderObjStm.stage_two_pass_objstm_written",
        "Parsley.LoaderObjStm.stage_two_pass_from", "Parsley.LoaderObjStm.firstPass_two0", "Parsley.LoaderObjStm.secondPass_two0",
        "Parsley.LoaderObjStm.tp_loads",
        "Parsley.C03.renderHistory_xrefstream_wf_partial", "Parsley.C03.render_xrefstream_loads_partial", "Parsley.C03.render_xrefstream_binds_partial",
        "Parsley.LoaderE2E.renderXrefStream_eq", "Parsley.LoaderE2E.xstm_ok", "Parsley.LoaderE2E.xstm_dict", "Parsley.LoaderE2E.xstm_stored",
        "Parsley.LoaderE2E.xfileOf_wf", "Parsley.LoaderE2E.render_is_xrefstream",
        # mutation sweep follow-up: the `encrypted` flag (/Encrypt)
        "Parsley.C03.section_raises_flag", "Parsley.C03.parseXrefStream_flag", "Parsley.C03.parseXrefSection_flag_mono",
        "Parsley.C03.stream_refused_when_flagged", "Parsley.C03.hybrid_refused_when_declared", "Parsley.C03.loop_adds_nothing_when_flagged",
        "Parsley.C03.objStmParse_flagged", "Parsley.C03.objStmPass_flagged", "Parsley.C03.objstm_skipped_when_flagged",
        "Parsley.C03.loads_classic_declared", "Parsley.C03.refused_hybrid_declared", "Parsley.C03.refused_declared_above_stream",
        "Parsley.C03.encrypt_in_stream_dict_ignored_observation", "Parsley.C03.encrypt_declared_below_streams_witness",
        "Parsley.DocSpec.renderRevE_none", "Parsley.DocSpec.renderHistoryE_none",
        "Parsley.DocSpec.asBuilt_classic", "Parsley.DocSpec.asBuilt_undeclared", "Parsley.DocSpec.asBuilt_reject_acceptable",
        "Parsley.DocSpec.walkFlag_true_trailer", "Parsley.DocSpec.asBuilt_one_section",
        # follow-up C03e: (1) generator link for values of ANY shape (spell_is_Spells on wfDeep), (2) FlateDecode by ANY conformant encoder
        "Parsley.C03.simpleObj_iff", "Parsley.C03.simpleObj_of_sorted", "Parsley.C03.simpleObj_val",
        "Parsley.C03.render_classic_binds_deep_partial", "Parsley.C03.render_xrefstream_binds_deep_partial", "Parsley.C03.exDeep_canon",
        "Parsley.C03.exArr_canon", "Parsley.C03.exDeepObjs_simple", "Parsley.C03.exDeepRev_simple",
        "Parsley.C03.exDeepRevX_simple", "Parsley.C03.exDeepRevXUp_simple", "Parsley.LoaderE2E.renderObj_simple",
        "Parsley.LoaderE2E.SimpleObj.of_scalar", "Parsley.LoaderE2E.SimpleObj.of_sorted", "Parsley.LoaderE2E.wobjOf_ok",
        "Parsley.C02.spell_is_Spells", "Parsley.C02.canon_sorted", "Parsley.C03.stored_of_flate_encoder",
        "Parsley.C03.stored_of_flate_encoder_pred", "Parsley.C03.container_stored_of_flate_encoder", "Parsley.C03.load_defines_exactly_xrefstream_anyflate",
        "Parsley.C03.load_defines_exactly_xrefstream_dynflate", "Parsley.C03.exZPlan_ok", "Parsley.C03.exZDict_spells",
        "Parsley.C03.exZs_ok", "Parsley.C03.exZFile_wf0", "Parsley.C03.exZFile_loads",
        "Parsley.LoaderE2E.inflate_of_layerEnc", "Parsley.LoaderE2E.applyFilters_flate_any", "Parsley.LoaderE2E.applyFilters_flate_pred_any",
        "Parsley.LoaderE2E.stored_of_layerEnc", "Parsley.LoaderObjStm.decodesTo_of_stored",
        # ... and STREAM OBJECTS with a direct /Length in the generator link
        "Parsley.LoaderE2E.wstmOf_ok", "Parsley.LoaderE2E.renderObj_stm", "Parsley.LoaderE2E.pieceOf_val_stm",
        "Parsley.LoaderE2E.canon_dict_eq", "Parsley.LoaderE2E.streamEntries_length", "Parsley.LoaderE2E.mem_place_placedOf",
        "Parsley.LoaderE2E.pieceOf_reads", "Parsley.LoaderE2E.xfileOf_written_gen", "Parsley.LoaderE2E.WStm.withPad_val",
        "Parsley.LoaderE2E.wfDeepKvs_nodup", "Parsley.C03.exDeepO5_simple", "Parsley.C03.exStm_val",
        "Parsley.C03.pieces_keys", "Parsley.C03.piece_mem",
        # ... and streams whose /Length is a REFERENCE (holder before or after the stream)
        "Parsley.C03.render_classic_fwd_binds_partial", "Parsley.C03.render_classic_fwd_loads_partial", "Parsley.C03.renderHistory_classic_fwd_wf_partial",
        "Parsley.C03.render_xrefstream_fwd_binds_partial", "Parsley.C03.render_xrefstream_fwd_loads_partial", "Parsley.C03.renderHistory_xrefstream_fwd_wf_partial",
        "Parsley.C03.anyObj_iff", "Parsley.C03.exFwdRev_any", "Parsley.C03.exFwdRevX_any",
        "Parsley.C03.exFwdRevXUp_any", "Parsley.LoaderE2E.render_is_classic_fwd", "Parsley.LoaderE2E.render_is_xrefstream_fwd",
        "Parsley.LoaderE2E.classicOf_wffwd", "Parsley.LoaderE2E.xfileOf_wfall", "Parsley.LoaderE2E.pieceOf_readsDep",
        "Parsley.LoaderE2E.classicOf_wf0", "Parsley.LoaderE2E.depIn_pieceOf",
    ],
    "partial": {
        "load_defines_exactly_partial":
            "FULL STATEMENT WANTED: for every document d and layout l, parseData (renderDoc d l) = ok (defs = d.objs, root = d.root). "
            "PROVED END TO END (load_defines_exactly_classic = LoaderE2E.load_classic, follow-up C03b) for the layout class 'single revision, classic table': "
            "for EVERY well-formed ClassicFile - leading garbage not containing the magic, any header line after %PDF-, objects `n g obj <value> endobj` "
            "whose value is written in ANY legal spelling (C02.Spells: all value kinds, nested arrays/dictionaries to depth 50, any digit strings incl. leading "
            "zeros, any white space / comment runs between the pieces), stream objects with a direct /Length (dictionary in any legal spelling, both EOLs after "
            "`stream`, all four before `endstream`, arbitrary data), arbitrary bytes between objects, a table with any subsection partition / terminators / "
            "header padding C13's encoder can express, the trailer dictionary in any legal spelling, any bytes between trailer and startxref, white space / "
            "comments after startxref, the offset in any digit string, a tail after %%EOF - parseData accepts, reports the trailer's /Root, binds every object "
            "identifier to the value written and defines nothing else. Well-formedness (ClassicFile.WF) = the table's in-use entries are exactly the objects at "
            "their offsets, distinct identifiers and object numbers, /Root a reference, no /Prev, no /XRefStm, startxref = offset of the table; non-vacuity: "
            "exFile_wf (garbage + plain object + stream). The premise ReadsAt of the stage theorem is now DISCHARGED for every Spells spelling (reads_spelled) and "
            "for direct-/Length streams via C05's framing theorem (reads_stream_direct); streams with a referenced /Length read where the holder is bound and "
            "give InsufficientContext where it is not (reads_stream_ref); the two-pass stage theorem LoaderTwoPass.load_two_pass (first pass queues them, second "
            "pass loads them) is composed into load_defines_exactly_classic_fwd = LoaderE2E.load_classic_fwd: the same end-to-end statement for files that also "
            "contain streams whose /Length is a reference to an integer object written before OR AFTER the stream (ClassicFile.WFfwd; non-vacuity exFileF_wf: "
            "holder after the stream). "
            "NOW ALSO PROVED END TO END (follow-up C03c; Props/C03E2EXref.lean, Props/C03E2EObjStm.lean), each a full theorem for its layout class with the same conclusion "
            "(accepted, root reported, every identifier bound to the value written, nothing else defined): "
            "(a) load_defines_exactly_xrefstream - single revision with a cross-reference STREAM (XrefStreamFile: the stream object anywhere in the body, objects "
            "before and after it, startxref at its padding or number): dictionary /Type /XRef, /Size, /W [w0 w1 w2] with EVERY width triple in {0..4}^3 (w1 != 0), "
            "/Index with ANY subsection partition or omitted (= [0 Size]), rows of type 0/1 as C13's encoder writes them, stored (Stored) unfiltered, or FlateDecode'd "
            "in stored blocks (any block partition, trailing bytes), or FlateDecode'd with a predictor in /DecodeParms - every predictor C07 covers, in particular PNG Up "
            "12 as the generator writes it (/Colors, /BitsPerComponent present or defaulted); the cross-reference stream object itself is defined (registered during the walk, "
            "its own row skipped). Composes C13 index_roundtrip, C06 inflate_stored_roundtrip, C07 predictor_roundtrip, C05 framing, LoaderStage.stage_from. Non-vacuity: "
            "exXFile_wf = Props/C03.lean's docXrefStream byte for byte; Stored.flate / Stored.flatePred instances. "
            "(b) load_defines_exactly_objstm - the same files with type-2 rows naming OBJECT STREAMS written in the body (WCont: header pairs in any legal layout, "
            "anything up to /First, members in any legal spelling with arbitrary gaps between them, unfiltered or FlateDecode'd in stored blocks): every member (n,0) is "
            "bound to the value written in the stream, every file-level object (containers included) to its value, nothing else. New stage theorem "
            "LoaderObjStm.stage_from_objstm (first pass over mixed in-file / in-stream infos from any sorted context, definedStreams, objStmPass in set order via C14 "
            "objstm_roundtrip). Non-vacuity exAFile_wf. "
            "(c) load_defines_exactly_hybrid / load_defines_exactly_hybrid_objstm - HYBRID files: classic table + trailer /XRefStm -> cross-reference stream object in the body; "
            "file-level objects listed in either part; hidden objects = free entries in the table + members of object streams listed in the stream. Hypothesis keysNodup "
            "(every (number, generation) once over table and stream) is exactly 'outside known finding #31' (a hidden object's free entry must not have generation 0). "
            "Non-vacuity exBFile_wf (hidden 11, 12 with generation 65535), exCFile_wf. "
            "(d) LINK GENERATOR -> THEOREM (Props/C03Render.lean): renderHistory_classic_wf_partial proves that the file written by the executable spec-side encoder "
            "DocSpec.renderHistory (the generator of the correspondence run) for ONE revision with a classic table (kind 0, no offset swap / relabel) is the byte string of a "
            "well-formed ClassicFile whose objects are exactly the (identifier, canonical value) pairs the encoder reports in Said.written; render_classic_loads_partial / "
            "render_classic_binds_partial compose it with load_defines_exactly_classic. Unrestricted: all choice streams, object padding, ofsAtPad, subsection cuts, header "
            "widths, entry terminators, Size/Root order, free entries, object 0, leading garbage without the magic, binary comment. FOLLOW-UP C03e LIFTED THE RESTRICTION TO SCALAR VALUES (Props/C03RenderDeep.lean: render_classic_binds_deep_partial, "
            "simpleObj_iff; Lemmas/LoaderE2ERender.lean: SimpleObj generalised, renderObj_simple): an object may be Body.val (canon s) s for ANY value s in the exact domain of the executable encoder "
            "(wfDeep: scalars, references, arrays and dictionaries nested to any depth <= 50 = the loader's own nesting limit, entries written in any order) - by C02.spell_is_Spells the bytes are a legal spelling of canon s "
            "(every dictionary as a sorted map), which is the value the encoder reports and the loader binds; non-vacuity exDeepRev_simple (dictionary written /Kids /Type /Info with nested array, "
            "unsorted nested dictionary, reference, string, real; array holding a dictionary) evaluated to the SORTED values. ALSO LIFTED (same follow-up): STREAM OBJECTS with a direct /Length (Body.stm, lenRef = none; wstmOf, wstmOf_ok, renderObj_stm): any data bytes (incl. the keyword endstream), LF / CR LF after `stream`, "
            "all four forms before `endstream`, /Length inserted at any position among the entries, the dictionary as written (with /Length) in the encoder's domain and its entries' values in canonical form (ValsCanon: the encoder reports the "
            "dictionary sorted by key with the values as given); the object is bound to .stream (canonKvs entries) <start, |data|, data> (render_classic_binds_partial second clause; non-vacuity exDeepO5_simple: CR LF / CR LF framing, "
            "data containing `endstream`, nested dictionary entry). AND (Props/C03RenderFwd.lean, Lemmas/LoaderE2ERenderFwd.lean / FwdX) STREAMS WHOSE /Length IS A REFERENCE: AnyObj = SimpleObj or FwdObj (dictionary says /Length h 0 R), AnyRev / AnyRevX = SimpleRev / SimpleRevX with AnyObj "
            "objects + HoldersIn (the holder `h 0 obj <len> endobj` is an object of the same revision, written BEFORE or AFTER the stream); render_is_classic_fwd / render_is_xrefstream_fwd prove the rendered bytes are a ClassicFile.WFfwd / "
            "XrefStreamFile.WFall .. [] (depOf r) layout (depOf = dependency map keyed by object number; the object-independent part of well-formedness factored as classicOf_wf0 / xfileOf_base from the number bounds alone); "
            "render_classic_fwd_binds_partial / render_xrefstream_fwd_binds_partial: accepted, root, plain objects bound to canon s, EVERY stream object (direct or referenced /Length) bound to its stream value, nothing else; non-vacuity "
            "exFwdRev_any / exFwdRevX_any / exFwdRevXUp_any (one holder before, one after its stream; classic, plain and Flate+PNG-Up cross-reference stream). So for kinds 0 and 1 NO restriction on the file-level objects remains; "
            "_partial only because object-stream MEMBERS (and the hybrid kind 2 that needs them) are not covered by the link; side conditions file < 10^10 bytes, generations <= 65535, numbers < 2^63-1, distinct numbers, at least one object. "
            "(e) load_defines_exactly_xrefstream_all / load_defines_exactly_hybrid_all (Props/C03E2EAll.lean) - the MOST GENERAL single-revision statements: the bodies of (a)-(c) "
            "may hold objects of ALL kinds at once - plain objects, direct-/Length streams, streams whose /Length is a reference to an integer object written before OR AFTER "
            "them (second pass; `dep` marks them, HoldersOK), object streams with members - via LoaderObjStm.stage_two_pass_objstm (both passes + object-stream pass from any "
            "sorted context, generalising LoaderTwoPass to a non-empty context and mixed infos). Non-vacuity exDFile_wf / exEFile_wf (forward /Length stream + holder after it + "
            "object stream, behind a cross-reference stream and behind a hybrid table). "
            "(f) LINK GENERATOR -> THEOREM for cross-reference streams (Props/C03RenderX.lean): renderHistory_xrefstream_wf_partial proves that the file written by "
            "DocSpec.renderHistory for ONE revision with lay.kind = 1 (no offset swap / relabel, no object-stream members) is the byte string of a well-formed XrefStreamFile for "
            "the subsections and /W widths xrefStreamParts computes, and that this layout's objects - the cross-reference stream object ((xnum,0), xv) included - are exactly "
            "Said.written; render_xrefstream_loads_partial / _binds_partial compose it with load_defines_exactly_xrefstream. Unrestricted: choice streams, padding, ofsAtPad, /Index "
            "partition (cut), /Index omitted or written, extra width bytes, type-field width, dictionary rotation, storage (unfiltered / FlateDecode / FlateDecode + PNG-Up), free "
            "entries, object 0, garbage without the magic, binary comment. _partial: no object-stream members; VALUES OF ANY SHAPE, direct-/Length AND referenced-/Length STREAM OBJECTS since C03e as in (d) "
            "(render_xrefstream_binds_deep_partial, non-vacuity exDeepRevX_simple / exDeepRevXUp_simple: plain and Flate + PNG-Up); side conditions file < 2^32 bytes, generations <= 65535, numbers < "
            "2^63-1, distinct numbers incl. xnum, lay.w0 <= 4, one stored block <= 65535 bytes when FlateDecode'd. "
            "LAYOUTS THAT REMAIN without an end-to-end theorem (decided by the correspondence run against the oracle DocSpec.resolve): (1) length holders that are not plain "
            "file-level integer objects (a holder inside an object stream, or itself dependent), a cross-reference stream object whose own /Length is a reference; "
            "(2) object streams and cross-reference streams through ASCIIHex, ASCII85 or filter CHAINS (C06 has the layer theorems, they are not composed here) - "
            "a single FlateDecode is CLOSED since C03e for ANY zlib stream the modelled inflate decodes, in particular every stream of C06's specification encoders (stored, fixed-Huffman from any LZ77 factorisation, "
            "dynamic-Huffman with any valid header, in any mixture): the storage predicates LoaderE2E.Stored / LoaderObjStm.Stored have constructors flateAny / flatePredAny asking for the inflate verdict only "
            "(stored_of_layerEnc, inflate_of_layerEnc, applyFilters_flate_any, applyFilters_flate_pred_any), every end-to-end theorem (a)-(c), (e) consumes them through stored_decodes / decodesTo_of_stored and "
            "therefore covers such files unchanged; surfaced as load_defines_exactly_xrefstream_anyflate / _dynflate, stored_of_flate_encoder(_pred), container_stored_of_flate_encoder (Props/C03AnyFlate.lean); "
            "non-vacuity exZFile_loads: a complete file whose cross-reference stream is a stored block + a fixed-Huffman block + a final DYNAMIC-Huffman block. New size hypothesis for object streams compressed "
            "that way: the DECODED data is at most 2^63 bytes (a compressed stream can be shorter than its data); (3) hybrid files INSIDE the known finding (hidden generation 0: the model "
            "loses the object, hybrid_hidden_gen0_witness); (4) object-stream containers whose own /Length is a reference, containers listed but not defined; "
            "(5) multi-revision files: nothing of the statement's layout freedoms remains open per se since C03e closed hybrid sections hiding object-stream members "
            "(C04.newest_wins_history_hybrid_objstm) and forward /Length inside histories (C04.newest_wins_history_fwd); and their combination with object streams (C04.newest_wins_history_all: the most general history theorem - hybrid sections, object streams incl. hidden members and containers with forward /Length, second-pass objects across revisions); what remains are holders INSIDE object streams and the known findings (C04, follow-up C03d: histories of ANY number of revisions are closed for classic tables and cross-reference streams in any mix "
            "- C04.newest_wins_history_mix -, with hybrid sections incl. hidden objects - C04.newest_wins_history_hybrid, outside the decidable shape hiddenClash of finding #31 -, and with object streams "
            "whose members no later revision mentions - C04.newest_wins_history_objstm); (6) the generator link for hybrid layouts, object-stream members and "
            "referenced-/Length streams inside multi-revision histories - for single revisions non-scalar VALUES and ALL stream objects are closed since C03e - (the links (d) and (f) are now proved for a revision rendered at ANY position with ANY /Prev - LoaderE2E.cls_link / stm_link - and composed over renderRevs for histories "
            "of any number of revisions: C04.render_history_loads_partial). Technical side conditions of all end-to-end theorems: no byte 's' in the white space / comments between `startxref` and its number, no "
            "further %%EOF after the last one, files below 2^63 bytes where object streams are involved.",
        "load_never_panics_partial":
            "FULL STATEMENT WANTED: for all inputs parseData never reaches a panic site. PROVED: for every input below 2^62 bytes no panic site of "
            "the loader's glue or of any composed parser is reachable (as before), and NOW ALSO (LoaderDecoders.applyFilter_no_panic, follow-up C03b) no panic "
            "outcome of any stream decoder model: inflate's fuel is sufficient (measure = unread bits), hex2bin's index site is guarded by the parity check, the "
            "ASCII85 crate's arithmetic panics are caught by a85Decode, predictor sites by C07. The first clause of DecodersTotal is discharged; the theorem "
            "load_never_panics keeps ONLY the size hypothesis DecodedSizes (decoder outputs are Rust buffers <= 2^63 bytes, needed only for decoder inputs above "
            "2^63/2064 bytes; applyFilter_len bounds the output by 2064 x input; size_clause_false shows the unrestricted size clause is false of a list model, "
            "so it is an environment assumption - such a buffer cannot be allocated - not a proof gap).",
        "(observation, not a finding)": "an /Encrypt entry in a cross-reference stream's dictionary is never consulted by the loader (only trailer dictionaries are): such a document "
            "loads to exactly its objects, which is what C03 demands - encrypt_in_stream_dict_ignored_observation records the behaviour of the code; C03 does not mention encryption, so a "
            "document that declares may be refused or must load exactly (DocSpec.acceptable). The accepted-with-members-missing defect (C04-encrypt-declared-below-streams) has NO one-revision "
            "instance: DocSpec.asBuilt_one_section (a classic table has no type-2 entries, a stream section never raises the flag, a hybrid section whose trailer declares is refused before "
            "its stream is read - model side: hybrid_refused_when_declared, stream_refused_when_flagged)",
        "(known finding)": "hybrid files whose hidden objects have generation-0 free entries lose those objects (#31): hybrid_hidden_gen0_witness; "
            "same root cause as C04-generation-changed",
        "(known finding 3)": "xrefstm-self-entry-unchecked: the row a cross-reference stream object has for ITSELF (the section's stream; the /XRefStm stream object of a hybrid file) may point at another object: parse_objects skips entries of "
            "identifiers that are already registered, and these objects are registered while the chain is walked - the file is ACCEPTED and loads as if the row were correct, against C03's second sentence. Outside identity_mismatch_rejected "
            "(hypothesis: the entry's identifier is not yet defined); firstPass_skips_defined is the excluded branch; witness xrefstm_self_entry_unchecked_witness (Props/C03SelfRow.lean: 136-byte file, the oracle's reader DocSpec.headerAt spells (1,0) at the "
            "offset of the row of (2,0), the load succeeds; the same mismatch on an ordinary object's row is rejected). Found by the `ret` family with B = the cross-reference stream object.",
        "(known finding 2)": "length-holder-in-objstm: a document in which an ORDINARY stream takes its /Length from an integer object stored in an object stream (legal: ISO 32000-1 7.5.7 "
            "only forbids this for the /Length of an object stream's own dictionary) is REFUSED - parse_objects opens the object streams after both passes over the file-level objects and "
            "the second pass exits on a stream whose length is still unknown. Found by the `lenc` / `lenh` generator families (every case of that shape); witness "
            "length_holder_in_objstm_witness (Props/C03LenMember.lean: the file is refused, the same document with the holder at file level loads, the same object stream with a direct "
            "/Length on the dependent stream loads). A container whose OWN /Length lives in an object stream is not a well-formed document: refused or exact load are both accepted.",
    },
    "n": {"quick": 1000, "thorough": 30000},
    "exhaustive": {"quick": False, "thorough": False},
    "shrink": False,
    "rule": "pack variants 288..449 (follow-up to seed C03_11): the object-stream header ends EXACTLY at /First (no white space after the last offset) before a member that starts with a digit (integer, real, reference), N = 1 and N > 1; "
            "corpus (w0_no_type_field; length_by_reference_containers: hand-built minimal object streams with forward / backward referenced /Length in both file orders, cross-reference stream and hybrid; hand-built: tiny classic / garbage / two objects / identity mismatch / non-reference root / startxref out of range / no magic / "
            "no startxref / forward /Length / missing holder / minimal xref stream; smallest generated instances of the known finding) + per seed one "
            "document from the spec-side generator (Spec/Doc.lean renderHistory with one revision): 2-6 user objects with values from the C02 generator "
            "spelled by Spelling.spell (random choices), generations 0-2, some streams with random data and extra entries, /Length direct or by reference "
            "with the holder numbered below or above the stream (second pass), random file order, padding of white space / comments (incl. a comment "
            "containing %%EOF), xref offset at the padding or at the number, optional binary header comment, leading garbage 0-39 bytes without '%'; "
            "6 layout families by case index: classic table (subsection cuts 0-3, three entry terminators, leading zeros) x2, cross-reference stream "
            "(w0 0-2, extra widths up to 4 bytes, /Index partition or omitted, optional Flate stored blocks, optional PNG-Up predictor, rotated dictionary "
            "order) x2, hybrid (table + /XRefStm, hidden generation 65535), mixed; with stream/hybrid layouts about half of the eligible objects go into "
            "1-2 object streams (optionally Flate'd, gaps of white space between members); every 3rd case index additionally a purpose-built `sys` document (plain objects, streams with direct / backward / forward referenced /Length, "
            "an object stream where the layout allows) cycling through table / stream / hybrid x 8 identity-mismatch corruptions (offsets exchanged: two plain "
            "objects; a direct, backward, forward /Length stream and a plain object; two forward /Length streams (second pass only); an object listed under an "
            "unused number: forward /Length stream (second pass only), plain object, backward /Length stream) - all must be rejected - plus the uncorrupted "
            "control that must load exactly; an ACCEPTED load of a corrupted (mut) file is checked from the bytes alone: every in-use entry of the newest "
            "section, when that is a classic table read by position, must be defined and have n g obj at its offset (class accepted-with-wrong-object-at-entry); "
            "every 5th case index a `w0` document: a cross-reference stream WITHOUT a type field (/W [0 n m], only in-use rows, /Index leaving out object 0) - "
            "as the file's section, or behind a hybrid table whose /XRefStm stream lists every second user object as in-use rows that the table does not mention (must load exactly; "
            "catches a decoder that forgets the type-1 default of a zero-width type field); every 5th case index an `enc` document that DECLARES ENCRYPTION (encoder DocSpec.renderHistoryE = renderHistory + an optional /Encrypt entry per revision, "
            "proved equal to it when there is none): /Encrypt <reference to an existing or unused number | direct dictionary> in the trailer of a classic table, in the "
            "dictionary of the cross-reference stream, or for hybrid files in the trailer / the /XRefStm stream's dictionary / both (12 layout x placement combinations), object streams present or "
            "not at random; oracle = DocSpec.acceptable: a document that declares may be REFUSED or must load EXACTLY the objects DocSpec.resolve says - accepted with objects missing, extra or wrong "
            "is bad (the statement does not mention encryption, so nothing more is demanded); corpus/C03/encrypted.case (hand-built `decl` files: declared classic / hybrid / stream-dictionary-only, judged "
            "by the same rule, + undeclared controls that must load exactly); "
            "every 4th case index a `lenc` document - OBJECT-STREAM CONTAINERS (and ordinary streams) whose own /Length is a REFERENCE (added after the missed seed C03_6): plain objects 1, 2, an object stream "
            "(two members, optionally Flate'd) and an ordinary stream each taking its /Length from its own integer holder, in a cross-reference-stream or hybrid layout; 48 combinations = layout x NUMBER order (holder numbered below its stream: "
            "loaded first / above it: forward reference, the container is deferred to the second pass and must still be unpacked) x FILE order (holder written before / after its stream: offset order vs number order) x family (one container + one stream; "
            "three containers in one file - forward, backward and direct /Length; a holder that is itself a MEMBER of another object stream - of the ordinary stream: well formed, refused by the code = known class length-holder-in-objstm; of the container: "
            "not a well-formed document (ISO 32000-1 7.5.7), refused or exact load accepted); oracle DocSpec.resolve: every member defined with its value; "
            "SIZE SWEEP of the bytes AROUND the document (`garb`, added after the missed seed C03_7: the magic accepted only within the first 1024 bytes): for every seed a fixed sweep, independent of n - every length 0, 1, ..., 40, then 63, 64, 65, 127, 128, 255, 256, 511, 512, 1000, "
            "1019, 1020, 1021, 1023, 1024, 1025, 2047, 2048, 4095, 4096, 4097, 8192, 65535, 65536, 70000 (thorough: + 1000000, and four rounds) of filler at each of three places, one at a time: BEFORE THE HEADER (leading garbage), in the GAP between the last cross-reference section and `startxref`, AFTER THE LAST %%EOF "
            "(the end-to-end theorems allow all three: ClassicFile / XrefStreamFile / HybridFile fields garbage, gap, trail), plus per size one case with all three places filled (different sizes up to 8192); around 4 documents per size: the purpose-built `sys` control (plain objects, "
            "streams with direct / backward / FORWARD referenced /Length, an object stream where the layout has one) as classic table, cross-reference stream + object stream, hybrid, and a random `doc` document; filler kinds rotating with size, document and seed: zeros; pseudo-random bytes without `%`; "
            "text with look-alikes of everything the loader searches (`%PDF` without the dash incl. directly before the real header, `%%EOF`, `startxref`, xref, trailer); an earlier PDF whose first bytes were cut off (objects, table, trailer, startxref, %%EOF); after the last %%EOF look-alikes without `%%EOF` "
            "(`%%EO`, `%EOF`, `startxref`, even `%PDF-1.7`); white space + comment. The case line carries the document and the description (kind, length) x 3 - the Rust harness (loader_common.rs case_bytes) and the Lean driver (garbFile) expand it alike; oracle DocSpec.resolve of the document (the filler changes nothing) "
            "AND the header offset reported by FileInfo::file_offset(0) = length of the leading filler (class wrong-header-offset); files above 100000 bytes are oracle-only (`nomodel`: the byte-list model's scans recurse once per byte); 855 cases per seed; corpus/C03/garbage_size_sweep.case: the tiny classic document and the tiny "
            "hybrid file with an object stream behind 1019 / 1020 / 1024 / 1025 / 4096 leading bytes, with 1019-1025 trailing bytes, 1020 / 1024 gap bytes, spelled out; "
            "IDENTITY MISMATCH BY RETARGETING (`ret`, added after the missed seed C03_8: 'each offset is parsed only once' - an entry whose offset was already visited for an earlier entry was skipped unchecked): for every seed a fixed family, independent of n, over the purpose-built `sys` document "
            "(plain objects 1, 2; stream 3 with a direct /Length; stream 5 with its /Length in 4 (backward); streams 7, 9 with /Length in 8, 10 (FORWARD: second pass); object-stream container 13 in stream layouts; spellings, padding, file order, table layout from the seed): ONE entry - of object B - is aimed elsewhere while "
            "every other entry stays correct, so that two entries carry the SAME offset (the swap / relabel corruptions keep every offset unique): every ORDERED pair (A, B) of file-level objects (both walk orders: A numbered below B and above it), B an object of the file (its own object still written) or a number no object carries (6 between the others, 20 above all: an entry is added), "
            "in all three layouts; in hybrid files additionally every placement of A's and B's entry in the table / in the /XRefStm stream as in-use rows (table entries are walked before the stream's); further targets: the other legal offset of A (start of padding / first digit), one byte into A's number, A's `endobj`, the section itself (`xref` keyword / the cross-reference stream object), "
            "the /XRefStm stream object, the header (offset 0: a comment, the first object is found); all must be REJECTED - that the case is a mismatch is decided on the bytes alone (DocSpec.headerAt: the identifier spelled at the entry's offset is not the entry's) - plus controls (nothing retargeted, every placement) that must load exactly; 859 cases per seed (thorough: four rounds); "
            "encoder Driver/C03.lean renderRevT = DocSpec.renderRev + (entries to set / add, numbers moved into the /XRefStm stream), equal to it without them; corpus/C03/retarget_one_entry.case: hand-built minimal instances (classic, forward-/Length stream as target, cross-reference stream, hybrid both directions, endobj / into the object / xref keyword / header) with controls; "
            "SELF ROWS (32 more `ret` cases per seed, known class xrefstm-self-entry-unchecked): B = the cross-reference stream object itself (stream layout) / the /XRefStm stream object (hybrid; its row in the table or in that very stream), aimed at the offset of a plain object, a stream, a forward-/Length stream, the container, into an object, at an endobj, at the header: "
            "must be rejected like every other mismatch; the unchanged code accepts them (entries of already registered identifiers are skipped) - the judge reports the known class only for exactly that shape (decided on the case: Driver/C03.lean isSelfRow) AND exactly the load 'as if the row were correct' (DocSpec.resolve of what the encoder wrote); any other accepted load is accepted-but-must-reject; "
            "corpus/C03/known_xrefstm-self-entry-unchecked.case (hand-built `selfrow <hex> <exact load>` lines: the 136-byte witness file, the 170-byte first instance, a hybrid; judged by the same rule); "
            "TIGHTLY PACKED OBJECT STREAMS (`pack`, added after the missed seed C03_9: a member written back to back with its predecessor reported as 'parsed past offset', the stream abandoned, the document loaded with members missing - C14 caught it, C03 did not because DocSpec.mkContainer writes a space after every member): for every seed 288 documents (cross-reference stream / hybrid) whose object stream 20 is laid out by hand in the driver "
            "(packData / packContainer; same dictionary and meaning as mkContainer): seven members, one of every kind (dictionary, array, string, name, integer, real, boolean; random values and spellings) in an order bringing every kind behind every other; separators between consecutive members: NONE wherever the spellings allow it (predecessor ends in `>>` `]` `)` `>` or successor starts with a delimiter), one space, one newline, a comment + end of line, a long run (blanks, NUL, FF, CR LF, comment), or all in turn; "
            "the declared offset of a member = its first byte, or = the END of its predecessor (the separator is leading white space of the member); first member exactly at /First after one byte / after NO byte (header number directly followed by a delimiter) / after a long run with a comment, or white space after /First (first offset > 0); the data ends with the last member / a space / blank lines; header pairs separated by single spaces / one per line / with leading zeros (`007 00`) / long mixed runs; "
            "optionally FlateDecode'd; oracle DocSpec.resolve (every member defined with its value); corpus/C03/objstm_members_back_to_back.case (hand-built minimal instances: `<</K 1>>[2 3]`, `(a)<4142>/N[7]`, offset at the end of the predecessor, no byte before /First, leading zeros, comment as only separator, with a spaced control); "
            "every 4th document again with the offsets of two in-use "
            "entries exchanged (must be rejected); every 2nd with one corruption (truncate, alter/delete/insert a byte, replace a number by an extreme "
            "one, cut the middle) judged for correspondence and no panic. Oracle = DocSpec.resolve on what the encoder wrote (never the model); it also "
            "re-derives the file from the seed and compares the bytes. non-trivial = document/history of >= 300 bytes, any mismatch or corpus case, a "
            "corrupted file of >= 200 bytes; distinct by case hash",
    "trusted_base": COMMON_TB + [
        "modelled, not verified: ParseBuffer views as byte lists with a view-relative cursor (C17), BTreeMap/BTreeSet as ordered association lists / membership lists",
        "reused component models with their own correspondence checks: Prim/Obj (C02/C15/C16), Indirect (C05), Xref (C13), ObjStm (C14), Filters/Inflate (C06), Predictor (C07)",
        "external crates behind the decoders (flate2/zlib, ascii85, binascii) are modelled, DCTDecode is treated as always failing on loader data",
        "hook (feature verif): exit_log! unwinds with VerifExit instead of process::exit(1); PDFObjContext::verif_ids lists the defined identifiers",
    ],
    "assumptions": [
        "documents that declare encryption are not really encrypted (the loader never decrypts; only the declaration and its position matter to the code under test)",
        "the harness needs the hook patch pending_fixes/C03-00-hook-unwinding-exit-log.patch applied to /repo",
        "generated documents keep the magic '%PDF-' out of the leading garbage and the keywords startxref / trailer out of object values (they would be found by the scans)",
        "a PNG predictor over zero rows (empty hybrid cross-reference stream) is rejected by the predictor code; the generator keeps such streams plain",
    ],
}
LEVEL = {
    "design_ref": "DESIGN.md 3.C03/C04",
    "technique": "Lean 4 theorems over an executable model of the loader composing the component models of C02/C05/C13/C14/C06/C07 + "
                 "differential correspondence with the real parse_data (in-process, unwinding exit_log! hook) + declarative oracle (newest revision that "
                 "mentions a number wins) on documents rendered by an independent encoder",
    "text": "Executable model of parse_data / parse_xref_section / parse_xref_stream / get_xref_info / info_from_xref_entries / parse_objects written "
            "line by line after the code (same exits; panics of the component parsers propagated). Machine-checked for all inputs: an object whose "
            "identifier differs from its cross-reference entry is rejected (both passes); the object-loading stage defines exactly the entries' "
            "identifiers with the values read at their offsets (direct objects; premise shown satisfiable). END-TO-END THEOREMS (parseData file = ok, root, "
            "exactly the objects written) are proved for every single-revision layout class of the statement, each over a declarative layout whose every "
            "freedom is a field: classic table (ClassicFile), cross-reference stream with any /W widths, /Index partition, unfiltered / Flate stored blocks / "
            "Flate + PNG-Up or any other C07 predictor (XrefStreamFile), hybrid table + /XRefStm (HybridFile), with objects stored directly or inside object "
            "streams, stream lengths direct or (forward-)referenced, leading garbage, any legal spelling of every value - composing the component theorems of "
            "C02, C05, C13, C14, C06, C07; and the executable generator's classic-table and cross-reference-stream output (object values of ANY shape the encoder can spell: arrays and dictionaries of any nesting, entries in any order; stream objects with direct or referenced /Length and arbitrary data; no object-stream members) is proved to be such a well-formed layout. "
            "FlateDecode'd cross-reference streams and object streams are covered for ANY zlib stream the modelled inflate decodes - every stored / fixed-Huffman / dynamic-Huffman stream of C06's specification encoders (load_defines_exactly_xrefstream_anyflate, witness file with all three block types). "
            "The full statement over GENERATED files (all layouts at once, ASCIIHex / ASCII85 / filter chains, generated stream objects and members) is decided on the real code by the oracle over generated documents covering table / stream / hybrid, /W, /Index, Flate + PNG-Up, "
            "object streams, direct and referenced /Length, leading garbage; model and code agree on every generated and corrupted file. Known "
            "finding #31 (hybrid, hidden object with a generation-0 free entry is lost) is reproduced, classified on the case and witnessed by a theorem. "
            "THE ENCRYPTED FLAG (Props/C03Enc.lean, Spec/DocEnc.lean): proved for all inputs that a trailer with /Encrypt raises the flag and nothing lowers it, that with the flag up no "
            "cross-reference stream contributes an entry (a hybrid section that declares is refused) and no object stream defines a member; documents declaring encryption in every layout and "
            "placement are run through the real code: refused or loaded exactly (never with objects missing). Observation (not a finding): /Encrypt in a cross-reference stream's dictionary is "
            "never consulted; such documents load exactly.",
}
