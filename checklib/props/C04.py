CFG = {
    "modules": ["Parsley.Props.C04", "Parsley.Props.C04Ctx", "Parsley.Props.C04E2E", "Parsley.Props.C04Hist", "Parsley.Props.C04HistMix", "Parsley.Props.C04Enc",
                "Parsley.Props.C04Render", "Parsley.Props.C04Hyb", "Parsley.Props.C04ObjStm",
                "Parsley.Props.C04RenderDeep", "Parsley.Props.C04AnyFlate", "Parsley.Props.C04HybObjStm", "Parsley.Props.C04Fwd", "Parsley.Props.C04All", "Parsley.Props.C04LenMember", "Parsley.Props.C04SelfRow"],
    "theorems": [
        "Parsley.C04.prev_cycle_or_oob_rejected", "Parsley.C04.root_from_newest", "Parsley.C04.merge_is_newest_wins_partial",
        "Parsley.C04.infoOf_inFile",
        "Parsley.LoaderChain.prev_revisit_or_oob_rejected", "Parsley.LoaderChain.prev_chain_step_rejected",
        "Parsley.LoaderChain.xrefLoop_fuel_stable", "Parsley.LoaderChain.getXrefInfo_panic_origin",
        "Parsley.LoaderChain.chain_length_bounded", "Parsley.LoaderChain.getXrefInfo_merges_chain",
        "Parsley.LoaderChain.merge_first_wins", "Parsley.LoaderChain.addEnts_mem", "Parsley.LoaderChain.addEnts_keys",
        "Parsley.LoaderChain.stable_gen_first_per_number",
        "Parsley.C04.free_with_bumped_generation_witness", "Parsley.C04.objstm_member_redefined_witness",
        # follow-up C03b: the statement about the FINAL CONTEXT
        "Parsley.C04.newest_wins_written_partial",
        "Parsley.LoaderStage.stage_from", "Parsley.LoaderStage.newest_wins_in_context_partial",
        "Parsley.LoaderStage.newest_wins_classic_partial", "Parsley.LoaderStage.newest_wins_classic_chain_partial",
        "Parsley.LoaderStage.classic_chain_ctx", "Parsley.LoaderStage.chain_classic_noStm", "Parsley.LoaderStage.chain_unique",
        "Parsley.LoaderStage.fs_chain",
        # follow-up C03c: unconditional end-to-end theorem for two-revision histories
        "Parsley.C04.newest_wins_two_revisions", "Parsley.C04.newest_wins_two_revisions_objs", "Parsley.C04.newest_wins_two_revisions_spec",
        "Parsley.C04.exTwo_wf", "Parsley.LoaderE2E.load_two_rev", "Parsley.LoaderE2E.xrefinfo_two", "Parsley.LoaderE2E.stage_merged",
        "Parsley.LoaderE2E.load_two_core", "Parsley.LoaderE2E.load_two_rev_spec",
        # ... and for histories of ANY number of revisions
        "Parsley.C04.newest_wins_history", "Parsley.C04.newest_wins_history_objs", "Parsley.C04.newest_wins_history_spec",
        "Parsley.C04.exHist2_wf", "Parsley.C04.exHist3_wf",
        "Parsley.LoaderE2E.xrefLoop_secs", "Parsley.LoaderE2E.xrefinfo_secs", "Parsley.LoaderE2E.HistFile.xrefinfo_hist",
        "Parsley.LoaderE2E.load_hist_core", "Parsley.LoaderE2E.load_hist", "Parsley.LoaderE2E.load_hist_spec",
        # ... and with classic tables and cross-reference streams in any mix
        "Parsley.C04.newest_wins_history_mix", "Parsley.C04.newest_wins_history_mix_objs", "Parsley.C04.newest_wins_history_mix_spec",
        "Parsley.C04.exMix_wf", "Parsley.LoaderE2E.xrefLoop_msecs", "Parsley.LoaderE2E.MixFile.xrefinfo_mix",
        "Parsley.LoaderE2E.stage_merged_from", "Parsley.LoaderE2E.msec_reads", "Parsley.LoaderE2E.regAll_spec",
        # mutation sweep follow-up: the `encrypted` flag along the /Prev chain
        "Parsley.C04.declared_above_stream_adds_nothing", "Parsley.C04.encrypt_declared_below_streams_witness",
        "Parsley.C04.encrypt_in_stream_dict_ignored_observation",
        "Parsley.C03.section_raises_flag", "Parsley.C03.stream_refused_when_flagged", "Parsley.C03.loop_adds_nothing_when_flagged",
        "Parsley.C03.objstm_skipped_when_flagged", "Parsley.C03.refused_declared_above_stream",
        "Parsley.DocSpec.renderHistoryE_none", "Parsley.DocSpec.asBuilt_classic", "Parsley.DocSpec.asBuilt_undeclared",
        "Parsley.DocSpec.asBuilt_reject_acceptable", "Parsley.DocSpec.walkFlag_true_trailer", "Parsley.DocSpec.asBuilt_one_section",
        # follow-up C03d (1): THE GENERATOR LINK for histories of any number of revisions (kinds 0 and 1)
        "Parsley.C04.render_history_loads_partial", "Parsley.C04.renderHistory_mix_wf_partial", "Parsley.C04.hist_links",
        "Parsley.C04.notEdited_of_check", "Parsley.C04.exHistR_simple",
        "Parsley.LoaderE2E.cls_link", "Parsley.LoaderE2E.stm_link", "Parsley.LoaderE2E.mkRev_link", "Parsley.LoaderE2E.xstoreFits_of_count",
        "Parsley.LoaderE2E.renderRevs_saids", "Parsley.LoaderE2E.renderRevs_bytes", "Parsley.LoaderE2E.placeM_plan", "Parsley.LoaderE2E.plan_links",
        "Parsley.LoaderE2E.histFile_bytes", "Parsley.LoaderE2E.histFile_wf", "Parsley.LoaderE2E.render_history_resolve",
        # follow-up C03d (2): hybrid (/XRefStm) sections inside a history, hidden objects included
        "Parsley.C04.newest_wins_history_hybrid", "Parsley.C04.newest_wins_history_hybrid_objs", "Parsley.C04.newest_wins_history_hybrid_spec",
        "Parsley.C04.hiddenClash_false_of_keys_nodup", "Parsley.C04.hybridGen0_section", "Parsley.C04.hybrid_hidden_gen0_excluded",
        "Parsley.C04.vis_hybrid_iff", "Parsley.C04.vis_mentions_same_numbers", "Parsley.C04.exHyb_wf", "Parsley.C04.exHyb_ents",
        "Parsley.LoaderE2E.section_hybrid_from", "Parsley.LoaderE2E.infoOf_dedup_hidden", "Parsley.LoaderE2E.hsec_reads",
        "Parsley.LoaderE2E.HybMixFile.merge_visible", "Parsley.LoaderE2E.HybMixFile.xrefinfo_hybmix", "Parsley.LoaderE2E.load_hybmix",
        "Parsley.LoaderE2E.load_hybmix_objs", "Parsley.LoaderE2E.load_hybmix_spec",
        # follow-up C03d (3): object streams inside a history whose members / containers no later revision mentions
        "Parsley.C04.newest_wins_history_objstm", "Parsley.C04.newest_wins_history_objstm_objs", "Parsley.C04.newest_wins_history_objstm_spec",
        "Parsley.C04.newest_wins_history_mix_of_objstm", "Parsley.C04.objstmRedef_sections", "Parsley.C04.objstm_member_touched_excluded",
        "Parsley.C04.exO_wf", "Parsley.C04.exO_resolve",
        "Parsley.LoaderE2E.msec_reads2", "Parsley.LoaderE2E.untouched_spec", "Parsley.LoaderE2E.stage_merged_objstm", "Parsley.LoaderE2E.objstm_not_xref",
        "Parsley.LoaderE2E.MixFile.xrefinfo_mix2", "Parsley.LoaderE2E.load_mix_core2", "Parsley.LoaderE2E.load_mix_objstm",
        "Parsley.LoaderE2E.load_mix_objstm_objs", "Parsley.LoaderE2E.load_mix_objstm_spec", "Parsley.LoaderE2E.MixFile.WF.toWFo",
        "Parsley.LoaderE2E.TableOf2.written_nodup", "Parsley.LoaderE2E.not_mentioned_iffO",
        # follow-up C03e: (1) generator link for values of any shape, (2) FlateDecode by any conformant encoder, (3) hybrid + object streams, forward /Length in histories
        "Parsley.C04.histSimple_values", "Parsley.C04.render_history_loads_deep_partial", "Parsley.C04.exDog_canon",
        "Parsley.C04.exHistD_simple", "Parsley.C04.stmOK_of_flate_encoder", "Parsley.C04.stmOK_of_flate_encoder_pred",
        "Parsley.C04.FlateStm.toStmOK", "Parsley.C04.FlateRev.toOK", "Parsley.C04.newest_wins_history_mix_anyflate",
        "Parsley.C04.exZMPlan_ok", "Parsley.C04.exZMDict_spells", "Parsley.C04.exZMStm_flate",
        "Parsley.C04.exZMix_wf", "Parsley.C04.exZMix_loads", "Parsley.LoaderE2E.stored_of_layerEnc",
        "Parsley.LoaderE2E.inflate_of_layerEnc", "Parsley.LoaderE2E.stored_decodes", "Parsley.LoaderObjStm.decodesTo_of_stored",
        "Parsley.C04.newest_wins_history_hybrid_objstm", "Parsley.C04.newest_wins_history_hybrid_objstm_objs", "Parsley.C04.newest_wins_history_hybrid_objstm_spec",
        "Parsley.C04.newest_wins_history_hybrid_of_objstm", "Parsley.C04.exclusion_on_all_entries", "Parsley.C04.hybrid_member_row",
        "Parsley.C04.exHO_wf", "Parsley.C04.exHO_resolve", "Parsley.LoaderE2E.load_hybmix_objstm",
        "Parsley.LoaderE2E.load_hybmix_objstm_objs", "Parsley.LoaderE2E.load_hybmix_objstm_spec", "Parsley.LoaderE2E.hsec_reads2",
        "Parsley.LoaderE2E.memberTouchedLater_vis", "Parsley.LoaderE2E.HRev.mem_vis_of_inStream", "Parsley.LoaderE2E.objstm_not_xref_h",
        "Parsley.LoaderE2E.HybMixFile.WF.toWFo", "Parsley.LoaderE2E.HybMixFile.xrefinfo_hybmix2", "Parsley.LoaderE2E.HybMixFile.merge_visible2",
        "Parsley.LoaderE2E.load_hybmix_core2", "Parsley.C04.newest_wins_history_fwd", "Parsley.C04.newest_wins_history_fwd_objs",
        "Parsley.C04.newest_wins_history_fwd_spec", "Parsley.C04.wf_is_fwd", "Parsley.C04.exFwd_wf",
        "Parsley.C04.exFwdX_wf", "Parsley.C04.exFwdR_wf", "Parsley.C04.exFwdM_wf",
        "Parsley.LoaderE2E.load_mix_fwd", "Parsley.LoaderE2E.load_mix_fwd_objs", "Parsley.LoaderE2E.load_mix_fwd_spec",
        "Parsley.LoaderE2E.stage_merged_two_pass", "Parsley.LoaderE2E.objs_ofs_inj", "Parsley.LoaderE2E.placeM_objs_sorted",
        "Parsley.LoaderE2E.msec_reads_sec", "Parsley.LoaderE2E.MixFile.xrefinfo_mix_fwd", "Parsley.LoaderE2E.MixFile.find_tables_inv",
        "Parsley.LoaderE2E.MixFile.WF.toFwd",
        # ... (3c) THE MOST GENERAL HISTORY THEOREM: forward /Length + object streams + hybrid sections; stream objects in the generator link
        "Parsley.C04.newest_wins_history_all", "Parsley.C04.newest_wins_history_all_objs", "Parsley.C04.newest_wins_history_all_spec",
        "Parsley.C04.wfo_is_all", "Parsley.C04.wffwd_is_all", "Parsley.C04.exAll_wf",
        "Parsley.LoaderE2E.stage_merged_two_pass_objstm", "Parsley.LoaderE2E.load_hybmix_all", "Parsley.LoaderE2E.load_hybmix_all_objs",
        "Parsley.LoaderE2E.load_hybmix_all_spec", "Parsley.LoaderE2E.HybMixFile.WFo.toAll", "Parsley.LoaderE2E.MixFile.WFfwd.toAll",
        "Parsley.LoaderE2E.hobjs_ofs_inj", "Parsley.LoaderE2E.hsec_reads_sec", "Parsley.LoaderE2E.wstmOf_ok",
        "Parsley.LoaderE2E.renderObj_stm", "Parsley.C03.exDeepO5_simple",
        # follow-up C03_6 / C04_6 (generator strengthening): the /Length of an ordinary stream stored in an object stream of an older revision
        "Parsley.C04.length_holder_in_objstm_history_witness",
        "Parsley.C04.xrefstm_self_entry_unchecked_history_witness",
    ],
    "partial": {
        "merge_is_newest_wins_partial":
            "FULL STATEMENT WANTED: after loading a history every object identifier resolves to its definition in the newest revision that mentions it, "
            "freed ones are undefined. PROVED for all inputs on which get_xref_info succeeds: the entries kept are exactly the first occurrence of every "
            "(number, generation) along the /Prev chain, newest first (Chain predicate = the sections actually read); if generations are stable per "
            "number, per object NUMBER exactly the newest entry survives, a number whose newest entry is free is not loaded from any offset, and an "
            "in-use one is loaded from its newest offset and no other. NOW COMPOSED WITH THE LOADING STAGE (follow-up C03b, Lemmas/LoaderStage.lean, Props/C04Ctx.lean): "
            "newest_wins_in_context_partial - the statement about the FINAL CONTEXT after parse_objects, from any context left by the walk (stage_from generalises "
            "C03's stage theorem to a non-empty starting context, as left behind by cross-reference streams): newest entry free => the number is defined under no "
            "generation; newest entry in use at o => (n, gen) is bound to what reads at o and no other generation of n is defined; never mentioned => undefined. "
            "newest_wins_classic_chain_partial: for chains of classic tables the side conditions (empty context after the walk, no in-stream entry) are proved from the "
            "chain itself (ClassicAt at every visited offset); newest_wins_written_partial: and the premise ReadsAt is discharged for objects written in any legal "
            "spelling (C02.Spells via LoaderE2E.reads_spelled). Non-vacuity: evaluated on the two-revision file freeStable (fs_chain, fs_walk, fs_reads). "
            "PROVED UNCONDITIONALLY (follow-up C03c; Props/C04HistMix.lean: newest_wins_history_mix, _objs, _spec; all-classic instance Props/C04Hist.lean: newest_wins_history; "
            "two-revision instance Props/C04E2E.lean: newest_wins_two_revisions): for every file 'garbage, header, ANY number of revisions, each EITHER objects + classic table + "
            "trailer (any spelling) OR objects one of which is a cross-reference stream object (any /W, /Index or none, rows plain / Flate stored / Flate + predictor), each "
            "followed by ARBITRARY bytes (e.g. that revision's own startxref / %%EOF), then startxref / %%EOF' that is well formed (MixFile.WF: lexical conditions, no /XRefStm, "
            "no /Encrypt in classic trailers, direct /Length and type-0/1 rows in stream sections, every number once per section, each section lists exactly its revision's "
            "objects at their offsets incl. the stream object, no /Prev in the base, every later /Prev = offset of the previous section, last startxref = newest section, /Root in "
            "the newest, stable generations across all sections, cross-reference stream objects not mentioned by newer sections; all offsets computed from the layout, none "
            "assumed) parse_data accepts, reports the newest root, and per object number the NEWEST section that mentions it decides (in use: bound to the value written "
            "there, no other generation; free: undefined even if older revisions define it; unmentioned: undefined); every cross-reference stream object is bound to its own "
            "value; the final context equals DocSpec.resolve of what the revisions said (_spec). No hypothesis about the walk remains (xrefinfo_mix: get_xref_info = "
            "first-occurrence merge of all sections newest first, fuel sufficient, context = exactly the stream objects; getXrefInfo = ok, Chain, ClassicAt, StableGen X, ReadsAt "
            "are all derived). Non-vacuity exHist2_wf, exHist3_wf (three classic revisions, the last re-creates a freed object), exMix_wf (classic base + stream update with /Prev). "
            "FOLLOW-UP C03d CLOSED THREE GAPS. (1) THE GENERATOR LINK (Props/C04Render.lean; render_history_loads_partial, renderHistory_mix_wf_partial): for ANY number of revisions, each "
            "kind 0 (classic table) or kind 1 (cross-reference stream), chained with PrevMode.auto, the file written by the EXECUTABLE encoder DocSpec.renderHistory - the generator "
            "of the correspondence run - is the byte string of a well-formed MixFile (every offset, /Prev value and startxref the encoder computes is the one the layout demands: "
            "per-revision interface RevLink, proved by cls_link / stm_link for a revision rendered at ANY position with ANY /Prev; composition plan / histFile / histFile_wf), what "
            "the encoder REPORTS (the Said list the judge feeds to DocSpec.resolve) resolves to the same bindings as the layout's description (render_history_resolve), hence "
            "parseData (renderHistory ..) = ok, root = the newest revision's root and the final context = DocSpec.resolve of the encoder's report. No hypothesis about the walk, "
            "the chain or the file remains - only conditions on the REVISION LIST: HistSimple = every revision SimpleRev / SimpleRevX (objects Body.val (canon s) s with s ANY value of the encoder's domain wfDeep - arrays and dictionaries of any nesting, entries in any order, depth <= 50 - "
            "since follow-up C03e lifted the restriction to scalars (Props/C04RenderDeep.lean: render_history_loads_deep_partial, histSimple_values; non-vacuity exHistD_simple: nested values redefined across a "
            "classic / Flate+PNG-Up stream / classic history, loaded to their SORTED forms); and STREAM OBJECTS with a direct /Length and arbitrary data (LoaderE2E.wstmOf_ok; exHistD has one, written by the stream update); _partial now because streams with a referenced /Length are not covered, no object-stream members, no swap / relabel, size bounds; FlateDecode'd rows at most 13 bytes x (objects + frees + 2) "
            "<= 65535), at least one revision, stable generations over all revisions, cross-reference stream objects not mentioned later, no object numbered 0, file < 2^32 bytes. "
            "Non-vacuity exHistR_simple: classic base, Flate + PNG-Up stream update (redefine, add, free), classic update re-creating the freed number - evaluated examples. "
            "(2) HYBRID SECTIONS IN A HISTORY (Props/C04Hyb.lean; newest_wins_history_hybrid, _objs, _spec over HybMixFile = MixFile whose revisions may also be table + trailer /XRefStm -> "
            "stream object in the body, rows of type 0/1): HIDDEN objects allowed (free entry in the table + real entry in the stream; the stream entry decides). The known finding "
            "C03-hybrid-hidden-gen0 is excluded by the DECIDABLE predicate hiddenClash tbl stm (a hidden free entry with the generation of its stream entry): WF asks hiddenClash = false "
            "per hybrid section, stable generations and one mention per section among the VISIBLE entries only; hybrid_hidden_gen0_excluded evaluates the predicate to true on the "
            "witness file hybridGen0 (and false on hybridGen65535), hiddenClash_false_of_keys_nodup relates it to C03's keysNodup. Key lemma infoOf_dedup_hidden: hidden entries can only "
            "shadow hidden entries, so the loading stage sees the merge of the visible entries. Non-vacuity exHyb_wf (classic base + hybrid update hiding object 5 with generation 65535). "
            "(3) OBJECT STREAMS IN A HISTORY (Props/C04ObjStm.lean; newest_wins_history_objstm, _objs, _spec over MixFile with the weaker WFo: type-2 rows allowed): every member (n,0) of "
            "every object stream is bound to the value written in the stream, file-level numbers as before. The known finding C04-objstm-member-touched-later is excluded by the DECIDABLE "
            "predicate memberTouchedLater (a later section mentions a member or container number): WFo asks it to be false; objstm_member_touched_excluded evaluates it to true on the "
            "witness objstmRedef (sections read with the model: objstmRedef_sections). WF is the special case ws = [] (newest_wins_history_mix_of_objstm). Stage lemma stage_merged_objstm. "
            "Non-vacuity exO_wf (stream base with an object stream of two members + classic update touching no member). "
            "FOLLOW-UP C03e CLOSED FOUR MORE. (4) (2)+(3) COMBINED (Props/C04HybObjStm.lean; newest_wins_history_hybrid_objstm, _objs, _spec over HybMixFile.WFo root ws): histories of any length whose plain "
            "cross-reference streams AND whose hybrid /XRefStm streams may have type-2 rows naming members of the object streams ws; a hidden member is listed twice in its hybrid section (free in the table with a generation "
            "other than 0 - noClash -, type-2 row in the stream); the exclusion memberTouchedLater is stated on the VISIBLE entries and proved to take the same value on all entries (exclusion_on_all_entries = "
            "memberTouchedLater_vis); WF is the special case ws = [] (newest_wins_history_hybrid_of_objstm). Non-vacuity exHO_wf (classic base + hybrid update writing object stream 3 with members 11 (hidden) and 12), "
            "exHO_resolve. (5) FORWARD /Length IN A HISTORY (Props/C04Fwd.lean; newest_wins_history_fwd, _objs, _spec over MixFile.WFfwd root dep): body pieces read outright or as soon as their holder is bound "
            "(PieceOK dep); `holders`: the holder of every LOADED dependent stream resolves in the merged table to a plain integer object (in an older, the same or a newer revision; a later rewrite with the same "
            "integer is fine, a later free falsifies the hypothesis); stage_merged_two_pass runs both passes of parse_objects on the first-seen-wins merged table; objects are identified by offset (objs_ofs_inj); "
            "MixFile.WF is the special case dep = none (wf_is_fwd). Non-vacuity exFwd_wf (holder after the stream in the base), exFwdX_wf (holder in an OLDER revision: second pass across revisions), exFwdR_wf "
            "(holder rewritten by the update), exFwdM_wf (cross-reference stream update). (6) FlateDecode BY ANY CONFORMANT ENCODER (Props/C04AnyFlate.lean): the storage predicate inside StmOK / StmOK2 / HybOK / "
            "WCont.Data now admits ANY zlib stream the modelled inflate decodes (Stored.flateAny / flatePredAny), in particular every stored / fixed-Huffman / dynamic-Huffman stream of C06's specification encoders; all "
            "history theorems hold unchanged; stmOK_of_flate_encoder(_pred), newest_wins_history_mix_anyflate (FlateRev), witness exZMix_loads: the update's cross-reference stream is a fixed-Huffman + stored + "
            "dynamic-Huffman zlib stream. (7) VALUES OF ANY SHAPE in the generator link (see (1)). "
            "(8) THE MOST GENERAL HISTORY THEOREM (Props/C04All.lean; newest_wins_history_all, _objs, _spec over HybMixFile.WFall root ws dep): (4) and (5) COMBINED - histories of any length whose revisions are classic / "
            "cross-reference stream / hybrid, with object streams (hidden members included) AND streams taking their /Length from holders loaded later (second pass, also across revisions; a CONTAINER may itself have a forward "
            "/Length); stage_merged_two_pass_objstm = both passes + object-stream pass on the merged visible table; WFo (dep = none) and WFfwd (embedded by MixFile.toHyb) are special cases (wfo_is_all, wffwd_is_all). "
            "Non-vacuity exAll_wf: exHO + a stream object in the hybrid update whose holder lives in the base revision. "
            "STILL OPEN: /Encrypt in a history with stream sections, holders that are MEMBERS of object streams (the real loader reads object streams after both passes, so such a stream stays unread), "
            "the generator link for hybrid revisions (kind 2), object-stream members and streams with a referenced /Length. "
            "ENCRYPTION: histories that declare /Encrypt are judged on the real code by DocSpec.acceptable (refused, or exactly DocSpec.resolve of the chain; 8 generator families). KNOWN FINDING "
            "encrypt-declared-below-streams (witness Props/C04Enc.lean): a trailer that declares BELOW a stream section is read after that stream was accepted - the load is accepted and every "
            "object-stream member is silently undefined, which breaks the statement literally. Observation, not a finding: a declaration only in a stream dictionary is never consulted and the "
            "history loads exactly (encrypt_in_stream_dict_ignored_observation). "
            "EXCLUDED (real defects, known findings with witness theorems, not proof gaps): histories in which a number changes generation (#29), object-stream "
            "members or containers mentioned again later (#30: memberTouchedLater), a hidden object's free entry with the generation of its stream entry (#31: hiddenClash).",
        "(known finding 4)": "length-holder-in-objstm (see C03): a history in which an ordinary stream takes its /Length from an integer stored in an object stream (of the same or of another revision) is refused; "
            "witness length_holder_in_objstm_history_witness (Props/C04LenMember.lean); decided on the case by holdersInObjStm (Driver/C03.lean)",
        "(fuel)": "xrefLoop takes a fuel |file|+1; xrefLoop_fuel_stable/getXrefInfo_fuel_stable: more fuel never changes the result, getXrefInfo_panic_origin: "
            "every panic outcome originates in a component parser, never in the fuel branch; chain_length_bounded: at most |file| sections are read",
    },
    "n": {"quick": 1000, "thorough": 20000},
    "exhaustive": {"quick": False, "thorough": False},
    "shrink": False,
    "rule": "`emp` family (follow-up to seed C04_13): EMPTY SUBSECTIONS (`N 0`) inserted into the classic tables (plain and hybrid) of 2- and 3-revision histories at every position (one leading, two leading, one / two / three in a row after the first subsection, before the last subsection, trailing, everywhere), in the base's table / the newest update's / every revision's, the subsections after them redefining, freeing and adding objects - an empty subsection contributes no entry, oracle `resolve`; all 48 combinations x 3 documents (corpus/C04/empty_subsections.case: hand-built minimal instances); "
            "`zero` family (follow-up to seed C04_11): object number 0 as an ORDINARY in-use object and boundary object numbers, added or redefined in the base or in an update, classic table and cross-reference stream (type 1 and type 2 rows), all 180 combinations; "
            "corpus (hand-built: redefinition, free with stable generation, added object + moved root, /Prev to itself, /Prev beyond the file, two sections "
            "pointing at each other; smallest generated instances of both known findings) + per seed one history from the spec-side generator: base "
            "revision as in C03 (any layout) followed by 1-3 (thorough: up to 7 for a third of the cases) incremental updates, each with 1-3 edits (redefine "
            "/ free / re-add an existing number, each number at most once per revision) plus 0-2 new objects (optionally in a new object stream), its own "
            "layout (table / stream / hybrid in any mix), the root optionally moved to another live object; /Prev written 10 digits wide. 8 families by "
            "case index: 0-3 stable generations and untouched object-stream members; 4 generations may change (free with bump, re-use with next "
            "generation); 5 object-stream members may be redefined or freed later; 6 one /Prev aimed at its own section, a newer section (cycle) or "
            "|file|+{0,1,1000} (must be rejected); 7 the newest /Prev skips revisions (the skipped ones must not count). Every 8th case index a `big` history: two revisions whose object numbers agree modulo 65536 (5 / 65541, 7 / 196615) or whose "
            "generation exceeds 65535 (11 65536 next to 12 0, cross-reference-stream base) - the update adds the large ones / both in the base and the update redefines a small one / "
            "large ones in the base and the update adds the small ones; every identifier must be its own object (catches a merge keyed by a truncated identifier). Every 16th a "
            "one-revision `w0` file (cross-reference stream without a type field, plain or hybrid; see C03). Every 4th case index an `ench` history of 2-4 revisions (thorough: up to 6 for a third) in which revisions DECLARE ENCRYPTION "
            "(/Encrypt <reference | dictionary> in a trailer and / or a cross-reference stream's dictionary; encoder DocSpec.renderHistoryE, proved equal to renderHistory without declarations), 8 families: "
            "0 classic tables only, some trailers declare; 1 the NEWEST section is a classic table that declares and an older one is / has a cross-reference stream (the code refuses); "
            "2 a classic table declares, everything below it classic, above it sections with cross-reference / object streams (the code accepts and skips the object streams - known class "
            "encrypt-declared-below-streams when members go missing); 3 every revision declares where its layout allows; 4 only cross-reference stream dictionaries declare (never consulted: "
            "loads exactly); 5 layouts, declaring revisions and placements all random; 6 the declaring revision is NOT on the /Prev chain (skipped: must load as a plain history, refusal not allowed); 7 one hybrid "
            "section declares in its trailer / its /XRefStm stream's dictionary / both, at any position. Oracle = DocSpec.acceptable: a chain that declares may be REFUSED or must load EXACTLY DocSpec.resolve "
            "of the chain; accepted with objects missing / extra / wrong is bad; the known class is reported only for a case of that shape (as-built rule ends with the flag up) whose output is exactly the "
            "load without the object-stream members. corpus/C04/encrypted.case: hand-built declared-above-stream history (`decl`), undeclared controls, the finding's witness file. "
            "LONG HISTORIES (added after the missed seed C04_6: a cap of 64 on the number of sections): for every seed a fixed sweep of `long` cases - chains of 1, 2, ..., 40 sections (every length) and 63, 64, 65, 66, 100, 128, 129, 256, 300, 1000 "
            "(thorough: + 5000) sections: base revision (objects 1 = root, 2, 3) + tiny incremental updates, update i redefining object 2 or 3 and adding object 3 + 2 i, sections all classic tables / all cross-reference streams / alternating / random by seed % 4, "
            "so that any threshold on the number of sections, revisions or offsets in the cycle set is crossed; oracle DocSpec.resolve (every update's redefinition and addition visible); chains above 129 (thorough: 300) sections are oracle-only (`nomodel`: the byte-list "
            "model needs time quadratic in the file size), the shorter ones also run through the model. Every 3rd case index a `lenh` history (added after the missed seed C03_6): 2-4 revisions of random layouts in which one revision (cross-reference stream or hybrid) writes an "
            "object stream CONTAINER (family 1: three) and an ordinary stream whose /Length holders are written by an OLDER revision (later in cross-reference order: second pass across revisions), the SAME revision (number order x file order) or a NEWER one, optionally "
            "written again by the newest revision with the same integers; 288 combinations = relation x number order x family (as C03 `lenc`, incl. holders that are members of another object stream: known class length-holder-in-objstm for ordinary streams, refused-or-exact for containers) "
            "x 2-4 revisions x file order x rewrite; every member must be defined with its value. "
            "SIZE SWEEP of the bytes AROUND a history (`garh`, added after the missed seed C03_7; sibling of the trailing-side seed C04_5): for every seed, independent of n, every length of C03's sweep (0..40, 63-65, 127, 128, 255, 256, 511, 512, 1000, 1019-1021, 1023-1025, 2047, 2048, 4095-4097, 8192, 65535, 65536, 70000; thorough + 1000000, three rounds) "
            "of filler (kinds as in C03 `garb`) before the header, in the gap before the LAST startxref, after the LAST %%EOF - one place at a time and all three at once - around a well-chained history of 2-4 revisions (families 0-3 and 7 = a /Prev skipping revisions, rotating with the size); every /Prev and offset is relative "
            "to the header, so the oracle is DocSpec.resolve of the chain + the reported header offset = length of the leading filler; 261 cases per seed; corpus/C04/garbage_size_sweep.case (hand-built two-revision histories behind 1019 / 1020 / 1024 / 1025 bytes, with 1020 / 1025 trailing and 1024 gap bytes). "
            "REDEFINITION INSIDE A NEW OBJECT STREAM (`redef`, family 5 made systematic after the missed seed C04_8: the live object streams replayed in REVERSE object-number order): for every seed all 120 combinations of: base revision (cross-reference stream or hybrid) with plain objects 1, 2 and object stream 20 holding 11, 12, 13 in random order; a later revision writes a NEW object stream "
            "numbered ABOVE (30) / BELOW (10) the old one with new values for the first / last / middle member of the old stream, ALL of them (old stream fully superseded: not live any more) or the first two; the new stream holds only those / a brand-new member 14 before them / after them; history = base + update / + a plain update after it / a plain update before it / a SECOND redefinition in a third container numbered on the other side (5 / 35); "
            "oracle DocSpec.resolve (every member resolves to the newest revision mentioning it). The unchanged code replays every live object stream whole in ascending number order (known finding objstm-member-touched-later); the judge now keeps that class ONLY for the exact outcome the as-built rule predicts (Driver/C04.lean replayDefs / replayExpected: entries newest first per (number, generation), "
            "file-level objects defined, every live container replayed whole in ascending order, a member already defined overwrites and ends the replay of its stream - stated over what the encoder wrote, independent of the loader model) - a case of that shape with ANY OTHER outcome (another surviving definition, a rejection) is `wrong-merge` and reported; the same refinement applies to the random family 5 `hist` cases; "
            "corpus/C04/objstm_member_redefined_in_new_stream.case (hand-built: the seed's demo and three siblings on which the unchanged code is right), two `redef` lines in known_objstm-member-touched-later.case. "
            "IDENTITY MISMATCH BY RETARGETING ACROSS REVISIONS (`reth`, after the missed seed C03_8, see C03 `ret`): histories of 2 and 3 revisions (layouts at random; revision i writes 2 again, a plain object, a stream with direct /Length and a stream with forward referenced /Length + holder) in which ONE entry - of B in the section of revision bRev, B an object of that revision or a number no object carries - "
            "carries the offset of an object A of revision aRev: every (entry, object) pair, i.e. A in a NEWER revision (walked before B's entry), an OLDER one (after it) or the same (number order), incl. superseded definitions of 2; plus the other targets (alt offset, into the object, endobj, every section, /XRefStm stream, header); hybrid sections list A's / B's entry in table or /XRefStm stream; offsets of later revisions are found by re-rendering until stable; "
            "must be REJECTED (decided on the bytes), except entries of 2 below the newest revision, which are shadowed: controls that must load exactly; 589 cases per seed (thorough: three rounds); corpus/C04/retarget_across_revisions.case. "
            "SELF ROWS in histories (41 more `reth` cases per seed): the row the cross-reference stream object 100 + i of revision i has for itself, aimed at objects of every revision (older, same, NEWER), into an object, at an endobj, at the header - known class xrefstm-self-entry-unchecked (see C03) for exactly that shape and exactly the exact load; when revision i is a classic table the added entry is an ordinary mismatch and must be rejected; "
            "corpus/C04/known_xrefstm-self-entry-unchecked.case (the two witness histories of Props/C04SelfRow.lean as `selfrow` lines). "
            "TIGHTLY PACKED OBJECT STREAMS in histories (`packh`, after the missed seed C03_9, see C03 `pack`): 96 histories per seed - base revision with the packed container 20 (members 11-17), an update (cross-reference stream or hybrid) redefining plain object 2 and adding a second packed container 40 (members 31-37) of another layout variant, optionally a third plain revision; all 14 members must be defined; corpus/C04/objstm_members_back_to_back.case. "
            "Every 3rd history also with one "
            "corruption (correspondence and no panic). Oracle = DocSpec.resolve over the revisions on the chain. Classifiers decided on the case: "
            "'generation-changed' = some number is mentioned with two generations; 'objstm-member-touched-later' = a member number is mentioned by a later "
            "revision AND the output is exactly what the as-built replay rule predicts; anything else that disagrees is 'wrong-merge' and reported. non-trivial = history of >= 500 bytes or corpus case; distinct by hash",
    "trusted_base": COMMON_TB + [
        "modelled, not verified: ParseBuffer views as byte lists with a view-relative cursor (C17), BTreeSet as a membership list",
        "reused component models with their own correspondence checks: Prim/Obj (C02/C15/C16), Indirect (C05), Xref (C13), ObjStm (C14), Filters/Inflate (C06), Predictor (C07)",
        "hook (feature verif): exit_log! unwinds with VerifExit instead of process::exit(1); PDFObjContext::verif_ids lists the defined identifiers",
    ],
    "assumptions": [
        "histories that declare encryption are not really encrypted (the loader never decrypts; only the declarations and their positions on the chain matter)",
        "the harness needs the hook patch pending_fixes/C03-00-hook-unwinding-exit-log.patch applied to /repo",
        "updates do not edit infrastructure objects (length holders, object-stream containers, cross-reference stream objects)",
    ],
}
LEVEL = {
    "design_ref": "DESIGN.md 3.C03/C04",
    "technique": "Lean 4 theorems about the /Prev loop of the loader model (induction on fuel with a chain predicate, list lemmas for the first-seen-wins "
                 "merge, pigeonhole bound) + differential correspondence with the real parse_data + declarative oracle on generated edit histories",
    "text": "Machine-checked for ALL inputs: a /Prev chain that revisits an offset (itself or any section already read) or points at or beyond the end "
            "of the file is rejected, an accepted chain reads at most |file| sections and extra fuel never changes the result; the reported root is "
            "the newest section's /Root; the entries kept are the first occurrence of every (number, generation) newest-first, and under stable "
            "generations exactly the newest entry per object number survives (freed numbers are not loaded, in-use ones are loaded from their newest "
            "offset). The two cases the code gets wrong are recorded as known findings with executable classifiers and witness theorems evaluated on "
            "concrete files: a free entry with the standard's generation bump leaves the object defined (#29), and an object-stream member redefined "
            "later is bound to its OLD value while its stream neighbours are lost (#30). END-TO-END THEOREM newest_wins_history_mix: for every well-formed history of ANY number "
            "of revisions encoded with classic tables or cross-reference streams in any mix (declarative layout MixFile, all offsets computed from the layout, stable generations) parse_data accepts, reports the newest "
            "root and the final context equals the oracle DocSpec.resolve of what the revisions said. THE GENERATOR LINK render_history_loads_partial: the file the executable encoder DocSpec.renderHistory writes for "
            "ANY list of simple revisions (kinds 0 / 1, object values of any shape the encoder can spell, stable generations) is such a MixFile and the loader's context is DocSpec.resolve of the encoder's own report - the "
            "judge's oracle on the same case. Also proved end to end: histories with HYBRID sections incl. hidden objects (newest_wins_history_hybrid; the shape of known finding #31 excluded by the "
            "decidable predicate hiddenClash, true on the witness) and histories with OBJECT STREAMS whose members and containers no later revision mentions (newest_wins_history_objstm; #30 "
            "excluded by the decidable predicate memberTouchedLater, true on the witness), both combined (newest_wins_history_hybrid_objstm: hybrid sections hiding object-stream members), histories whose streams take "
            "their /Length from holders loaded later, also across revisions (newest_wins_history_fwd), ALL of these at once (newest_wins_history_all), and cross-reference / object streams FlateDecode'd by ANY conformant encoder incl. dynamic Huffman "
            "(newest_wins_history_mix_anyflate). Changing generations, touched members and the remaining layout combinations are decided on the real code by the "
            "oracle over generated histories (add / redefine / free, mixed table, stream and hybrid sections, all /Prev targets). "
            "THE ENCRYPTED FLAG ALONG THE CHAIN (Props/C04Enc.lean): a classic section that declares /Encrypt above a non-table section makes the walk refuse (or use none of its entries) - "
            "declared_above_stream_adds_nothing; the mirror image (declaration below the streams) is accepted with the object streams skipped and the members undefined: known finding with witness; histories "
            "declaring encryption in 8 families (newest / older / hybrid / off-chain revision, every layout mix) must be refused or load exactly.",
}
