CFG = {
    "modules": ["Parsley.Props.C05", "Parsley.Props.C05Whole"],
    "theorems": [
        "Parsley.C05.stream_content_framed_iff", "Parsley.C05.stream_content_ok_framed", "Parsley.C05.framed_content",
        "Parsley.C05.stream_content_rejects", "Parsley.C05.stream_no_resync",
        "Parsley.C05.length_resolution", "Parsley.C05.lenRes_functional",
        "Parsley.C05.stream_framing", "Parsley.C05.length_error_propagates",
        "Parsley.C05.indirect_never_panics", "Parsley.C05.duplicate_id_rejected", "Parsley.C05.accepted_registers",
        "Parsley.Indirect.streamContentP_closed", "Parsley.Indirect.closeLen_iff",
        # whole parser: locality of the head, accept iff framed, no resynchronisation, white-space grammar
        "Parsley.IndirectLocal.parseObjB_ext", "Parsley.IndirectLocal.parseObjB_local", "Parsley.IndirectLocal.parseObj_local",
        "Parsley.IndirectLocal.indirectHead_local", "Parsley.IndirectLocal.indirectHead_not_stream",
        "Parsley.C05.streamHead_of_parse", "Parsley.C05.parse_of_streamHead",
        "Parsley.C05.indirect_stream_framing", "Parsley.C05.indirect_stream_no_resync",
        "Parsley.C05.parseIndirect_window", "Parsley.C05.indirect_stream_no_resync_outcome",
        "Parsley.C05.indirect_length_error", "Parsley.C05.streamHead_defs",
        "Parsley.IndirectWs.wsEOL_accepts_exactly", "Parsley.IndirectWs.endobj_follows_iff",
        "Parsley.C05.endobj_gap_grammar", "Parsley.C05.endobj_follows_grammar",
    ],
    "partial": {
        "(head of the object, declaratively)":
            "indirect_stream_framing describes everything from the payload on declaratively (any n bytes, [CR][LF], endstream, "
            "WsRun, endobj) and constrains the head `[ws] num gen obj <<dict>> [ws] stream EOL` to be a property of the bytes "
            "in front of the payload alone (StreamHead = the head parser run on that prefix as a buffer of its own; locality "
            "lemmas streamHead_of_parse / parse_of_streamHead); a grammar of the head's bytes is the subject of C02 "
            "(spell_parse), not restated here",
    },
    "n": {"quick": 1500, "thorough": 60000},
    "exhaustive": {"quick": False, "thorough": True},
    "rule": "corpus (17 hand-built + 25 sampled scenes + 35 wide-literal scenes + 30 cases on restricted views + 42 minimal length-target scenes + 83 identifier-boundary cases); "
            "EVERY case below is run twice: on a plain ParseBuffer and (case tag `vw`) on a RESTRICTED VIEW whose window is the case's buffer inside a larger allocation - bytes in front of the window "
            "1 / 7 / 11 / 1000 (also 0, 2, 3, 5, 13, 64; a header and complete objects, or random bytes) x chain of restrictions {RestrictView, RestrictViewFrom, From then View, View then View with junk "
            "on both sides of the inner window, View then From, View starting at 0 then From, View-From-View} x bytes behind the window that CONTINUE the scene {filler up to a declared length that runs beyond the "
            "window followed by `endstream endobj`, the cut-off rest of a truncated scene, more endstream/endobj text and whole objects, nothing} (periods 16 x 7 x 5, pairwise coprime: all 560 combinations "
            "within any 560 consecutive cases); expectation = the expectation on the window's bytes alone (offsets, spans, cursors and StreamContentT.start are cursors of the view the parser was given; nothing is "
            "re-based to the allocation, nothing outside the window is read); plus cut windows: 30 valid one-stream scenes with the view ending at every byte position inside the object, the rest of the object lying "
            "behind the view (thorough: every position; quick: every 4th and the last 20); number tokens outside the i64 range (oracle Spec/FramingWide.lean + Spec/NumLit.lean: such a token is a Real "
            "or, beyond i128, no object - as a declared length it is invalid, never reduced): per payload 48 literals k*2^64+t and -(k*2^64-t) whose low 64 bits are the payload length "
            "or a neighbour (k in 1,2,3,2^31,2^62,2^63-1,2^64,2^64+1; t in len,len+1,len-1) + 27 boundary literals (+-(2^63-1), +-2^63, -2^63-1, 2^63+len, +-(2^64-1), +-2^64, +-(2^32+len), +-10^19, +-10^30, "
            "+-(2^127-1), +-2^127, 2^128+len, 10^39) x {direct (plain / `+` / leading zeros / `-`), value of the object referenced by /Length (defined before), forward reference then re-parse}, "
            "all with valid framing so that the verdict depends on the length alone; plus numbers above 2^63-1 as object number / generation of the reference and of the `n g obj` header "
            "(quick: 4 payloads, thorough: 10); "
            "IDENTIFIER BOUNDARIES (an identifier is the PAIR (object number, generation), each component anywhere in 0 .. 2^63-1; look-up by the exact pair): generations {0,1,65535,65536,65537,2^31,2^32,2^48,2^63-1} x "
            "object numbers {0,1,2^16,2^31,2^32,2^47,2^48,2^48+1,2^63-1}, all 81 identifiers in every identifier position (the `/Length n g R` reference while undefined -> needs more context, then defined, then the stream re-parsed -> accepted; "
            "the stream object's own header, also under generation g+1), and every PAIR (a, b) of distinct identifiers that collide under a narrower key - packings (n<<k)|g and (n<<k)+g into a u64 for k = 16, 32, generation cut to 16 / 32 bits, "
            "number cut to 16 / 32 / 48 bits - taken over the 81 boundary identifiers and 21 identifiers built to hit (7,0) / (7,1) such as (6,65536), (7,65536), (7,2^32), (7+2^32,0), (7+2^48,0): per pair {only b defined, /Length a R -> needs more context; "
            "only a defined, /Length b R -> the same; both defined with different values in either order -> no duplicate, each keeps its value, exactly one frames the data; the stream object itself carries a and its length is object b -> accepted, no duplicate; "
            "forward: /Length a R with only b defined, then a, then the stream again} (quick: 1 payload, every second forward case; thorough: 3 payloads); "
            "the object referenced by `/Length 7 0 R`, of EVERY kind (values: Spec/FramingKinds.lean; expectation: Framing.resolve = the executable LenRes, no new clause), each DEFINED in the context before the stream is parsed "
            "and, second variant, after a first parse of the stream (needs more context) followed by a re-parse under another number: integers (len, len+1, len+7, -len, -(len+1), 2^63-1, -2^63, 2^63, 2^64+len, -(2^64-len), 2^127+len), "
            "reals `len.0` `len.5` `-len.0` `+len.00`, true, false, null, name `/len`, literal string `(len)`, hexadecimal string, array `[len]`, dictionary `<</Length len>>`, the seven values of the older table, "
            "a stream object of that length, and a REFERENCE: chains 7 -> 8 -> ... of 2..5 references (defined in ascending and in descending order) ending in the integer len / len+1 / an undefined object / the real len.0 / a name; "
            "7 0 -> 8 1 with (8,1) = len or only (8,0) defined; 7 0 -> 7 1 = len; a reference to the stream object being parsed; cycles (7 -> 7, 7 -> 8 -> 7 in both orders, a 3-cycle, 7 -> 8 -> 9 -> 8, 7 -> 8 -> 8) "
            "- 83 shapes x 2 variants per payload (quick: 4 payloads, the cyclic shapes for 2 of them; thorough: 10), valid framing throughout; expected: accepted only when (7,0) is a non-negative integer that frames the data, "
            "`needs more context` only when (7,0) ITSELF is undefined, rejected with another error otherwise - a reference is not an integer and is not followed, whatever its chain ends in "
            "(an implementation that recurses on a cycle: crash:<rc> / hang recorded for the case, the run continues); systematic grid: 10 payloads (benign, `endstream endobj xx`, LF endstream LF endobj LF, "
            "an embedded complete stream object, binary with CR LF at both edges, empty, CR, ...) x declared length in {=, +1, +2, +1000, 2^63-1, -1, -n, n-1, 2, 0} "
            "x 6 spellings after `stream` (LF, CRLF, CR, none, SP LF, LF CR) x 7 before `endstream` (none, CR, LF, CRLF, SP, LF LF, CR CR) "
            "x {direct, backward reference, forward reference then re-parse} (thorough: full grid; quick: every 5th point plus half of the all-valid sub-grid); "
            "random scenes of 1-4 indirect objects over 4 identifiers (streams with direct/referenced/missing/non-integer lengths, one direct length in five and one length target in five written as 2^64+len / 2^126-len, escaped `/Len#67th` keys, "
            "4x4 extra dictionary entries in 3 orders, 9 whitespace/comment spellings per gap, defective endstream/endobj keywords; plain objects as length targets - one in five a reference to an identifier of the pool, so that chains and cycles of references arise, one in five another kind of Spec/FramingKinds.lean; "
            "identifier collisions), each followed by a one-byte mutation / deletion / insertion / truncation of its text (raw case). "
            "non-trivial = a stream whose payload contains endstream/endobj or begins/ends with CR/LF, or whose declared length differs from the payload length, "
            "or is negative, by reference, missing or not an integer, or any object with a number written outside the i64 range; raw: the mutated text still contains `stream`; a case on a view: the case is non-trivial and the window is a proper part of the allocation (distinct by case hash)",
    "trusted_base": COMMON_TB + [
        "modelled, not verified: ParseBuffer primitives (peek/exact/check_prefix/extract/set_cursor_unsafe) as list functions on a whole buffer; a restricted view is modelled by its window "
        "(the model of a `vw` case is the model of the case on the window's bytes, after checking that the chain of RestrictView / RestrictViewFrom steps selects that window by the bounds rules of transforms.rs; "
        "that ParseBuffer's primitives on a view behave like those of a buffer holding the window is C17's subject) - the correspondence run itself exercises the real parser on real views; "
        "BTreeMap<ObjectId,_> insert/get as a sorted association list with the lexicographic order of (usize,usize); Rc sharing ignored",
        "reused, proved elsewhere: token-parser and object-parser models (Model/Prim, Model/Obj; C15 LocOK, C16 parseObjB_good)",
        "64-bit usize: i64 -> usize conversion succeeds iff the value is >= 0",
        "oracle of the length-target scenes: Spec/FramingKinds.lean (spelling and value of a plain object of each kind: reals, booleans, null, name, strings, array, dictionary, reference) on top of Spec/FramingWide.lean; "
        "what a `/Length n g R` to such an object means is Framing.resolve, unchanged",
        "oracle of the wide-literal scenes: Spec/FramingWide.lean over Spec/NumLit.lean (what a point-free number token denotes); the model is proved to compute NumLit.denote on "
        "every number token (Parsley.C02.number_token_denotes, checked under C02); on scenes written inside the i64 range the judge checks at run time that this oracle and the original "
        "Framing.expectScene agree (class `oracle-disagreement`)",
    ],
    "assumptions": [
        "theorems: the buffer is a byte list with the cursor inside it (an unrestricted ParseBuffer, or by C17 the window of a view); correspondence: plain buffers and restricted views of every shape listed in the rule; the context satisfies cur_depth <= max_depth and its map is a BTreeMap (sorted)",
        "eol_after_stream_content is false in every context the crate can build (private field, no setter); theorems are proved for both values, the correspondence runs with false",
    ],
}
LEVEL = {
    "design_ref": "DESIGN.md 3.C05",
    "technique": "Lean 4 theorems over an executable model of IndirectP::parse_internal / StreamContentP / PDFObjContext (closed form of the stream-content "
                 "parser by position-shift lemmas; prefix locality of the object parser by truncation + extension lemmas) + differential correspondence with parse_pdf_indirect_obj on generated scenes, judged by a declarative oracle",
    "text": "Machine-checked proof, for all buffers, cursors, declared lengths, payload bytes and contexts, that StreamContentP succeeds exactly when the buffer is "
            "framed `stream` (LF|CRLF) <n bytes, whatever they are> [CR][LF] `endstream` and then returns exactly those n bytes with start/size as reported; that "
            "replacing the n data bytes by any other n bytes changes only the returned content (no resynchronisation); that the length lookup computes the declarative "
            "relation (missing/negative/non-integer/reference to non-integer => guard error, undefined reference => InsufficientContext, reference to integer => it); that "
            "parse_internal on a stream object succeeds iff length resolves, framing holds, endobj follows and the identifier is new; that no panic site is reachable; and "
            "that a duplicate identifier is rejected after BTreeMap::insert has replaced the old binding. Lifted to the WHOLE parser parse_pdf_indirect_obj by a proved "
            "locality lemma for the object parser (truncation + extension: if two buffers agree up to the end of `stream` EOL, the head `n g obj <<dict>>` parses identically; "
            "every token parser, number/reference look-ahead, arrays, dictionaries, all nesting budgets): indirect_stream_framing (a stream object is returned iff the buffer is "
            "head ++ n arbitrary bytes ++ [CR][LF] endstream ++ white space ++ endobj, length resolving to n directly or through the context, identifier new), "
            "indirect_stream_no_resync (replacing the n data bytes of an accepted object by ANY n bytes changes only the content field: same id, dictionary, start/size, spans, cursor) "
            "indirect_stream_no_resync_outcome (for every outcome, accepted or rejected: same error kind and cursor, or same object up to the content field) "
            "and indirect_length_error (an unresolved length is the result of the whole call, whatever follows the head). The white space "
            "between `endstream` and `endobj` has a declarative grammar (Gap / WsRun: white-space bytes and LF-terminated comments) and the token-level WhitespaceEOL is proved to accept exactly it. "
            "The model is tied to parse_pdf_indirect_obj by a correspondence run "
            "(value, start/size/content, spans, cursor, error kind, depth delta, context look-ups) on systematic and random scenes with keyword-laden payloads, each run on a plain buffer and again on a restricted view "
            "(RestrictView / RestrictViewFrom / views of views; junk in front of the window, scene-continuing text behind it), where the result must be that of the window's bytes alone.",
}
