CFG = {
    "modules": ["Parsley.Props.C05"],
    "theorems": [],
    "n": {"quick": 1500, "thorough": 60000},
    "exhaustive": {"quick": False, "thorough": True},
    "rule": "TODO",
    "trusted_base": COMMON_TB + [],
    "assumptions": [],
}
LEVEL = {"design_ref": "DESIGN.md 3.C05", "technique": "TODO", "text": "TODO"}
