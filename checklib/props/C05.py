CFG = {
    "modules": ["Parsley.Props.C05"],
    "theorems": [
        "Parsley.C05.stream_content_framed_iff", "Parsley.C05.stream_content_ok_framed", "Parsley.C05.framed_content",
        "Parsley.C05.stream_content_rejects", "Parsley.C05.stream_no_resync",
        "Parsley.C05.length_resolution", "Parsley.C05.lenRes_functional",
        "Parsley.C05.stream_framing", "Parsley.C05.length_error_propagates",
        "Parsley.C05.indirect_never_panics", "Parsley.C05.duplicate_id_rejected", "Parsley.C05.accepted_registers",
        "Parsley.Indirect.streamContentP_closed", "Parsley.Indirect.closeLen_iff",
    ],
    "partial": {
        "(stream_no_resync at the level of parse_pdf_indirect_obj)":
            "stream_no_resync is proved at full strength for StreamContentP (any head, any two n-byte windows, any tail). "
            "Lifting it to the whole indirect-object parser needs a locality lemma for the object parser (the parse of "
            "`n g obj <<dict>>` does not read beyond the `stream` keyword), which is not proved; stream_framing gives the "
            "equivalent statement relative to the parsed head (its right-hand side mentions the payload only through Framed), "
            "and the correspondence run exercises keyword-laden payloads end to end",
        "(endobj follows)":
            "the white space between `endstream` and `endobj` is described by the token-level model wsEOL (C15/C02), not by a "
            "separate declarative grammar; the oracle uses an independent spec-side skipWs",
    },
    "n": {"quick": 1500, "thorough": 60000},
    "exhaustive": {"quick": False, "thorough": True},
    "rule": "corpus (17 hand-built + 25 sampled scenes); systematic grid: 10 payloads (benign, `endstream endobj xx`, LF endstream LF endobj LF, "
            "an embedded complete stream object, binary with CR LF at both edges, empty, CR, ...) x declared length in {=, +1, +2, +1000, 2^63-1, -1, -n, n-1, 2, 0} "
            "x 6 spellings after `stream` (LF, CRLF, CR, none, SP LF, LF CR) x 7 before `endstream` (none, CR, LF, CRLF, SP, LF LF, CR CR) "
            "x {direct, backward reference, forward reference then re-parse} (thorough: full grid; quick: every 5th point plus half of the all-valid sub-grid); "
            "random scenes of 1-4 indirect objects over 4 identifiers (streams with direct/referenced/missing/non-integer lengths, escaped `/Len#67th` keys, "
            "4x4 extra dictionary entries in 3 orders, 9 whitespace/comment spellings per gap, defective endstream/endobj keywords; plain objects as length targets; "
            "identifier collisions), each followed by a one-byte mutation / deletion / insertion / truncation of its text (raw case). "
            "non-trivial = a stream whose payload contains endstream/endobj or begins/ends with CR/LF, or whose declared length differs from the payload length, "
            "or is negative, by reference, missing or not an integer; raw: the mutated text still contains `stream` (distinct by case hash)",
    "trusted_base": COMMON_TB + [
        "modelled, not verified: ParseBuffer primitives (peek/exact/check_prefix/extract/set_cursor_unsafe) as list functions on a whole buffer (views: C17); "
        "BTreeMap<ObjectId,_> insert/get as a sorted association list with the lexicographic order of (usize,usize); Rc sharing ignored",
        "reused, proved elsewhere: token-parser and object-parser models (Model/Prim, Model/Obj; C15 LocOK, C16 parseObjB_good)",
        "64-bit usize: i64 -> usize conversion succeeds iff the value is >= 0",
    ],
    "assumptions": [
        "the buffer is an unrestricted ParseBuffer and the cursor is inside it; the context satisfies cur_depth <= max_depth and its map is a BTreeMap (sorted)",
        "eol_after_stream_content is false in every context the crate can build (private field, no setter); theorems are proved for both values, the correspondence runs with false",
    ],
}
LEVEL = {
    "design_ref": "DESIGN.md 3.C05",
    "technique": "Lean 4 theorems over an executable model of IndirectP::parse_internal / StreamContentP / PDFObjContext (closed form of the stream-content "
                 "parser by position-shift lemmas) + differential correspondence with parse_pdf_indirect_obj on generated scenes, judged by a declarative oracle",
    "text": "Machine-checked proof, for all buffers, cursors, declared lengths, payload bytes and contexts, that StreamContentP succeeds exactly when the buffer is "
            "framed `stream` (LF|CRLF) <n bytes, whatever they are> [CR][LF] `endstream` and then returns exactly those n bytes with start/size as reported; that "
            "replacing the n data bytes by any other n bytes changes only the returned content (no resynchronisation); that the length lookup computes the declarative "
            "relation (missing/negative/non-integer/reference to non-integer => guard error, undefined reference => InsufficientContext, reference to integer => it); that "
            "parse_internal on a stream object succeeds iff length resolves, framing holds, endobj follows and the identifier is new; that no panic site is reachable; and "
            "that a duplicate identifier is rejected after BTreeMap::insert has replaced the old binding. The model is tied to parse_pdf_indirect_obj by a correspondence run "
            "(value, start/size/content, spans, cursor, error kind, depth delta, context look-ups) on systematic and random scenes with keyword-laden payloads.",
}
