CFG = {
    "modules": ["Parsley.Props.C06"],
    "theorems": ["Parsley.C06.placeholder"],
    "partial": {},
    "n": {"quick": 300, "thorough": 6000},
    "exhaustive": {"quick": False, "thorough": False},
    "rustgen": True,
    "shrink": False,
    "rule": "tbd",
    "trusted_base": COMMON_TB + [],
    "assumptions": [],
}
LEVEL = {"design_ref": "DESIGN.md 3.C06", "technique": "tbd", "text": "tbd"}
