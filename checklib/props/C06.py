CFG = {
    "modules": ["Parsley.Props.C06", "Parsley.Lemmas.FiltersA85", "Parsley.Lemmas.FiltersInflate", "Parsley.Lemmas.A85Reject",
                "Parsley.Lemmas.InflateReject", "Parsley.Lemmas.InflateFixedBits", "Parsley.Lemmas.InflateFixed",
                "Parsley.Spec.DeflateFixed", "Parsley.Spec.DeflateDyn", "Parsley.Lemmas.InflateDynHuff",
                "Parsley.Lemmas.InflateDynHdr", "Parsley.Lemmas.InflateDyn", "Parsley.Props.C06Dyn",
                "Parsley.Lemmas.InflatePrefix", "Parsley.Props.C06Reject", "Parsley.Spec.ZlibHdr", "Parsley.Props.C06Hdr", "Parsley.Props.C06Keys"],
    "theorems": [
        "Parsley.C06.hex_roundtrip", "Parsley.C06.a85_roundtrip",
        "Parsley.C06.flate_glue_complete", "Parsley.C06.flate_glue_rejects",
        "Parsley.C06.inflate_stored_roundtrip", "Parsley.C06.adler_model_eq_spec",
        "Parsley.C06.chain_roundtrip", "Parsley.C06.decode_stream_roundtrip",
        "Parsley.C06.dict_pruned", "Parsley.C06.filters_shape", "Parsley.C06.corrupt_is_error",
        "Parsley.C06.flate_old_glue_truncates", "Parsley.C06.hex_old_witness",
        "Parsley.C06.hex_old_parity_witness", "Parsley.C06.a85_old_witness",
        # C06c: ASCII85 rejection side at full strength (Lemmas/A85Reject.lean), bundled in a85_corrupt_is_error
        "Parsley.C06.a85_corrupt_is_error", "Parsley.C06.a85Decode_cases", "Parsley.C06.a85_illegal_char_any",
        "Parsley.C06.a85_uniws_interior", "Parsley.C06.a85Crate_leading_uniws", "Parsley.C06.a85_stray_tilde",
        "Parsley.C06.a85_z_inside_group", "Parsley.C06.a85_z_inside_group_spec", "Parsley.C06.a85_group_overflow",
        "Parsley.C06.a85_single_digit_final",
        # sweep: the group-position counter is observed only through `!= 0`: the surviving mutants `(in_group + 2) % 5` and
        # `(in_group - 1) % 5` (i32, truncating %) stage the same text as the original on EVERY input (equivalent mutants)
        "Parsley.C06.a85_counter_plus2_equiv", "Parsley.C06.a85_counter_minus1_equiv", "Parsley.C06.a85StageC_sim",
        "Parsley.C06.a85Stage_eq_C",
        # C06c: damaged stored-block zlib streams (Lemmas/InflateReject.lean), through the glue in flate_stored_corrupt_is_error
        "Parsley.C06.flate_stored_corrupt_is_error", "Parsley.C06.flateDecode_err_transform",
        "Parsley.C06.inflate_stored_truncated", "Parsley.C06.inflate_stored_adler_altered",
        "Parsley.C06.inflate_stored_adler_byte", "Parsley.C06.inflate_stored_adler_byte_set",
        "Parsley.C06.inflate_stored_len_altered", "Parsley.C06.inflate_stored_len_byte",
        "Parsley.C06.inflate_stored_len_byte_set", "Parsley.C06.inflate_stored_len_byte_set_final",
        "Parsley.C06.inflate_stored_roundtrip_hdr", "Parsley.C06.inflate_header_fcheck_altered",
        "Parsley.C06.inflate_header_cmf_altered", "Parsley.C06.inflate_header_flg_altered",
        "Parsley.C06.inflate_header_altered",
        # C06c: fixed-Huffman round trip over the spec-side encoder Spec/DeflateFixed.lean (Lemmas/InflateFixed.lean)
        "Parsley.C06.flate_fixed_roundtrip", "Parsley.C06.inflate_fixed_roundtrip_final",
        "Parsley.C06.inflate_fixed_roundtrip", "Parsley.C06.inflate_fixed_literals_roundtrip",
        "Parsley.C06.inflate_fixed_literals_final_roundtrip", "Parsley.C06.zlibFixedLiterals_eq",
        "Parsley.C06.inflate_zlibFixedLiterals_roundtrip",
        # C06d: DYNAMIC-Huffman blocks and streams mixing stored / fixed / dynamic blocks, over the spec-side encoder
        # Spec/DeflateDyn.lean (Lemmas/InflateDyn.lean; canonical-Huffman lemma Lemmas/InflateDynHuff.lean; header parser
        # round trip Lemmas/InflateDynHdr.lean); non-vacuity instances in Props/C06Dyn.lean
        "Parsley.C06.inflate_dynamic_roundtrip", "Parsley.C06.flate_dynamic_roundtrip",
        "Parsley.C06.inflate_one_dynamic_block", "Parsley.C06.inflate_blocks_roundtrip", "Parsley.C06.planOkB_sound",
        "Parsley.C06.Dyn.canon_code", "Parsley.C06.Dyn.lensOk_bounds", "Parsley.C06.Dyn.tableOk_lensOk",
        "Parsley.C06.Dyn.tableOk_complete", "Parsley.C06.Dyn.construct_count", "Parsley.C06.Dyn.construct_symbol",
        "Parsley.C06.Dyn.leftOver_construct", "Parsley.C06.Dyn.dynamicTables_hdr", "Parsley.C06.Dyn.readLens_rle",
        "Parsley.C06.Dyn.clLens_loop", "Parsley.C06.Dyn.codes_gen", "Parsley.C06.Dyn.block_stored",
        "Parsley.C06.Dyn.block_dyn", "Parsley.C06.Dyn.blocks_mixed", "Parsley.C06.exPlan_ok",
        # C06e: the rejection side of FlateDecode for EVERY accepted zlib stream, whatever encoder wrote it (facts about the
        # decoder model alone). Lemmas/InflatePrefix.lean: locality of every reading function (it consumes a prefix of the unread
        # bytes and behaves the same whatever follows that prefix); Props/C06Reject.lean: the theorems + non-vacuity instances
        "Parsley.C06.Prefix.bits_loc", "Parsley.C06.Prefix.decodeSym_loc", "Parsley.C06.Prefix.codes_loc",
        "Parsley.C06.Prefix.readLens_loc", "Parsley.C06.Prefix.clLens_loc", "Parsley.C06.Prefix.dynamicTables_loc",
        "Parsley.C06.Prefix.takeBytes_loc", "Parsley.C06.Prefix.blocks_loc",
        "Parsley.C06.inflate_ok_split", "Parsley.C06.inflate_ok_or_err", "Parsley.C06.consumed_bounds",
        "Parsley.C06.inflate_ignores_trailing", "Parsley.C06.inflate_truncation_rejected",
        "Parsley.C06.inflate_truncation_rejected_any", "Parsley.C06.consumed_exact",
        "Parsley.C06.inflate_trailer_verdict", "Parsley.C06.inflate_trailer_is_adler",
        "Parsley.C06.inflate_trailer_altered_rejected",
        "Parsley.C06.flate_truncation_is_error", "Parsley.C06.flate_trailer_is_error", "Parsley.C06.flateDecode_ok_inflate",
        "Parsley.C06.flate_accepted_truncation_is_error", "Parsley.C06.chain_flate_truncated_is_error",
        "Parsley.C06.decode_stream_flate_truncated_is_error", "Parsley.C06.chain_flate_trailer_is_error",
        "Parsley.C06.decode_stream_accepted_truncation_is_error",
        # ... instances for the spec encoder's streams of all three block types (every proper prefix, every trailer byte)
        "Parsley.C06.consumed_zlibBlocks", "Parsley.C06.inflate_blocks_truncated", "Parsley.C06.inflate_blocks_adler_byte",
        # ... one altered DATA byte of a stored block is caught by the Adler-32 check (no length bound)
        "Parsley.C06.adler32_one_byte", "Parsley.C06.inflate_stored_data_byte_altered",
        "Parsley.C06.inflate_stored_data_byte_set", "Parsley.C06.flate_stored_data_byte_is_error",
        "Parsley.C06.exZ_ok", "Parsley.C06.exZ_consumed",
        # C06_8: the two-byte zlib header as a parameter (Spec/ZlibHdr.lean, Props/C06Hdr.lean): the decoder's four tests are RFC 1950's
        # reading; the pairs it takes are exactly the 32 headers CINFO 0..7 x FLEVEL 0..3 of the spec writer; under each of them it
        # does what it does under 78 01 (so every round trip / rejection theorem holds for all 32); every other pair is a TransformError
        "Parsley.C06.hdrOk_eq_legal", "Parsley.C06.header_legal", "Parsley.C06.fcheck_unique", "Parsley.C06.legal_is_header",
        "Parsley.C06.legal_iff_headers", "Parsley.C06.inflate_header_irrelevant", "Parsley.C06.inflate_illegal_header_rejected",
        "Parsley.C06.inflate_illegal_header_fields", "Parsley.C06.inflate_storedH_roundtrip", "Parsley.C06.inflate_fixedH_roundtrip",
        "Parsley.C06.inflate_fixedH_roundtrip_closed", "Parsley.C06.inflate_blocksH_roundtrip", "Parsley.C06.inflate_headerNo_roundtrip",
        "Parsley.C06.flateDecode_header_irrelevant", "Parsley.C06.flate_blocksH_roundtrip", "Parsley.C06.flate_illegal_header_is_error",
        # C06_12: OTHER KEYS of the stream dictionary (Props/C06Keys.lean): entry-level form of dict_pruned, no restriction on the other
        # keys or their values - whatever decodeStream accepts, the entries it returns are those of the original minus exactly /Filter
        # and /DecodeParms; the model's pruning is the judge's specPrune
        "Parsley.C06.prune_mem", "Parsley.C06.prune_eq_self", "Parsley.C06.prune_cons_other", "Parsley.C06.prune_cons_filter",
        "Parsley.C06.prune_cons_parms", "Parsley.C06.prune_append", "Parsley.C06.prune_spec", "Parsley.C06.prune_no_filter_entries",
        "Parsley.C06.prune_idem", "Parsley.C06.prune_length", "Parsley.C06.decode_stream_dict",
        "Parsley.C06.decode_stream_keeps_entry", "Parsley.C06.decode_stream_keeps_lookup", "Parsley.C06.near_keys_differ",
    ],
    "partial": {
        "flate_foreign_encoder_streams (not a theorem)":
            "PROVED now for ALL THREE block types and any mixture of them (inflate_dynamic_roundtrip = inflate_blocks_roundtrip / "
            "flate_dynamic_roundtrip / LayerEnc.flateDyn): the zlib stream the spec-side encoder Spec/DeflateDyn.lean writes from ANY "
            "valid plan - stored (<= 65535 bytes, aligned wherever they fall), fixed-Huffman and DYNAMIC-Huffman blocks in any order; "
            "a dynamic block with ANY valid code-length assignment (<= 15 bits, Kraft equality, or the two incomplete sets zlib's "
            "inflate_table takes: no distance code, a single code of length 1 - mirrored from Model/Inflate.tableOk), any HLIT / HDIST / "
            "HCLEN, a complete code-length code of <= 7 bits, ANY run-length spelling with symbols 16/17/18 (runs crossing from the "
            "literal/length into the distance lengths), canonical codes of RFC 1951 3.2.2, ANY LZ77 factorisation (copies reaching "
            "back into earlier blocks of any type) - decodes to the payload, any trailing bytes (crux: Dyn.canon_code, the table "
            "`construct` builds decodes the canonical code of every used symbol; Dyn.dynamicTables_hdr, the header parser round trip). "
            "Earlier: inflate_stored_roundtrip, inflate_fixed_roundtrip_final. STILL NOT a theorem, by nature: that the REAL zlib (C "
            "library behind flate2) computes the same function as the Lean inflate - established by the correspondence run (real zlib "
            "output at levels 0-9 through both decoders; the spec encoders' stored / fixed / dynamic output through both decoders); "
            "streams of OTHER encoders enter chain_roundtrip through the hypothesis `Inflate.inflate e = ok x` (LayerEnc.flateAny). "
            "That the executable generators (DeflateFixed.factorise, DeflateDyn.mkHdr / spell / assignLens) always yield valid plans is "
            "not proved: the judge evaluates the theorem's hypothesis (planOkB, sound by planOkB_sound) on every generated case.",
        "Parsley.C06.corrupt_is_error":
            "the statement of corrupt_is_error itself is unchanged (illegal ASCIIHex character, missing ASCIIHex EOD, "
            "misaligned ASCII85 z, every stream the zlib decoder rejects; errors propagate through outer layers). The "
            "corruptions it left to executed examples are theorems for ALL inputs: a85_corrupt_is_error (illegal "
            "character at any position, stray ~, VT/U+0085/U+00A0 inside, z inside any group, group >= 2^32 in any group, "
            "single-digit final group - with the real code's leniencies stated exactly: a lone final digit !..r is dropped "
            "silently, leading/trailing VT/U+0085/U+00A0 are trimmed, bytes after the EOD are still examined), "
            "flate_stored_corrupt_is_error (stored-block streams: every truncation, every altered byte of the Adler-32 trailer, of a "
            "LEN/NLEN field of any block, of FCHECK / CMF; the three FLG values that differ only in FLEVEL are accepted: "
            "inflate_header_flg_altered) and, since C06e, for EVERY zlib stream the decoder accepts, whatever encoder wrote it and "
            "whatever its block types (Props/C06Reject.lean; no spec encoder involved): inflate_truncation_rejected - every prefix "
            "shorter than what the decoder looked at (`consumed e` = header + blocks up to the byte boundary + 4 trailer bytes) is a "
            "TransformError, never another payload, never the fuel panic; inflate_ignores_trailing - everything after is ignored; "
            "inflate_trailer_verdict / inflate_trailer_altered_rejected - the result depends on the four trailer bytes only through "
            "equality with the Adler-32 of the payload, any altered trailer byte is a TransformError; the same through the glue "
            "(flate_truncation_is_error, flate_trailer_is_error, flate_accepted_truncation_is_error: any parameters) and through the "
            "chain (chain_flate_truncated_is_error, decode_stream_flate_truncated_is_error, decode_stream_accepted_truncation_is_error: "
            "the clause `partial output is never reported as success` for Flate, for ALL streams); instances for the spec encoders' "
            "stored / fixed / dynamic streams: inflate_blocks_truncated (EVERY proper prefix), inflate_blocks_adler_byte; and "
            "inflate_stored_data_byte_altered / _set (one altered DATA byte of a stored block is caught by the Adler-32: "
            "adler32_one_byte, strings differing in exactly one byte have different checksums, any length). STILL NOT proved as "
            "theorems (covered by the `mal` and `fz` correspondence streams): bit flips INSIDE Huffman-coded data or inside a dynamic "
            "header (they may change the payload, the block structure or nothing the decoder looks at - e.g. padding bits - and are "
            "caught only with the Adler-32's own strength: a two-byte alteration can preserve it), and alterations of more than one "
            "stored DATA byte.",
    },
    "n": {"quick": 300, "thorough": 6000},
    "exhaustive": {"quick": False, "thorough": False},
    "rustgen": True,
    "shrink": False,
    "rule": "OTHER KEYS OF THE STREAM DICTIONARY (follow-up to seed C06_12, which pruned /F and /DP too; Driver.C06.otherKeys, corpus other_keys.case): the dictionaries of 384 `sh` cases (+ one random recipe in four) carry, beside "
            "the filter entries, entries whose keys are NEAR the filter-entry names - the inline-image abbreviations F, DP, Fl, AHx, A85, D; FFilter, FDecodeParms, Filters, Filte, filter, decodeparms, DecodeParm, FilterX, FILTER, "
            "DecodeParams, DecodeParmsX; L, DL, Type, Subtype, Params, N, First; the empty name; `Filter` / `DecodeParms` followed by a NUL or a space byte, a NUL in front (29 keys) - x values of every kind (12: name /FlateDecode, name /Fl, "
            "integer, array of filter names, parameter-like dictionary <</Columns 4 /Predictor 12>>, string, reference, null, boolean, real, array holding a dictionary and null, dictionary holding /F /DP /Filter entries), each key "
            "with each value alone (348) + all 29 keys at once, the six abbreviations together, /F with /DP (12 value rotations each), over NO filter ({no /Filter, empty /Filter array, empty parallel arrays}), each of the seven "
            "single layers and chains of two and three, under every accepting spelling of /Filter x /DecodeParms (name, name + parameter dictionary, array, parallel arrays, scalar /DecodeParms, lenient one-dictionary form) and "
            "parameter variants null / <<>> / <</Predictor 1>> / <</Colors 3 /Columns 5>>; expectation (ISO 32000-1 Table 5, independent of the model): decoded dictionary = the case's dictionary minus exactly the keys Filter "
            "and DecodeParms (the judge checks that the recipe's surviving entries are specPrune of the dictionary the case carries), every value intact; view twins for the dictionaries that can be written as text and read back "
            "entry for entry (alphanumeric non-empty keys, no null value: 325 quick); "
            "EMPTY INPUT TO A FILTER (corruption 9, follow-up to seed C06_11): every filter at every chain position fed zero bytes - raw content empty, or the outer filters legitimately decoding to the empty string (`>`, `~>`, zlib streams of no bytes) - must be rejected except where the empty string is an encoding (ASCII85); "
            "corpus (DESIGN 4 #6-#10 inputs, trim/framing oddities) first; rt: recipes built by the Lean spec encoders - every "
            "chain of length <= 2 (quick; all 258 chains <= 3 thorough) over {ASCIIHex, ASCII85, Flate-stored, Flate-fixed-Huffman "
            "literal block, Flate-fixed-Huffman LZ77 factorisation closed by an empty block / with a data-carrying final block, "
            "Flate stream of dynamic / fixed / stored blocks from Spec/DeflateDyn.lean} "
            "x payload lengths {0..5,7,8,9,16,17,63} x {/Filter name, array, array + parallel /DecodeParms} x EOL after "
            "data {none, LF, CRLF, CR}; payloads of 32767..100000 bytes (thorough: to 3 MB) in stored blocks of any partition and (to 200000 bytes) in "
            "fixed-Huffman blocks; fixed-Huffman factorisations written by the spec encoder Spec/DeflateFixed.lean for 56 (thorough "
            "168) seed classes (candidate distances 1..32768 hitting every distance symbol, match cap 3..258, both spellings of "
            "length 258, forced literals, 1..100000 tokens per block) x self-similar payloads with period 1..32768 - the judge "
            "checks each factorisation with the spec's resolveBlocks, and BOTH the real zlib and the Lean inflate must return the payload; "
            "DYNAMIC-Huffman / mixed-block plans written by the spec encoder Spec/DeflateDyn.lean (F mode 4, dynPlan): 108 (thorough "
            "540 + 24 large) seed classes = 108 header styles (codes balanced / as long as possible: 15 bits, 7 on the code-length alphabet / "
            "irregular; HLIT, HDIST minimal or 29 / 29; every one of the 286 / 30 / 19 symbols coded; run-length spelling literal / irregular "
            "/ longest runs incl. 138 zeros; HCLEN minimal or 15; one-symbol alphabets as a single 1-bit code or completed) x 5 block-type "
            "patterns (dynamic only, dynamic/fixed, stored/dynamic/fixed, per-block styles, stored/dynamic/dynamic/fixed) x 7 block sizes x "
            "empty final blocks of each type x payloads {empty, 1 byte, all 256 values, runs, text-like, self-similar period 1..32768}; "
            "also as a layer of every chain of section 1, under predictors, in random recipes and in the zlib corruptions; corpus/C06/dynamic.case: "
            "hand-built headers (HCLEN minimum, HLIT/HDIST maximum, symbol 16 crossing into the distance lengths, empty dynamic blocks); the judge "
            "checks each plan with planOkB, and BOTH the real zlib and the Lean inflate must return the payload; "
            "random recipes (white space sprinkled by seed, digit case, odd-digit shorthand, z / !!!!! per group, partition "
            "of stored blocks, parameter dictionaries {null, <<>>, <</Predictor 1>>, <</Colors 3 /Columns 5>>}; one recipe in four with a PREDICTOR layer "
            "at a random position); predictor layers (P: FlateDecode over the forward PNG/TIFF filter of Spec/Predictor.lean, the four Flate encoders): predictor "
            "{2,10..14} x {single-column image in 1-4 byte and 1/2/4-bit pixel layouts, rows of several pixels, one row} x the parameter writer's "
            "omission choice {every entry written, every default-valued entry left out, /Columns left out, random subset of the default-valued entries left out; "
            "defaults of ISO 32000-1 Table 8 stated in Spec/Predictor.lean} x input lengths {1,2,3,4,6,8,12,30}, alone under a single name, alone in parallel "
            "arrays, outermost and innermost in chains (1152 cases), + 84 with the left-out entries written as non-integer objects (null, real, string, name, "
            "boolean, array, reference: payload or TransformError, never another value) + 20 zlib corruptions of a predictor layer; sh: 12 "
            "/Filter x /DecodeParms shapes (5 accepted, 6 rejected, 1 lenient) x chain length 0..3 x 6 parameter variants (two with non-integer values), "
            "unknown filter name at every position; mal: 13 corruptions (illegal char, missing EOD, misaligned z, group "
            ">= 2^32, truncated zlib, Adler-32 flip, header check, LEN/NLEN or first Huffman code, method; on all five Flate encoders, the odd variants under one of the 32 legal zlib headers; + the header replacement described under ZLIB HEADER) on outermost and inner layers; `z` EVERYWHERE in an ASCII85 text (180 cases; thorough 360): 1..3 consecutive `z`, "
            "bare / after white space / wrapped in white space, after k = 0..4 digits of the first, middle and last group and directly before `~>` (after "
            "complete groups and after a final partial group), over texts with and without white space between the digits and with zero groups spelled `z` "
            "or `!!!!!`, the layer alone or below another one - verdict from the standard's reading of the text (a85Points): at a group boundary each `z` is "
            "four zero bytes at that place of the payload, anywhere else a TransformError; `z` after the EOD marker and the Adobe `<~` prefix before a text "
            "beginning with `z` (outside ISO 32000-1: payload or TransformError); "
            "ZLIB HEADER (RFC 1950 2.2; Spec/ZlibHdr.lean, corpus zlib_headers.case; seed C06_8 accepted only first byte 78): the spec encoders take the two header bytes as a parameter (layer mode = encoder + 8*h) - "
            "EVERY legal header, CINFO 0..7 (declared window 256..32768 bytes) x FLEVEL 0..3 with the FCHECK completing a multiple of 31, FDICT clear = 32 pairs (08 1D, 08 5B, .. 48 89, .. 78 DA), "
            "x the five Flate encoders (stored, literal block, two fixed-Huffman LZ77 factorisations, dynamic / mixed plans; self-similar payloads of period 1..5000, the factoriser's candidate distances restricted to the declared window) "
            "alone under each /Filter spelling (160 cases), below / above ASCIIHex and ASCII85, two Flate layers under two different headers, under a predictor layer (128), on every second Flate layer of the random recipes, shape "
            "cases and fz mutations and on the odd variants of the five zlib corruptions; the same 32 headers with the factoriser NOT kept inside the window and the period = window + 1 (69 cases; thorough 88: a distance "
            "beyond the declared window is outside RFC 1950 - payload or TransformError, decided by the judge from the tokens with ZlibHdr.maxDist; zlib's inflate takes them); header REPLACED (corruption F.6.<CMF*256+FLG>) on "
            "streams whose distances fit the smallest window: the 32 legal pairs (outcome unchanged) and the ILLEGAL NEIGHBOURS, each with a correct FCHECK so that only the named field is at fault - CINFO 8..15 x FLEVEL (32), "
            "FDICT set on each legal pair (32) and on each CINFO 8..15 pair (32), every CM != 8 x two CINFO (60) - then wrong FCHECKs of every legal pair (quick 3 of the 31 others, thorough all 992) and arbitrary byte pairs (quick 160 drawn, "
            "thorough ALL 65536), alone / below ASCIIHex / above ASCII85: the verdict is the RFC's reading of the two bytes (ZlibHdr.legal: TransformError unless CM = 8, CINFO <= 7, FDICT clear, multiple of 31) - 446 cases quick, 66716 thorough; rz "
            "(native generator): payloads of 23 boundary sizes 0..100000 (+1 MiB; thorough to 4 MiB) x 5 content kinds "
            "compressed by the REAL zlib at every level 0-9, and random chains <= 3 with real-zlib Flate layers; the real zlib with its WINDOW set (deflateInit2 windowBits 9..15: headers 18 xx .. 78 xx) x levels {0,1,6,9} (the four FLEVEL values) "
            "x payload sizes below / at / above the window, alone and in chains with ASCIIHex / ASCII85 (132 cases; thorough 140); fz: random "
            "bytes and single-byte mutations of valid encodings (correspondence and no-panic only, judged `skip`). "
            "The judge rebuilds dictionary and content from the recipe with the spec encoders, rejects a case whose data "
            "differ, and derives the expected outcome from the recipe. "
            "VIEW TWINS (Driver/Views.lean, corpus views.case): every rt / sh / mal / rz case (all declare the content's length; tier budget: of the contents above 2 kB every eighth; not the fz cases) runs a second time as "
            "`vw <steps> <pre> <suf> <head> <tail> <case>`: the stream OBJECT is written as text - head = `n g obj <<dictionary>> stream EOL` (spec-side renderer of the case's dictionary), the content, tail = `EOL endstream endobj`, in "
            "one of six styles (object identifier, white space, a comment, LF / CRLF after `stream`, LF / CRLF / CR / nothing before `endstream`) - and that text is a window strictly inside ONE larger allocation pre ++ window ++ suf, "
            "selected by a chain of RestrictView / RestrictViewFrom steps (the harness checks that the view shows exactly the window). The implementation parses the object ON THE VIEW (parse_pdf_indirect_obj, as the crate does with a "
            "file) and decode_stream runs on the StreamT so obtained: dictionary and content come from the view. Axes: bytes in front of the window cycled over 1, 7, 11, 2, 0, 13, 1000, 64, 5, 3 of them (a file header, a complete stream "
            "object and a plain object, or random bytes; period 16) x chain of restrictions (RestrictView; RestrictViewFrom; From then View; View then View with junk on both sides; View then From; a View from 0 then From; three deep; "
            "period 7) x what lies behind the window (period 5: more encoded data with the end-of-data markers `~>` / `>`, `endstream endobj` again, a further complete stream object, an empty zlib stream) x the six styles. "
            "Output `<plain output> @ <content start> <content size> <cursor>`: the unchanged code reports all three as cursors of the view (|head|, |content|, |window|). The model parses the window's bytes alone (C05 model parseIndirect, "
            "then decodeStream on what it read: model of a view = model of its window, Parsley.C17.view_refines_copy); the oracle checks that head / tail are the rendering of the case's dictionary, judges the decoder's output from the "
            "recipe exactly as in the plain case, and requires the three cursors; classes of rejected view cases carry the prefix `view-`. CUT family (view only): 4 stream objects (ASCIIHex, ASCII85 over Flate, unfiltered empty, Flate with "
            "the content `endstream endobj`) x 6 styles cut at every third byte and at each of the last 12 (thorough: EVERY byte), the rest of the object behind the window: must be rejected (`cut-accepted`). Per tier: quick 5490 ordinary + "
            "4809 view twins + 998 cuts, thorough 90246 (65536 of them the sweep of all header byte pairs) + 19804 + 2430. non-trivial = recipe with >= 1 filter layer and a "
            "non-empty payload, or a rejecting shape, or a corruption, or a real-zlib case of >= 16 bytes (a view case counts when there are bytes in front of or behind the window; a cut case always)",
    "trusted_base": COMMON_TB + [
        "modelled from vendored source, not verified: binascii-0.1.4 hex2bin, ascii85-0.2.1 decode (incl. str::trim on the "
        "staged chars and u32 overflow checks of the dev profile: the harness is built with overflow-checks = true; in a "
        "release build an ASCII85 group >= 2^32 would wrap silently inside the crate instead of being caught)",
        "modelled, not verified: flate2 read::ZlibDecoder + zlib as the executable Lean inflate (Model/Inflate.lean; "
        "stored, fixed-Huffman and dynamic-Huffman blocks and their mixtures proved against the spec-side encoders; agreement with "
        "the real zlib by correspondence: real zlib output at levels 0-9 and the spec encoders' output through both decoders); "
        "std::io::Read::read_to_end "
        "as `readToEnd` over a pull-style decoder with a progress measure",
        "rz cases: the harness's native generator (flate2 compressor, small hex/ASCII85 writers) is trusted to emit encodings "
        "of the payload it states; the judge only compares the implementation's output with that payload",
        "out of scope, passed as parameters: flate_lzw_filter for /Predictor != 1 (C07), DCTDecode (jpeg-decoder), LZWDecode "
        "(decode_stream rejects it as unknown filter)",
    ],
    "assumptions": [
        "requires pending_fixes/C06-01..03 applied to /repo (the model mirrors the repaired glue; on the unrepaired tree the "
        "check reports the DESIGN 4 #6-#10 violations)",
        "THEOREMS: /Predictor is absent or 1 in every Flate parameter dictionary (predictor reversal is property C07; the composition is "
        "C14.flate_pred_layer). The correspondence run also sends FlateDecode layers with predictors 2, 10..14: there the model's `ext` parameter is "
        "instantiated as the loader does (Loader.ext = option glue Loader.fInt + C07 model Pred.transformTail) and the oracle is the payload the "
        "spec-side forward filter started from",
        "stream dictionaries hold direct objects (an indirect /Filter is not resolved by StreamT::filters and is treated as absent)",
    ],
}
LEVEL = {
    "design_ref": "DESIGN.md 3.C06",
    "technique": "Lean 4 theorems over an executable model of the filter glue, the binascii/ascii85 crates and a Lean inflate; "
                 "differential correspondence with decode_stream on spec-encoded, corrupted and real-zlib-compressed streams",
    "text": "Machine-checked proof, for all payloads of any length and all conformant encodings (white space anywhere, either "
            "hex case, odd-digit shorthand, z or !!!!! per zero group, 2-4 digit final group, any partition into stored "
            "blocks, any bytes after the zlib trailer or the hex EOD), that the model of ASCIIHexDecode, ASCII85Decode and "
            "FlateDecode returns exactly the payload (hex_roundtrip, a85_roundtrip incl. the base-85 arithmetic and absence "
            "of u32 overflow, inflate_stored_roundtrip); that the Lean inflate and the Flate glue return the payload for the "
            "fixed-Huffman stream written by a spec-side DEFLATE encoder from ANY valid LZ77 factorisation (literals, "
            "length/distance pairs, overlapping and cross-block copies, any block cutting: inflate_fixed_roundtrip_final, "
            "flate_fixed_roundtrip - bit-level: LSB-first fields, MSB-first codes of 7/8/9 and 5 bits); that the Flate glue "
            "returns the whole payload for EVERY correct streaming decoder however it chunks, and an error whenever the decoder "
            "fails after any number of chunks (flate_glue_complete / flate_glue_rejects - the theorem the 32 KiB truncation "
            "falsified); that chains of any length decode to the payload with the dictionary pruned of exactly /Filter and "
            "/DecodeParms (chain_roundtrip, decode_stream_roundtrip, dict_pruned); the full /Filter x /DecodeParms decision "
            "table (filters_shape); and the rejection side for ALL inputs: corrupt_is_error (ASCIIHex, propagation through "
            "outer layers), a85_corrupt_is_error (illegal character at any position, stray ~, z inside a group, group >= 2^32, "
            "single-digit final group - stating exactly where the real code is more lenient than ISO 32000: a lone final digit "
            "!..r is dropped, leading/trailing VT/U+0085/U+00A0 are trimmed) and flate_stored_corrupt_is_error (every "
            "truncation and every altered Adler-32 / LEN / NLEN / FCHECK / CMF byte of a stored-block stream is a "
            "TransformError). DYNAMIC-Huffman blocks and streams mixing the three block types are covered too "
            "(inflate_dynamic_roundtrip / flate_dynamic_roundtrip over the spec-side encoder Spec/DeflateDyn.lean: any valid code "
            "lengths incl. the incomplete sets zlib takes, any HLIT/HDIST/HCLEN, any run-length spelling, any LZ77 factorisation, any "
            "order of block types; crux canon_code: the decoding table built from code lengths decodes the RFC 1951 canonical code). "
            "Rejection for EVERY accepted zlib stream, whatever encoder wrote it (Props/C06Reject.lean, from the locality of every reading "
            "function of the inflate model, Lemmas/InflatePrefix.lean): every cut before the end of the Adler-32 trailer is a TransformError "
            "(inflate_truncation_rejected - never another payload, never the fuel outcome), bytes after the trailer are ignored "
            "(inflate_ignores_trailing), any altered trailer byte is a TransformError (inflate_trailer_altered_rejected), also through the glue and "
            "behind correctly encoded outer layers of a chain (decode_stream_flate_truncated_is_error: no partial output reported as success); one "
            "altered data byte of a stored block is caught by the Adler-32 (adler32_one_byte). "
            "The two-byte zlib header is a parameter of all this (Props/C06Hdr.lean over Spec/ZlibHdr.lean): the decoder's header tests are RFC 1950's reading (hdrOk_eq_legal), the pairs it "
            "takes are EXACTLY the 32 headers CINFO 0..7 x FLEVEL 0..3 with their unique FCHECK (legal_iff_headers, fcheck_unique), under each of them it computes what it computes under 78 01 "
            "(inflate_header_irrelevant, flateDecode_header_irrelevant - so every round-trip, truncation and trailer theorem above holds for every window size a conformant encoder may declare: "
            "inflate_blocksH_roundtrip, inflate_fixedH_roundtrip, inflate_storedH_roundtrip), and every other pair - CINFO 8..15, CM other than 8, FDICT set, wrong FCHECK - is a TransformError "
            "whatever follows (inflate_illegal_header_rejected, flate_illegal_header_is_error). The model, like zlib's inflate, does not compare LZ77 distances with the DECLARED window. "
            "Bit flips inside Huffman-coded data are NOT covered by a theorem, and the real zlib is an external C library: there the "
            "executable Lean inflate is tied to the real zlib (its own output at levels 0-9, and the spec encoders' stored / fixed / "
            "dynamic output) and the whole model to decode_stream by the correspondence run of every check. Three defects of /repo (Flate truncation at 32 KiB / truncated streams accepted; ASCIIHex "
            "rejecting all input; ASCII85 rejecting z) are witnessed by theorems about the pre-repair glue and repaired by "
            "pending_fixes/C06-01..03.",
}
