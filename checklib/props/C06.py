CFG = {
    "modules": ["Parsley.Props.C06"],
    "theorems": [
        "Parsley.C06.hex_roundtrip", "Parsley.C06.a85_roundtrip",
        "Parsley.C06.flate_glue_complete", "Parsley.C06.flate_glue_rejects",
        "Parsley.C06.inflate_stored_roundtrip", "Parsley.C06.adler_model_eq_spec",
        "Parsley.C06.chain_roundtrip", "Parsley.C06.decode_stream_roundtrip",
        "Parsley.C06.dict_pruned", "Parsley.C06.filters_shape", "Parsley.C06.corrupt_is_error",
        "Parsley.C06.flate_old_glue_truncates", "Parsley.C06.hex_old_witness",
        "Parsley.C06.hex_old_parity_witness", "Parsley.C06.a85_old_witness",
    ],
    "partial": {
        "flate_huffman_roundtrip (not a theorem)":
            "inflate_stored_roundtrip proves the executable Lean inflate only for zlib streams made of stored blocks "
            "(any partition, any trailing bytes). Fixed- and dynamic-Huffman blocks are implemented executably in "
            "Model/Inflate.lean and enter chain_roundtrip through the hypothesis `Inflate.inflate e = ok x` "
            "(LayerEnc.flateAny); that the real zlib and the Lean inflate agree on Huffman streams is established by the "
            "correspondence run only (payloads compressed by the real zlib at levels 0-9, all boundary sizes, both "
            "decoders must return the payload).",
        "Parsley.C06.corrupt_is_error":
            "proved for: illegal ASCIIHex character, missing ASCIIHex EOD, misaligned ASCII85 z, every stream the zlib "
            "decoder rejects (glue never returns partial output; errors propagate through outer layers). NOT proved as "
            "theorems (covered by executed `example`s and the `mal` correspondence stream): that an illegal ASCII85 "
            "character and an ASCII85 group >= 2^32 are rejected for all positions, and that every truncation / "
            "checksum flip of a zlib stream is rejected by the Lean inflate.",
    },
    "n": {"quick": 300, "thorough": 6000},
    "exhaustive": {"quick": False, "thorough": False},
    "rustgen": True,
    "shrink": False,
    "rule": "corpus (DESIGN 4 #6-#10 inputs, trim/framing oddities) first; rt: recipes built by the Lean spec encoders - every "
            "chain of length <= 2 (quick; all 84 chains <= 3 thorough) over {ASCIIHex, ASCII85, Flate-stored, Flate-fixed-Huffman} "
            "x payload lengths {0..5,7,8,9,16,17,63} x {/Filter name, array, array + parallel /DecodeParms} x EOL after "
            "data {none, LF, CRLF, CR}; payloads of 32767..100000 bytes (thorough: to 3 MB) in stored blocks of any partition; "
            "random recipes (white space sprinkled by seed, digit case, odd-digit shorthand, z / !!!!! per group, partition "
            "of stored blocks, parameter dictionaries {null, <<>>, <</Predictor 1>>, <</Colors 3 /Columns 5>>}); sh: 12 "
            "/Filter x /DecodeParms shapes (5 accepted, 6 rejected, 1 lenient) x chain length 0..3 x 4 parameter variants, "
            "unknown filter name at every position; mal: 13 corruptions (illegal char, missing EOD, misaligned z, group "
            ">= 2^32, truncated zlib, Adler-32 flip, header check, LEN/NLEN, method) on outermost and inner layers; rz "
            "(native generator): payloads of 23 boundary sizes 0..100000 (+1 MiB; thorough to 4 MiB) x 5 content kinds "
            "compressed by the REAL zlib at every level 0-9, and random chains <= 3 with real-zlib Flate layers; fz: random "
            "bytes and single-byte mutations of valid encodings (correspondence and no-panic only, judged `skip`). "
            "The judge rebuilds dictionary and content from the recipe with the spec encoders, rejects a case whose data "
            "differ, and derives the expected outcome from the recipe. non-trivial = recipe with >= 1 filter layer and a "
            "non-empty payload, or a rejecting shape, or a corruption, or a real-zlib case of >= 16 bytes",
    "trusted_base": COMMON_TB + [
        "modelled from vendored source, not verified: binascii-0.1.4 hex2bin, ascii85-0.2.1 decode (incl. str::trim on the "
        "staged chars and u32 overflow checks of the dev profile: the harness is built with overflow-checks = true; in a "
        "release build an ASCII85 group >= 2^32 would wrap silently inside the crate instead of being caught)",
        "modelled, not verified: flate2 read::ZlibDecoder + zlib as the executable Lean inflate (Model/Inflate.lean; "
        "stored blocks proved, Huffman blocks by correspondence with real zlib output at levels 0-9); std::io::Read::read_to_end "
        "as `readToEnd` over a pull-style decoder with a progress measure",
        "rz cases: the harness's native generator (flate2 compressor, small hex/ASCII85 writers) is trusted to emit encodings "
        "of the payload it states; the judge only compares the implementation's output with that payload",
        "out of scope, passed as parameters: flate_lzw_filter for /Predictor != 1 (C07), DCTDecode (jpeg-decoder), LZWDecode "
        "(decode_stream rejects it as unknown filter)",
    ],
    "assumptions": [
        "requires pending_fixes/C06-01..03 applied to /repo (the model mirrors the repaired glue; on the unrepaired tree the "
        "check reports the DESIGN 4 #6-#10 violations)",
        "/Predictor is absent or 1 in every Flate parameter dictionary (predictor reversal is property C07)",
        "stream dictionaries hold direct objects (an indirect /Filter is not resolved by StreamT::filters and is treated as absent)",
    ],
}
LEVEL = {
    "design_ref": "DESIGN.md 3.C06",
    "technique": "Lean 4 theorems over an executable model of the filter glue, the binascii/ascii85 crates and a Lean inflate; "
                 "differential correspondence with decode_stream on spec-encoded, corrupted and real-zlib-compressed streams",
    "text": "Machine-checked proof, for all payloads of any length and all conformant encodings (white space anywhere, either "
            "hex case, odd-digit shorthand, z or !!!!! per zero group, 2-4 digit final group, any partition into stored "
            "blocks, any bytes after the zlib trailer or the hex EOD), that the model of ASCIIHexDecode, ASCII85Decode and "
            "FlateDecode returns exactly the payload (hex_roundtrip, a85_roundtrip incl. the base-85 arithmetic and absence "
            "of u32 overflow, inflate_stored_roundtrip); that the Flate glue returns the whole payload for EVERY correct "
            "streaming decoder however it chunks, and an error whenever the decoder fails after any number of chunks "
            "(flate_glue_complete / flate_glue_rejects - the theorem the 32 KiB truncation falsified); that chains of any length "
            "decode to the payload with the dictionary pruned of exactly /Filter and /DecodeParms (chain_roundtrip, "
            "decode_stream_roundtrip, dict_pruned); the full /Filter x /DecodeParms decision table (filters_shape); and that "
            "the unambiguous corruptions are errors that propagate through outer layers (corrupt_is_error, partial: see "
            "coverage.partial_theorems). Huffman-coded zlib streams are NOT covered by a theorem: the executable Lean inflate "
            "is tied to the real zlib (levels 0-9) and the whole model to decode_stream by the correspondence run of every "
            "check. Three defects of /repo (Flate truncation at 32 KiB / truncated streams accepted; ASCIIHex rejecting all "
            "input; ASCII85 rejecting z) are witnessed by theorems about the pre-repair glue and repaired by pending_fixes/C06-01..03.",
}
