CFG = {
    "modules": ["Parsley.Props.C07"],
    "theorems": [
        "Parsley.C07.predictor_roundtrip", "Parsley.C07.predictor_never_panics", "Parsley.C07.filter_never_panics",
        "Parsley.C07.paeth_eq_spec", "Parsley.C07.average_eq_spec", "Parsley.C07.paeth_nearest",
        "Parsley.C07.paeth_i16_in_range", "Parsley.C07.average_u16_in_range", "Parsley.C07.png_no_rows_is_error",
        "Parsley.C07.pngRowLoop_spec", "Parsley.C07.sumLeftLoop_spec",
        "Parsley.C07.predictor_roundtrip_samples8", "Parsley.C07.predictor_roundtrip_samples16",
        "Parsley.C07.legacy_paeth_witness", "Parsley.C07.legacy_average_witness",
        "Parsley.C07.filter_roundtrip",
        "Parsley.C07.decode_sound", "Parsley.C07.decode_iff_encoded",
        "Parsley.C07.png_decode_sound", "Parsley.C07.pngRows_reencodes",
        "Parsley.C07.tiff_decode_sound", "Parsley.C07.tiff_decode_sound_of_dims",
        "Parsley.C07.tiff_zero_row_discards", "Parsley.C07.tiff_zero_row_iff",
        "Parsley.C07.tiff_zero_row_not_injective_witness",
        "Parsley.C07.tiffRows_reencodes", "Parsley.C07.tiffRow_reencodes",
        "Parsley.C07.sumLeftLoop_reencodes", "Parsley.C07.sumLeftLoop_inv",
        # sweep: default-valued /DecodeParms entries left out (defaults of ISO 32000-1 Table 8 stated in Spec/Predictor.lean)
        "Parsley.C07.predictor_roundtrip_omitted", "Parsley.C07.transformTail_spelled", "Parsley.C07.entries_spelled",
    ],
    "partial": {},
    "n": {"quick": 1500, "thorough": 100000},
    "exhaustive": {"quick": False, "thorough": True},
    "rule": "corpus (DESIGN section-4 defects #11-#16 and hand-built 16-bit/sub-byte/TIFF rows) first; Paeth on the real fn for all c "
            "x (a,b) grid (stride 5x7 quick, all 65536 pairs = 2^24 triples thorough); Average/Paeth neighbour triples through the row "
            "loop ((a,b) stride 11 quick, all pairs thorough); random images from the spec's forward filters: predictor {2,10..14} x "
            "colors 1..5 x columns 1..12 (1/12: up to 200/300) x bpc {1,2,4,8,16} (TIFF 8,16) x 1..5 rows, bytes half from "
            "{0,1,2,127,128,129,254,255}, alternately through zlib+FlateDecode::transform (i64 parameters in a real DictT) and the "
            "verif_predict hook - one image in six has a SINGLE COLUMN, and the /DecodeParms of a zlib case is written by the spec-side "
            "writer PredSpec.Params.entries with every entry written / every default-valued entry left out / a random subset of the "
            "default-valued entries left out (defaults of ISO 32000-1 Table 8: Predictor 1, Colors 1, BitsPerComponent 8, Columns 1, "
            "stated in Spec/Predictor.lean, not read off the model); one single-rule mutation per image (truncate, extend, alter a byte, "
            "wrong Columns/Colors/Predictor/BitsPerComponent, absent keys, /Columns absent whatever its value, one entry replaced by a "
            "non-integer object); exhaustive small enumeration of the option glue through zlib+FlateDecode::transform: predictor "
            "{1,2,10..15} x colours {1,3} x columns {1,4} x two sample sizes x EVERY subset of the default-valued entries left out "
            "(single-column images under all eight predictors with /Columns absent), then each of the four entries replaced by a "
            "non-integer object of seven types (null, real, string, name, boolean, array, indirect reference: the code reads them as "
            "absent; judged: no panic, and /Predictor 1 is still the identity); every value of a 32-element boundary set (0, negatives, 2^31..2^32+1, 2^61, 2^62, "
            "i64::MAX, i64::MIN ...) in every parameter position x 5 data shapes x both entry points, plus random boundary "
            "4-tuples (each also with data shaped after its geometry when rows are small); GUARD WALK (seed C07_8): data that "
            "passes the early exits one by one so the row loop behind them is reached under degenerate geometries - predictor "
            "{2,10..15} x written /Colors x /Columns from {0,1,2,3,5|9,-1,2^32,2^61,i64::MIN|MAX} (thorough: the whole 32-value "
            "boundary set squared) x sample size {1,2,4,8,16} and {0,3,-8}, both entry points; for every geometry whose row (by the "
            "generator's own 64-bit reading of the sizes) has 0 sample bytes (/Columns 0 or /Colors 0: the row is its filter-type "
            "byte alone), 1 byte, at most one pixel (pixel as wide as or wider than the row, up to 2^61 bytes per pixel), or <= 2 "
            "(thorough 9) bytes: rows carrying the RIGHT filter-type byte predictor-10 (for 15 each of 0..4) cut at EVERY length "
            "0..max(8, 3 rows) (too short / not a whole number of rows / 1..8 whole rows), whole rows with every byte equal to "
            "the tag, one wrong filter-type byte at row i of 1/3/8 rows (the rows before it pass), mixed bytes 0..4; for unusable or "
            "unfillable geometries 1, 2, 8 bytes of the right tag. Non-trivial = accepted parameters with an encoder-shaped stream of >=2 rows, rows longer than a pixel and a "
            "predictor other than None; or parameters outside the accepted set (predictor != 1); or a Paeth line.",
    "trusted_base": COMMON_TB + [
        "modelled, not verified: Vec/slice indexing and chunks_exact as list take/drop/index; Wrapping<u8>/<u16> as UInt8/UInt16; "
        "u16::from_be_bytes/to_be_bytes as hi*256+lo; i16/u16 intermediates of paeth/average on Int/Nat with the range theorems "
        "paeth_i16_in_range/average_u16_in_range",
        "not modelled: zlib inflate (C06) - the flate cases use real flate2 on both sides of the predictor; LZWDecode shares the same "
        "flate_lzw_filter and is reached through the verif_predict hook only",
    ],
    "assumptions": [
        "sizes fit a usize: colors*bpc < 2^64 and columns*colors*bpc < 2^64 (otherwise the code returns an error, covered by "
        "predictor_never_panics)",
        "PNG predictors: at least one row (an empty stream is rejected by the code's explicit size check; png_no_rows_is_error)",
        "TIFF predictor 2 is accepted for 8- and 16-bit samples only (1/2/4-bit TIFF is rejected with an error by the fixed code)",
        "TIFF predictor 2 with a zero-byte row (Columns 0 or Colors 0) returns the empty output for any data (the code's 'No data' "
        "branch): excluded from decode_sound, characterised by tiff_zero_row_discards",
        "/Predictor 15 (PNG optimum) stays rejected as before the fix: outside the statement's six predictors",
        "the tree has pending_fixes/C07-01-predictor-arithmetic.patch and C07-02-hook-verif-predict.patch applied",
    ],
}
LEVEL = {
    "design_ref": "DESIGN.md 3.C07",
    "technique": "Lean 4 theorems over an executable model of flate_lzw_filter/paeth/average/predictor_geometry (loop invariants by "
                 "induction along the row and over the rows) + differential correspondence with the real code through "
                 "FlateDecode::transform and the verif_predict/verif_paeth hooks; oracle = re-encoding with the spec's forward filters",
    "text": "Machine-checked proof, for all rows, row counts, colour counts, column counts and bits per component {1,2,4,8,16} "
            "(TIFF: 8,16), that the model of the predictor code applied to the output of the PNG (None/Sub/Up/Average/Paeth) or "
            "TIFF-2 forward filter of the specifications returns exactly the original rows (predictor_roundtrip); that Paeth and "
            "Average are the specification's functions for all byte triples, by integer arithmetic (paeth_eq_spec, average_eq_spec, "
            "paeth_nearest) and cannot overflow their i16/u16 intermediates; and that for ALL integer /Predictor /Colors /Columns "
            "/BitsPerComponent (absent, 0, negative, > 2^32, i64::MAX) and all data the code reaches no panic site "
            "(predictor_never_panics, 64-bit usize arithmetic explicit). The decoder is a two-sided inverse of the forward filters for all "
            "six predictors, at all colours/columns/bits: whenever it returns a value on ANY data, that value is a list of rows whose "
            "forward filter is exactly that data (decode_sound = png_decode_sound + tiff_decode_sound; decode_iff_encoded; the one "
            "excluded shape, TIFF with a zero-byte row, is characterised by tiff_zero_row_discards). The model mirrors the repaired Rust code line by line and "
            "is tied to it on every check by a correspondence run (random images x six predictors x parameter grid, boundary "
            "parameters, Paeth triples exhaustively in the thorough tier).",
}
