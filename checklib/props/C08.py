CFG = {
    "modules": ["Parsley.Props.C08"],
    "theorems": [
        "Parsley.C08.conforms_perm_alternatives", "Parsley.C08.Conforms_perm_alternatives",
        "Parsley.C08.conforms_perm_keys", "Parsley.C08.conforms_antitone",
        "Parsley.C08.conforms_stabilises_partial", "Parsley.C08.machine_eq_conforms_partial",
        "Parsley.C08.memo_leak_witness", "Parsley.C08.disjunct_attrs_dropped_witness",
        "Parsley.C08.named_disjunct_witness", "Parsley.C08.selfref_not_null_witness",
        "Parsley.C08.memo_ignores_predicate_witness", "Parsley.C08.any_entry_skips_pred_witness",
        "Parsley.C08.stale_disjunct_index_witness", "Parsley.C08.any_entry_skips_indirect_witness", "Parsley.C08.stale_error_witness",
    ],
    "partial": {
        "Parsley.C08.machine_eq_conforms_partial":
            "machine verdict = declarative verdict is PROVED only on the leaf fragment (non-reference object, any/primitive "
            "check without predicate, all three indirection requirements); compound types, references, predicates and "
            "disjunctions are covered by the correspondence run and the bounded-exhaustive oracle search only; the machine is "
            "known to differ from the specification in 4 classes (known_findings.json)",
        "Parsley.C08.conforms_stabilises_partial":
            "proved: the chain of unfoldings decreases and, once two consecutive levels agree, is constant; not proved: that "
            "this happens within |pairs| levels (the judge iterates the table to a fixed point on every case)",
    },
    "n": {"quick": 3000, "thorough": 60000},
    "exhaustive": {"quick": False, "thorough": True},
    "shrink": False,
    "rule": "corpus (every section-4 defect and the four witnesses); exhaustive small: every one/two-level specification over a menu "
            "of 9 leaf checks (5 in quick) x 39 objects over a 4-object graph with sharing, equal duplicates, an undefined and a "
            "self reference; random: specs of depth <= 3 from all constructors (named recursive types, predicates, indirect "
            "requirements) x graphs of <= 3 random objects + objects fitted to the spec (60%) or random (40%); non-trivial = "
            "compound specification or compound/reference object",
    "trusted_base": COMMON_TB + [
        "modelled, not verified: BTreeSet/BTreeMap/VecDeque/Rc semantics (memo as a list with the derived structural equality; "
        "predicate identity = structural equality of the model predicate: the harness interns predicates)",
        "the declarative reading Spec/Conforms.lean (greatest fixed point of confStep) is the definition of `conforms`",
        "verif hooks C08-00 (DictEntry/DictStarEntry constructors, work-loop counter); harness decoder harness/src/tc_common.rs",
    ],
    "assumptions": [
        "specifications have no empty disjunction (the code panics with unreachable!(); such cases are skipped by the judge)",
        "every registered named check is a full representation; predicates are deterministic functions of the object"],
}
LEVEL = {
    "design_ref": "DESIGN.md 3.C08",
    "technique": "Lean 4 theorems over a faithful small-step model of check_type + declarative greatest-fixed-point oracle + "
                 "differential correspondence (verdict and error kind) with the real check_type",
    "text": "Machine-checked: order-independence of alternatives and of dictionary entries for the declarative conformance relation "
            "(all specs/objects/depths), monotonicity and limit behaviour of its unfolding chain, machine = specification on the "
            "leaf fragment (partial), and eight witness theorems. The model mirrors get_next_check/unwind/push_checks/return_check, "
            "the memo and every per-type case, one flag per defect; it agrees with the real code on verdict and error kind on every "
            "generated case. Ten defects were found; six are repaired by pending patches C08-01..06, four remain as known findings "
            "(memo leak across alternatives, attributes of a disjunction dropped, disjunction behind a name, reference cycle not null) "
            "with an executable single-repair classifier and witness theorems.",
}
