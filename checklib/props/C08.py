CFG = {
    "modules": ["Parsley.Props.C08", "Parsley.Lemmas.ConformsStab", "Parsley.Lemmas.TypeCheckSound", "Parsley.Props.C08Frag",
                "Parsley.Lemmas.TypeCheckComplete", "Parsley.Lemmas.ConformsNorm", "Parsley.Spec.TypeCheckWF",
                "Parsley.Props.C08Unwind",
                "Parsley.Lemmas.TypeCheckF2Defs", "Parsley.Lemmas.TypeCheckF2Closed", "Parsley.Lemmas.TypeCheckSoundF2",
                "Parsley.Props.C08F2"],
    "theorems": [
        "Parsley.C08.conforms_perm_alternatives", "Parsley.C08.Conforms_perm_alternatives",
        "Parsley.C08.conforms_perm_keys", "Parsley.C08.conforms_antitone",
        "Parsley.C08.conforms_stabilises_partial", "Parsley.C08.conforms_stabilises",
        "Parsley.C08.Conforms_iff_conf_card", "Parsley.C08.gfp_eq_conf_card", "Parsley.C08.gfp_iff_Conforms",
        "Parsley.C08.machine_eq_conforms_F1", "Parsley.C08.machine_eq_conforms_F1_fuel", "Parsley.C08.machine_eq_oracle_F1",
        "Parsley.TC.Sound.checkType_F1", "Parsley.C08.shipped_namedictionary_correct",
        # C08f: machine = specification on FRAGMENT F2 (disjunctions of private leaf alternatives): the former conjecture, proved
        "Parsley.C08.machine_eq_conforms_F2", "Parsley.C08.machine_eq_conforms_F2_fuel", "Parsley.C08.machine_sound_F2_fuel",
        "Parsley.C08.machine_eq_oracle_F2", "Parsley.C08.machine_eq_conforms_frag_partial",
        "Parsley.C08.shipped_rectangle_correct", "Parsley.C08.shipped_fragment_counts",
        "Parsley.TC.F2.checkType_F2_sound", "Parsley.TC.F2.checkType_F2_complete", "Parsley.TC.F2.checkType_F2_iff",
        "Parsley.TC.F2.step_inv2", "Parsley.TC.F2.issueG", "Parsley.TC.F2.tryAlt", "Parsley.TC.F2.valAlt",
        "Parsley.TC.F2.accept_sound2", "Parsley.TC.F2.unwind_idx0",
        "Parsley.TC.F2.inF2_closed2", "Parsley.TC.F2.closed2_closedC", "Parsley.TC.F2.closed2_norm_id",
        # C08e: COMPLETENESS for ALL well-formed specifications, disjunctions included (the real checker never rejects a conforming object)
        "Parsley.C08.machine_complete", "Parsley.C08.machine_complete_fuel", "Parsley.C08.machine_reject_sound",
        "Parsley.C08.machine_eq_conforms", "Parsley.C08.machine_disagreement_is_false_accept", "Parsley.C08.machine_complete_oracle",
        "Parsley.TC.Complete.checkType_complete", "Parsley.TC.Complete.run_complete", "Parsley.TC.Complete.step_ok",
        "Parsley.TC.Complete.unwind_ok", "Parsley.TC.Complete.processCheck_spec", "Parsley.TC.Complete.conforms_disj_alt",
        "Parsley.TC.Complete.closedC_chkU", "Parsley.TC.Norm.conforms_norm", "Parsley.TC.Norm.wfChk_norm",
        # sweep follow-up: the two surviving mutants of State::unwind (`next_idx > 0` -> `>= 0`; final `return false` -> `true`) are
        # EQUIVALENT: same verdict, error kind and work-loop count for every configuration, graph, context, object, specification
        "Parsley.C08.unwind_mutants_equivalent", "Parsley.C08.settle", "Parsley.C08.step_rel", "Parsley.C08.stepU_unwindOr",
        "Parsley.C08.checkTypeFuelM_ff", "Parsley.C08.unwind_sees_unstarted_disjunction_witness",
        "Parsley.C08.unwind_empties_stack_witness",
        "Parsley.C08.machine_eq_conforms_leaf", "Parsley.C08.machine_eq_conforms_partial",
        "Parsley.C08.F1_fails_for_orig_witness", "Parsley.C08.shared_alternative_leak_witness",
        "Parsley.C08.memo_leak_witness", "Parsley.C08.disjunct_attrs_dropped_witness",
        "Parsley.C08.named_disjunct_witness", "Parsley.C08.selfref_not_null_witness",
        "Parsley.C08.memo_ignores_predicate_witness", "Parsley.C08.any_entry_skips_pred_witness",
        "Parsley.C08.stale_disjunct_index_witness", "Parsley.C08.any_entry_skips_indirect_witness", "Parsley.C08.stale_error_witness",
    ],
    "partial": {
        "Parsley.C08.machine_eq_conforms_frag_partial":
            "machine verdict = declarative verdict on the union of the two proved fragments F1 and F2 (the widest proved statement). "
            "Missing for the full statement: specifications with a disjunction that has a compound, shared (not private) or "
            "indirect-carrying alternative, and Any-typed entries with a bare indirect requirement - there soundness is FALSE for the "
            "code as it is (memo_leak_witness, shared_alternative_leak_witness, any_entry_skips_indirect_witness); completeness holds "
            "for all well-formed specifications (machine_complete)",
        "Parsley.C08.machine_eq_conforms_partial":
            "machine verdict (code as it is, Fix.tree, run with the proved work bound) = declarative verdict. COMPLETENESS is proved for ALL "
            "well-formed specifications, disjunctions included (machine_complete: Conforms -> accept for every graph, context, object and "
            "every specification satisfying the decidable Frag.wfSpec = every name bound to a representation, no empty disjunction; hence "
            "every disagreement is a false accept: machine_disagreement_is_false_accept). SOUNDNESS (accept -> Conforms), and so the "
            "equivalence, is PROVED on FRAGMENT F1 (Frag.inF1, decidable, Spec/TypeCheckFrag.lean: among the checks reachable from the "
            "specification no disjunction, no dangling name, no Any-typed element/entry with an indirect requirement but no predicate): "
            "EVERY graph (reference chains, undefined and cyclic references), EVERY object, arrays, heterogeneous arrays, dictionaries with "
            "required/optional/forbidden keys and wildcard entry, streams, named RECURSIVE types, predicates and indirect requirements on "
            "every node (machine_eq_conforms_F1; = the judge's oracle: machine_eq_oracle_F1). NOT proved: soundness for specifications "
            "with a reachable disjunction OUTSIDE fragment F2. With disjunctions the equivalence is PROVED on FRAGMENT F2 "
            "(machine_eq_conforms_F2, Props/C08F2.lean; Frag.inF2, decidable, definition unchanged: every alternative of every reachable "
            "disjunction a leaf check without indirect requirement of its own, alternatives pairwise different, and PRIVATE = occurring "
            "nowhere else among the reachable checks, two lists of alternatives equal or disjoint; predicate/indirect requirement of the "
            "disjunction free; F1's conditions elsewhere): every graph, context, object, no well-formedness hypothesis on the context. "
            "Outside F2 soundness is false for the code as it is (memo leak: memo_leak_witness = compound alternatives, "
            "shared_alternative_leak_witness = a leaf alternative that also types another entry). The judge evaluates the fragments on "
            "every case (a disagreement inside F1/F2 is reported as f1-theorem-violated / f2-theorem-violated, a false reject on a "
            "well-formed specification as completeness-theorem-violated, never as a known finding); Any-typed entries with a bare "
            "indirect requirement are decided wrongly (any_entry_skips_indirect_witness). False for Fix.orig (F1_fails_for_orig_witness)",
    },
    "n": {"quick": 3000, "thorough": 60000},
    "exhaustive": {"quick": False, "thorough": True},
    "shrink": False,
    "rule": "corpus (every section-4 defect, the witnesses, cycles through a disjunction-typed edge; complete.case: conforming objects whose run passes failing alternatives, memo hits, exhausted nested disjunctions and a returned reference pair before the conforming alternative; fragment_f1.case: sized arrays too long/short, the leaf-alternative memo leaks, a recursive type on a cyclic graph); exhaustive small: every one/two-level specification over a menu "
            "of 9 leaf checks (5 in quick) x 39 objects over a 4-object graph with sharing, equal duplicates, an undefined and a "
            "self reference; random: specs of depth <= 3 from all constructors (named recursive types, predicates, indirect "
            "requirements) x graphs of <= 3 random objects + objects fitted to the spec (60%) or random (40%); non-trivial = "
            "compound specification or compound/reference object; objects fitted to a sized array are one element too long or too short one time in four; the judge evaluates the fragment predicates Frag.inF1/inF2 and Frag.wfSpec on every disagreement of the tree configuration (inside a fragment, or a false reject on a well-formed specification, it is a violation, never a known finding; quick tier: 5134 of 10926 generated cases lie in F1, 4294 of them with a compound specification, 1721 cases with a disjunction lie in F2); + n/10 cyclic container graphs whose cycle passes through a "
            "disjunction-typed edge (kids typed leaf|node|tmpl by name); sweep follow-up: unwind_registered.case (17 hand-built cases) + "
            "EXHAUSTIVE both tiers: dictionaries {A,B,C} with every entry typed Integer / Integer|Name / that disjunction behind a "
            "name x every assignment of an integer, a string, a name to the three keys (729 cases: a failing check followed at every "
            "distance by not-yet-started disjunctions) and arrays of 1..3 values against element types that are disjunctions (plain, "
            "named, with a compound alternative, with a predicate of their own; 420 cases) + n/5 random containers of 2..4 such "
            "members with one or two wrong ones WRAPPED in an outer disjunction (first / later alternative / behind a name), an outer "
            "dictionary with unstarted entries behind, an outer array, or nested twice + named types of EVERY CONSTRUCTOR KIND (the "
            "harness builds a type with TypeCheck::new / new_refined / new_indirect / new_all exactly as client code would: no "
            "predicate & indirect allowed / predicate only / indirect requirement only / both): 7 attribute kinds x 5 bodies (name, "
            "Any, dictionary, array, disjunction) x 8 positions that reference the type BY NAME (top level, dictionary entry, array "
            "element, heterogeneous element, alternative, wildcard entry, stream entry, through a second named type) x 2 fitted objects "
            "(with the indirect objects an indirect requirement needs) + 1 random object, a decoy registered first under the same "
            "name one time in three (840 cases) + after missed seed C08_6 (Any short-cut arm moved above the ForbiddenKey arm): "
            "forbidden_keys.case (29 hand-built cases) + EXHAUSTIVE key family (Driver/C08Keys.lean), dictionary AND stream types: one "
            "entry = key requirement {required, optional, forbidden} x kind of its check {Any unconstrained, Any with predicate, Any with "
            "indirect required, Any with indirect forbidden, primitive, array, nested dictionary, disjunction, named type, named type "
            "resolving to an unconstrained Any} x state of the key in the object {present with a conforming value, present with a "
            "non-conforming value, present with a reference, absent} = 120 entries; every 1-entry type (240 cases), every entry beside "
            "each of 8 filler entries in both orders (3840; thorough: every entry beside every entry, 28800), every entry at each of "
            "the 3 positions beside 4 filler pairs (2880), and dictionaries with a WILDCARD entry of every requirement x kind against "
            "0, 1 or 2 unspecified keys in every state beside 5 lists of specified entries (1350): 8310 cases quick / 33270 thorough; "
            "+ n/5 random dictionaries/streams of 1..3 of the 120 entries (wildcard one time in three) reached at top level, as a "
            "required/optional entry of an outer dictionary, array element, heterogeneous-array element, behind a name, as an "
            "alternative of a disjunction, or through a reference; oracle = declarative Conforms (a present forbidden key never "
            "conforms, whatever its check) + after missed seed C08_10 (Array arm: size Some(0) treated like None): size_bounds.case (44 "
            "hand-built cases) + EXHAUSTIVE boundary family (Driver/C08Bounds.lean): every numeric parameter of the type language at "
            "its boundary values x objects at and around the boundary x every position a check can occur in. Homogeneous arrays: size "
            "{none, 0, 1, 2, 3, 4, 5, 1000000007} x 11 element kinds (Any unconstrained = the Any short-cut, Any with predicate, "
            "primitive, primitive with indirect required, named, named resolving to Any, named zero-sized array, disjunction, nested "
            "array of size 0, nested array of size 1, dictionary) x 15 objects (arrays of 0..4 conforming elements, the same with the "
            "first / the last element non-conforming, a non-array, references to the empty and to a one-element array) at top level "
            "(1320 cases) and, for 4 element kinds (thorough: all 11), in each of 13 positions: element of an outer array (unsized / "
            "sized exactly / sized one short / outer array fixed to size 0), heterogeneous-array slot, behind a name, through a "
            "reference, first / later alternative of a disjunction, required / optional dictionary entry, wildcard entry, stream entry "
            "(6240; thorough 17160); heterogeneous arrays with 0..4 positional checks x lengths 0..5 x every single non-conforming "
            "position; dictionaries and streams with NO entry and dictionaries with ONLY a wildcard entry (required / optional / "
            "forbidden x 4 checks) x 0 / 1 / 2 keys conforming or not; disjunctions of 1..4 options whose options are arrays fixed to "
            "different sizes (0 included, both orders) x arrays of 0..4 elements; choice predicates with 0 / 1 / 2 / 3 values - each "
            "in all 14 positions (+15008 exhaustive cases quick, +25928 thorough); + n/5 random sized arrays under two random positions composed; expected "
            "verdicts from the declarative Conforms only (an Array type of size 0 admits exactly the empty array; both directions: "
            "non-empty array against size 0, empty array against size k > 0)",
    "trusted_base": COMMON_TB + [
        "modelled, not verified: BTreeSet/BTreeMap/VecDeque/Rc semantics (memo as a list with the derived structural equality; "
        "predicate identity = structural equality of the model predicate: the harness interns predicates)",
        "the declarative reading Spec/Conforms.lean (greatest fixed point of confStep) is the definition of `conforms`",
        "verif hooks C08-00 (DictEntry/DictStarEntry constructors, work-loop counter); harness decoder harness/src/tc_common.rs "
        "(named and anonymous checks are built with the constructor client code would use for their attributes: new / new_refined / "
        "new_indirect / new_all) "
        "(cases run in a worker process under a watchdog: `hang` after 8 s, `crash:<rc>` if the worker dies)",
        "reference chasing: the Rust loop with a visited set is modelled by a fuel-bounded chase (fuel = definitions + 1); equal on "
        "graphs with unique ids (argument in Model/TypeCheck.lean), exercised by the correspondence run",
    ],
    "assumptions": [
        "specifications have no empty disjunction (the code panics with unreachable!(); such cases are skipped by the judge)",
        "machine_complete assumes Frag.wfSpec: every name occurring in the specification or the context is registered and bound to a "
        "representation (the code leaves through UnknownTypeCheck otherwise, also for an optional entry whose key is absent)",
        "every registered named check is a full representation; predicates are deterministic functions of the object"],
}
LEVEL = {
    "design_ref": "DESIGN.md 3.C08",
    "technique": "Lean 4 theorems over a faithful small-step model of check_type + declarative greatest-fixed-point oracle + "
                 "differential correspondence (verdict and error kind) with the real check_type",
    "text": "Machine-checked: order-independence of alternatives and of dictionary entries for the declarative conformance relation "
            "(all specs/objects/depths), monotonicity of its unfolding chain and stabilisation within |pairs| levels on the finite "
            "universe of a case (conforms_stabilises), hence the executable oracle of the judge decides Conforms exactly "
            "(gfp_iff_Conforms); COMPLETENESS for ALL specifications, disjunctions included (machine_complete: for every graph, context, "
            "object and every well-formed specification - names bound, no empty disjunction - a conforming object is accepted by the "
            "machine = the code as it is; never rejected, never a panic, although the memo leaks; proof by an invariant over the stack of "
            "pending sets: trusted sets conform, an untrusted region sits above an in-progress disjunction that still has a conforming "
            "alternative, so unwind never empties the stack; plus: a conforming disjunction has a conforming alternative by pigeonhole on "
            "the decreasing chain, normalisation of nested disjunctions preserves conformance; Lemmas/TypeCheckComplete.lean, "
            "ConformsNorm.lean) - so every disagreement is a false accept (machine_disagreement_is_false_accept); "
            "machine = specification for ALL graphs and objects on fragment F1 = every specification without a reachable "
            "disjunction (arrays, heterogeneous arrays, dictionaries, wildcard entries, streams, recursive named types, predicates, "
            "indirect requirements; machine_eq_conforms_F1, proof by the invariant memo + pending closed under obligations, "
            "Lemmas/TypeCheckSound.lean) AND on fragment F2 = disjunctions whose alternatives are private, pairwise different leaf "
            "checks (machine_eq_conforms_F2: the memo keeps the pairs of failed alternatives, but by privacy such a pair only comes up "
            "again as an alternative of a disjunction with the same alternatives on the same value AFTER that disjunction passed - a "
            "failed disjunction is fatal on F2 because no set below the top has a disjunction in progress, unwind_idx0 - so skipping it "
            "as passed is right; invariant = F1's covered-obligations invariant + AltGood with the exceptions of the disjunction in "
            "progress, Lemmas/TypeCheckSoundF2.lean; completeness on F2 without a hypothesis on the rest of the context via the "
            "closed-set form of the completeness proof, Lemmas/TypeCheckF2Closed.lean; 12 of the 19 registered types / 46 of the 61 "
            "nodes of the shipped specification are in F2, the catalog type is not: shipped_fragment_counts) -- partial: SOUNDNESS "
            "with compound, shared or indirect-carrying alternatives is false for the code as it is (memo leak) -- and eleven "
            "witness theorems. The model mirrors get_next_check/unwind/push_checks/return_check, "
            "the memo and every per-type case, one flag per defect; it agrees with the real code on verdict and error kind on every "
            "generated case. Eleven defects were found; nine are repaired (commits C08-01..09 in /repo), two remain as known findings "
            "(memo leak across alternatives of a disjunction; Any-typed entry with an indirect requirement skipped, asserted by a "
            "test of the crate) with an executable single-repair classifier and witness theorems; all recorded findings are false "
            "accepts, as the completeness theorem says they must be. Mutation-sweep follow-up: the two single-token mutants of "
            "State::unwind that no input distinguishes (`next_idx > 0` -> `>= 0`, final `return false` -> `return true`) are PROVED "
            "equivalent (unwind_mutants_equivalent, Props/C08Unwind.lean: for every configuration, graph, context, object and "
            "specification the mutated check_type finishes with the same verdict, error kind and work-loop count; both situations "
            "are reachable - witnesses - but every call site of unwind continues the get_next_check loop with the unchanged error, "
            "which discards the same pending sets one iteration later).",
}
