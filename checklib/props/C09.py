CFG = {
    "modules": ["Parsley.Props.C09", "Parsley.Lemmas.TypeCheckTerm", "Parsley.Spec.WorkBound"],
    "theorems": [
        "Parsley.C09.machine_deterministic", "Parsley.C09.machine_fuel_independent",
        "Parsley.C09.machine_steps_le_fuel", "Parsley.C09.machine_is_a_loop",
        "Parsley.C09.machine_terminates", "Parsley.C09.machine_terminates_tree", "Parsley.C09.machine_work_bound",
        "Parsley.C09.machine_finished_run_stable",
        "Parsley.C09.selfref_terminates_witness", "Parsley.C09.parent_cycle_terminates_witness",
    ],
    "partial": {},
    "n": {"quick": 2000, "thorough": 40000},
    "exhaustive": {"quick": False, "thorough": True},
    "shrink": False,
    "rule": "recursive types whose recursion node carries a refinement predicate, over cyclic object graphs (Driver/C09Pred.lean, follow-up to seed C09_11): termination with a bound on predicate calls and the verdict of Spec.gfp; "
            "reference chains of 1..400 (thorough 1500) and 10^5 links, linear and cyclic, against a recursive named type (run in a "
            "256 KiB-stack thread); the C08 small enumeration (self reference, reference to reference); random graphs over <= 4 ids "
            "with arbitrary back edges x random specs with mutually recursive names; n/5 cyclic container graphs whose cycle passes "
            "through a disjunction-typed edge where an earlier alternative fails one level down; every case is run twice; "
            "SEQUENCES of 2..4 check_type calls on ONE TypeCheckContext and one object context (`seq` lines, Driver/C09Seq.lean; "
            "corpus sequences.case): 6 name families (same name registered with different bodies; allow_indirect / split_disjunct / "
            "new_replace_typ variants of a registered type; unregistered namesakes; the name itself; anonymous checks; a recursive "
            "indirect-required type on cyclic graphs; linked dictionaries) x object pools with conforming and non-conforming objects: "
            "EVERY ordered pair of (check variant, object) steps (quick: prefixes of the pools, 3456 pairs; thorough: all 33897) = the "
            "same step twice, one check on two objects, namesakes in both orders, failing-then-passing and passing-then-failing; n/4 random "
            "sequences over the family pools with registrations between the checks + n/4 random sequences over random recursive contexts "
            "with a shadowed name and fitted objects; every step is also run ALONE on freshly built contexts and must give the same "
            "verdict and work count; ALIAS CYCLES AND CHAINS (Driver/C09Alias.lean, corpus alias_cycles.case): specification cycles made "
            "only of names and one-option disjunctions (self alias a=[a], 2-/3-cycles, lassos, chains of 1,2,3 (thorough 5) and "
            "10..50 aliases ending in a registered Integer, an anonymous Integer, a recursive dictionary type that goes back through "
            "the chain, a dangling name, or back into the chain) x link variants (one option = the alias; two options; the same "
            "option twice; predicate always / choice; indirect required / forbidden; on the last, the first or all links) x 9 "
            "positions of the name (top, first / second alternative, array element, het position, dictionary / star / stream entry, "
            "through another registered type) x scalar objects, references, a self reference, an array containing itself, a "
            "dictionary containing itself (quick 8568 cases, thorough 46440) + n/4 random alias graphs (every link a random target: "
            "arbitrary cycles) at nested positions with fitted or pooled objects; `achain n int|cyc|self` n = 1..400 and 1000, 10000 "
            "aliases in the 256 KiB-stack thread (call depth independent of the number of names followed); the verdict of these cases "
            "is also judged against the declarative oracle (greatest fixed point: an alias cycle is satisfied by every object) inside "
            "F1/F2 and for completeness (contexts of <= 8 definitions); non-trivial = named (recursive) specification or a reference cycle in the graph (sequences: and at "
            "least two checks)",
    "trusted_base": COMMON_TB + [
        "modelled, not verified: BTreeSet/VecDeque/Rc semantics; machine stack and wall-clock are observed, not modelled",
        "verif hook C08-00 (work-loop iteration counter, thread-local); harness watchdog (worker process, `hang` after 8 s)",
        "the theorem covers every flag configuration with a monotone memo (trail = false), i.e. the code as it is and the "
        "pinned commit; not the unapplied memo-leak repair"],
    "assumptions": ["specifications have no empty disjunction (panic in the code; skipped)"],
}
LEVEL = {
    "design_ref": "DESIGN.md 3.C09",
    "technique": "Lean 4 theorems over the small-step model of check_type (shared with C08) + exact step-count correspondence with the "
                 "verif counter of the real work loop + small-stack deep-chain runs",
    "text": "Machine-checked for all graphs (cyclic, self-referential) and all specifications (mutually recursive names): the machine "
            "finishes within the EXPLICIT bound workBound = costA*|objects|*|queued forms of spec nodes| + Wc + 5 iterations of the "
            "get_next_check loop (machine_terminates; potential argument over the duplicate-free memo inside a finite universe closed "
            "under everything the machine queues), hence the work-loop iteration count is <= workBound and independent of the fuel "
            "(machine_work_bound); the machine is a function (deterministic verdict and step count) and one unit of fuel is one "
            "non-recursive step (constant call depth). The judge compares the REAL iteration counter of check_type with workBound on "
            "every case and the model's counter must equal the real one. The real checker is run twice per case, and on 10^5-link "
            "chains in a 256 KiB stack (runtime half of the stack claim: observed, not proved). 'The same verdict every time it is run' "
            "is a theorem for the model (a pure function of context, graph, object, check: machine_deterministic) and is OBSERVED for the "
            "real code on sequences of checks sharing one context: each step inside a sequence equals the step run alone, equals the "
            "model, and (inside the fragments F1/F2 and for completeness) the declarative specification.",
}
