CFG = {
    "modules": ["Parsley.Props.C09"],
    "theorems": [
        "Parsley.C09.machine_deterministic", "Parsley.C09.machine_fuel_independent",
        "Parsley.C09.machine_steps_le_fuel", "Parsley.C09.machine_is_a_loop",
        "Parsley.C09.machine_terminates_partial",
        "Parsley.C09.selfref_terminates_witness", "Parsley.C09.parent_cycle_terminates_witness",
    ],
    "partial": {
        "Parsley.C09.machine_terminates_partial":
            "proved for all inputs: a run that finishes within some fuel has a verdict and step count independent of the fuel, and "
            "steps <= fuel; NOT proved: that the explicit bound 2 + 4*|objects|*|nodes|*(1+maxKids+maxWidth) on work-loop iterations "
            "always suffices (potential argument sketched in Props/C09.lean) -- the judge checks the real hook counter against that "
            "bound on every case, and the model's counter must equal the real one",
    },
    "n": {"quick": 2000, "thorough": 40000},
    "exhaustive": {"quick": False, "thorough": True},
    "shrink": False,
    "rule": "reference chains of 1..400 (thorough 1500) and 10^5 links, linear and cyclic, against a recursive named type (run in a "
            "256 KiB-stack thread); the C08 small enumeration (self reference, reference to reference); random graphs over <= 4 ids "
            "with arbitrary back edges x random specs with mutually recursive names; every case is run twice; non-trivial = named "
            "(recursive) specification or a reference cycle in the graph",
    "trusted_base": COMMON_TB + [
        "modelled, not verified: BTreeSet/VecDeque/Rc semantics; machine stack and wall-clock are observed, not modelled",
        "verif hook C08-00 (work-loop iteration counter, thread-local)"],
    "assumptions": ["specifications have no empty disjunction (panic in the code; skipped)"],
}
LEVEL = {
    "design_ref": "DESIGN.md 3.C09",
    "technique": "Lean 4 theorems over the small-step model of check_type (shared with C08) + exact step-count correspondence with the "
                 "verif counter of the real work loop + small-stack deep-chain runs",
    "text": "Machine-checked for all graphs (cyclic, self-referential) and all specifications (mutually recursive names): the machine is "
            "a function (deterministic verdict and step count), its result is independent of the fuel once it finishes, the work-loop "
            "iteration count is bounded by the fuel, and one unit of fuel is one non-recursive step (constant call depth). The explicit "
            "polynomial work bound in the number of (object, node) pairs is checked at run time against the real iteration counter on "
            "every case (partial: not proved). The real checker is run twice per case, and on 10^5-link chains in a 256 KiB stack.",
}
