CFG = {
    "modules": ["Parsley.Props.C10", "Parsley.Props.C10Keys", "Parsley.Props.C10Full", "Parsley.Props.C10Rules", "Parsley.Props.C10Machine",
                "Parsley.Props.C10Registered"],
    "theorems": [
        # structural theorems over the REGENERATED shipped specification (decide +kernel)
        "Parsley.C10.shipped_catalog_keys", "Parsley.C10.shipped_root_keys",
        "Parsley.C10.shipped_kid_requires_indirect", "Parsley.C10.shipped_kid_alternatives",
        "Parsley.C10.shipped_node_recursive", "Parsley.C10.shipped_parent_requires_indirect",
        "Parsley.C10.shipped_name_choices", "Parsley.C10.shipped_rectangles", "Parsley.C10.shipped_page_scalars",
        "Parsley.C10.shipped_page_labels_reads_nums", "Parsley.C10.shipped_names_dictionary",
        "Parsley.C10.shipped_catalog_scalars", "Parsley.C10.shipped_covers_rule_tables",
        # sweep follow-up: the EXACT entry table (key, required|optional|forbidden, kind of check) of every dictionary type of the
        # regenerated specification, and the closed list of all dictionary / stream types that occur in it (Props/C10Keys.lean)
        "Parsley.C10.shipped_catalog_entries", "Parsley.C10.shipped_root_entries", "Parsley.C10.shipped_node_entries",
        "Parsley.C10.shipped_page_entries", "Parsley.C10.shipped_template_entries", "Parsley.C10.shipped_resources_entries",
        "Parsley.C10.shipped_name_dictionary_entries", "Parsley.C10.shipped_dict_types", "Parsley.C10.rules_tables_complete",
        # rules = model of the shipped predicates, all objects
        "Parsley.C10.tree_rule_eq_model", "Parsley.C10.number_tree_rule_eq_shipped", "Parsley.C10.name_tree_rule_eq_shipped",
        # all documents
        "Parsley.C10.conforms_of_invariant", "Parsley.C10.S_closed", "Parsley.C10.sub_agree",
        "Parsley.C10.rendered_conforms_partial",
        # witnesses of the remaining engine findings
        "Parsley.C10.direct_parent_accepted_witness", "Parsley.C10.deep_violation_memo_leak_witness",
        # C10b: rules' date recogniser = model of DateStringPredicate (all byte strings); rendered values are well-typed
        "Parsley.C10.date_recogniser_eq_regex_shape", "Parsley.C10.date_bytes_isDate",
        "Parsley.C10.tree_obj_int", "Parsley.C10.tree_obj_str",
        # C10b: closed facts about the regenerated term used by the two halves
        "Parsley.C10.F_kind", "Parsley.C10.F_forbidden", "Parsley.C10.F_required", "Parsley.C10.F_alts",
        # C10b: the rejection half -- inversion of Conforms, each declared constraint bites, the path to the mutated
        # object, one local lemma per mutation class, the theorem (all documents x all valid mutations, six classes)
        "Parsley.C10.inv_dict", "Parsley.C10.inv_array", "Parsley.C10.inv_disj", "Parsley.C10.kind_sound",
        "Parsley.C10.reach", "Parsley.C10.L_drop", "Parsley.C10.L_add", "Parsley.C10.L_wrong", "Parsley.C10.L_parent",
        "Parsley.C10.L_kid", "Parsley.C10.frame", "Parsley.C10.mutated_rejected",
        "Parsley.C10.names_entry_by_reference_witness",
        # C10b: the acceptance half with EVERY optional entry of the menu
        "Parsley.C10.menu_closed", "Parsley.C10.S'_closed", "Parsley.C10.rendered_conforms",
        # C08e: the acceptance half for the MACHINE (code as it is), all documents (from C08 machine_complete)
        "Parsley.C10.shipped_wf", "Parsley.C10.machine_accepts_rendered", "Parsley.C10.machine_accepts_rendered_fuel",
        # C08f: machine = declarative reading on the twelve shipped component types inside C08's fragment F2 (the catalog type is not)
        "Parsley.C10.machine_eq_rules_shipped_partial", "Parsley.C10.shipped_F2_names", "Parsley.C10.shipped_catalog_not_F2",
        # sweep follow-up (register deleted in new_refined / new_indirect): the names registered by the real catalog_type and the
        # kind (predicate, indirect requirement) of the check found under each (Props/C10Registered.lean)
        "Parsley.C10.shipped_registered_kinds",
    ],
    "partial": {
        "Parsley.C10.machine_eq_rules_shipped_partial":
            "machine verdict (code as it is, work bound of C09) = declarative reading for ALL graphs and objects on the twelve "
            "registered component types of the shipped specification inside C08's fragment F2 (rectangle = array of four "
            "Integer|Real - the one shipped disjunction of leaves -, resources, namedictionary, nametree, numbertree, date, rotate, "
            "count, pages, parent, structparents, the empty dictionary; from C08 machine_eq_conforms_F2 and the closed fact "
            "shipped_F2_names). MISSING: the same for the catalog type and the types containing the disjunction page|node|template "
            "or a /Parent entry (catalog, root-page-tree, root-non-page-tree, kids, kid, page, template): they are outside F2 "
            "(shipped_catalog_not_F2: compound alternatives, Any entry with a bare indirect requirement) and the statement is FALSE "
            "there for the code as it is (memo-leak, any-entry-skips-indirect witnesses); so REJECTION by the machine of a mutated "
            "whole document is still not a theorem",
        "Parsley.C10.rendered_conforms_partial":
            "SUPERSEDED by the full theorems of the C10b follow-up (kept as a lemma): `rendered_conforms` (Props/C10Full.lean) proves "
            "conformance for EVERY well-formed document WITH arbitrary optional entries of the menu -- since the sweep follow-up EVERY "
            "entry the shipped catalog, page and template types declare (rules_tables_complete: the rules' tables = the shipped entry "
            "tables), the ten name trees and the eight /Resources entries: rectangles, dates, page-mode/layout/tab names, name and "
            "number trees of every shape, indirect dictionary/stream, strings, names, booleans, numbers, arbitrary arrays / "
            "dictionaries / direct streams, arrays of dictionaries, /Contents, /Resources -- on catalog, pages and templates; `mutated_rejected` (Props/C10Rules.lean) proves `not Conforms (mutate m d)` for "
            "EVERY well-formed d and EVERY valid single-rule mutation m of all six classes at every position and depth (no spec-gap "
            "class exists: the judge's `spec-gap-*` verdicts are provably unreachable for valid mutations); "
            "`date_recogniser_eq_regex_shape` proves the rules' date recogniser = the model of DateStringPredicate for every byte "
            "string. ACCEPTANCE BY THE MACHINE (Model/TypeCheck.lean, the code as it is) of every rendered well-formed document with "
            "arbitrary optional entries is now a theorem too: `machine_accepts_rendered` (Props/C10Machine.lean), from rendered_conforms, "
            "C08's completeness theorem machine_complete (all specifications, disjunctions included) and the closed fact `shipped_wf` "
            "about the regenerated term. STILL NOT PROVED (and false): REJECTION by the machine of mutated documents - the machine "
            "genuinely differs from the declarative reading there (memo leak, "
            "any-entry-skips-indirect: known findings with witnesses); machine rejection is covered by the correspondence "
            "run (model = real checker on every case) only. Boundary made explicit: `Mutation.valid` excludes name-dictionary entries "
            "given BY REFERENCE (`refEntry`); `names_entry_by_reference_witness` shows the shipped specification accepts "
            "/Names << /Dests 2 0 R >> with 2 0 R a page-tree node (the name-tree predicate is applied to the target).",
    },
    "gen": ["CatalogSpec"],
    "n": {"quick": 400, "thorough": 6000},
    "exhaustive": {"quick": True, "thorough": True},
    "shrink": False,
    "rule": "corpus (131 hand-built catalogs: every DESIGN section-4 input #21-#24, the crate's own test shapes, dates with Unicode "
            "digits / invalid UTF-8 / trailing apostrophe, reference chains, a self reference, a cyclic page tree, a directly given "
            "root; entry_tables.case: 77 one-page / one-template documents with one entry of the page, template, resources, "
            "name-dictionary or catalog type well- or ill-typed, expectation written by hand from the Rust constructors; "
            "by_reference.case: 30 one-page documents with ONE entry given BY INDIRECT REFERENCE (one or two hops) to a value that "
            "violates / satisfies the entry's refinement predicate or type: /PageMode /PageLayout /Tabs -> unlisted | listed name, "
            "/PageLabels -> malformed | well-formed number tree, /Type of catalog, root and kid -> other | right name, /LastModified "
            "-> non-date | date, /Names and a name tree of /Names by reference, /MediaBox /Count /Version -> wrong | right type); "
            "BY-REFERENCE FAMILY (both tiers): every valid wrong-type / unlisted-name mutation ALSO with the offending value moved "
            "into a NEW indirect object - the entry becomes `n 0 R` (xr1/mr1) or `n 0 R` -> `n+1 0 R` -> value (xr2/mr2) - wherever "
            "the regenerated shipped specification declares the entry with IndirectSpec Allowed on every occurrence of the type "
            "(indAllowed, read off Gen/CatalogSpec.lean; the structural entries /Pages /Kids /Parent /Outlines /Metadata /Dests have "
            "no by-reference form), expected rejected (a reference denotes its target); exhaustively on the fixed documents (quick: "
            "one hop on the one-page document and on the document with every entry, two hops on the latter, ~4640 cases; thorough: "
            "all five documents x both depths, ~14200) and at random (n documents per depth, one random valid mutation by "
            "reference each); accepted twins: each PRESENT value-typed entry of the fixed documents (xa1/xa2, ~200 cases) and one "
            "random entry of n/2 random documents per depth (vr1/vr2) moved behind one / two references, expected accepted; the "
            "by-reference expectations are cross-checked against the declarative reading of the regenerated specification "
            "(Spec.conf; a disagreement is reported as spec-gap-<class>-by-ref<hops>), the theorems mutated_rejected / "
            "rendered_conforms cover the in-place forms only; "
            "EXHAUSTIVE both tiers: 5 fixed documents (empty tree, one page, EVERY entry of the shipped catalog / page / template "
            "types incl. the ten name trees and the eight /Resources entries on catalog, page and template, a 3-level tree, empty "
            "inner nodes) x EVERY valid single-rule mutation at EVERY position (drop each required key; add the forbidden /Parent "
            "with 4 values; each name-valued key x 11 other names; EACH key of EACH dictionary type (catalog 32, page 33, template "
            "32, node, root: the rules' tables are proved to be exactly the shipped entry tables, rules_tables_complete) x one "
            "replacement value of every other object type (12 basic values) + the near misses of the key's kind: rectangles of "
            "3/5 elements or a non-number, 12 ill-formed dates, 21 number-tree nodes, 17 node shapes below each of the 10 name "
            "trees, 34 /Resources dictionaries with one ill-typed sub-entry, /Contents and /AF arrays with one element of the "
            "wrong type; every kid embedded directly; /Parent as 6 direct objects), ~7300 cases; random in place: n conforming documents "
            "(depth <= 2 quick / 3 thorough, fan-out <= 3 / 4, each optional entry of every type present at random: rectangles, "
            "dates of every length, names, numbers, number and name trees of all four shapes, arbitrary arrays, dictionaries and "
            "direct streams, arrays of dictionaries, /Contents as a stream or an array of streams, /Resources, indirect "
            "dictionary/stream targets) + 2n documents with one random valid mutation at a random position; every case is "
            "re-derived from (seed, stream, index) by the judge and must equal its rendering; non-trivial = mutated, or "
            "conforming with a kid and at least one optional entry, or with an entry moved behind references",
    "trusted_base": COMMON_TB + [
        "extraction harness/src/bin/c10.rs: serialisation of the real check graph (type constructors, entries, sizes, alternatives, "
        "indirect flags, ChoicePred values, predicate objects numbered by address) into Gen/CatalogSpec.lean; the predicate's Rust "
        "type NAME selects the hand-written model (NameTreePredicate, DateStringPredicate: Model/TypeCheck.lean treePredOK, "
        "Model/PdfDate.lean) and the key NumberTreePredicate reads its leaf array from is PROBED on two objects",
        "modelled, not verified: core::str::from_utf8 (strict UTF-8 decoder) and the regex crate on the one date pattern "
        "(deterministic descent over fixed-width groups) -- exercised by the correspondence run on 20 date strings per document kind",
        "the C08 machine model and its trusted base (BTreeSet/VecDeque/Rc semantics; predicate identity = `Pred.tagged` number)",
        "the rules Spec/CatalogRules.lean (documents, render, Mutation.valid) are the definition of `follows the shipped specification`",
        "verif hooks C08-00 and C10-00 (Predicate::verif_name/verif_choices, TypeCheckContext::verif_entries)",
    ],
    "assumptions": [
        "by-reference family (Driver/C10.lean moveBehind / mutValid / twinValid): the offending (or well-typed) VALUE is the one of a "
        "valid in-place mutation (resp. of the rendered entry), stored in a new object whose number exceeds every number defined or "
        "mentioned in the document; expectation = the in-place expectation, justified by `a reference denotes its target` and "
        "IndirectSpec Allowed of the shipped entry, and decided per case by Spec.conf on the regenerated specification (oracle) - "
        "not by a theorem: mutated_rejected assumes a graph of dictionaries and streams (DS)",
        "single-rule mutations insert DIRECT values (the replacement value is not a reference, and -- `refEntry` in Mutation.valid -- "
        "a replacement name dictionary does not give one of its name trees by reference, a replacement /Resources none of its "
        "sub-entries, a replacement /AF or /Contents array none of its elements; references inside tree nodes are what the "
        "rules ask for); giving the /Type of a kid the name of another kid type is a change of kind, not a violation",
        "documents carry pairwise distinct object numbers (Doc.ok)"],
}
LEVEL = {
    "design_ref": "DESIGN.md 3.C10",
    "technique": "Lean 4 theorems over the REGENERATED shipped specification (data translated from the real catalog_type on every run) "
                 "+ the C08 machine model on that term + rule-based oracle (documents, render, single-rule mutations) + differential "
                 "correspondence with the real check_type(catalog_type)",
    "text": "Machine-checked on every run against the specification the code builds NOW: the EXACT entry table (key, required | "
            "optional | forbidden, kind of check) of every dictionary type of the regenerated specification -- catalog (32 entries), "
            "root, inner node, page (33), template (32), resources (8), name dictionary (10) -- with the closed list of all dictionary "
            "types that occur in it (shipped_*_entries, shipped_dict_types: a removed, added, retyped or re-flagged entry breaks a "
            "proof obligation) and rules_tables_complete (the rules' tables, from which documents and mutations are generated, have "
            "exactly the shipped keys); 13 structural theorems (required/forbidden keys "
            "of catalog, root, node, page, template; kids = indirect-required disjunction node|page|template; /Parent any+indirect; the "
            "listed page-mode/layout/tab names; rectangles = 4 numbers; date, number-tree (reads /Nums) and name-tree predicates; every "
            "key of the rules' tables has the expected entry), equality of the rules' tree recogniser with the model of the two tree "
            "predicates for ALL objects, a coinduction principle for conformance, BOTH HALVES of the statement for the declarative reading of the regenerated "
            "specification: rendered_conforms - every well-formed document of any shape/fan-out/depth/numbering WITH arbitrary optional "
            "entries of the menu conforms - and mutated_rejected - every valid single-rule mutation (six classes) of every well-formed "
            "document at every position and depth does not conform -, and date_recogniser_eq_regex_shape (rules' date recogniser = "
            "model of DateStringPredicate for every byte string); and the acceptance half for the MACHINE itself, all documents: "
            "machine_accepts_rendered (the model of the real check_type accepts every rendered well-formed document with arbitrary "
            "optional entries; from rendered_conforms and C08 machine_complete). Partial only in that REJECTION by the MACHINE of mutated "
            "documents is not a theorem (the machine differs from the declarative reading exactly on the recorded engine findings, all "
            "false accepts) and is decided by the run. The run replays every valid single-rule mutation (each key of each type x one value of "
            "every other object type and the near misses of its kind) at every position of 5 documents plus random trees with every "
            "entry of every type through the real checker, the model and the rule oracle. Found and fixed: NumberTreePredicate read /Names "
            "(C10-01), years in non-ASCII digits accepted (C10-02). Remaining engine findings surface as accepted violations "
            "(/Parent given directly; a violation >= 2 levels deep next to an equal sibling): classified known, with witnesses.",
}
