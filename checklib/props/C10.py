CFG = {
    "modules": ["Parsley.Props.C10"],
    "theorems": [
        "Parsley.C10.shipped_catalog_keys", "Parsley.C10.shipped_root_keys",
        "Parsley.C10.shipped_kid_requires_indirect", "Parsley.C10.shipped_kid_alternatives",
        "Parsley.C10.shipped_node_recursive", "Parsley.C10.shipped_parent_requires_indirect",
        "Parsley.C10.shipped_name_choices", "Parsley.C10.shipped_rectangles", "Parsley.C10.shipped_page_scalars",
        "Parsley.C10.shipped_page_labels_reads_nums", "Parsley.C10.shipped_names_dictionary",
        "Parsley.C10.shipped_catalog_scalars", "Parsley.C10.shipped_covers_rule_tables",
        "Parsley.C10.tree_rule_eq_model", "Parsley.C10.number_tree_rule_eq_shipped", "Parsley.C10.name_tree_rule_eq_shipped",
        "Parsley.C10.conforms_of_invariant",
        "Parsley.C10.direct_parent_accepted_witness", "Parsley.C10.deep_violation_memo_leak_witness",
    ],
    "partial": {},
    "gen": ["CatalogSpec"],
    "n": {"quick": 400, "thorough": 8000},
    "exhaustive": {"quick": True, "thorough": True},
    "shrink": False,
    "rule": "tbd",
    "trusted_base": COMMON_TB + [],
    "assumptions": [],
}
LEVEL = {"design_ref": "DESIGN.md 3.C10", "technique": "tbd", "text": "tbd"}
