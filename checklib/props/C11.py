CFG = {
    "modules": ["Parsley.Props.C11", "Parsley.Props.C11Spec"],
    "theorems": [
        "Parsley.C11.resolve_fuel_sufficient", "Parsley.C11.dom_terminates", "Parsley.C11.dom_never_panics",
        "Parsley.C11.resolveChain_eq_deref",
        "Parsley.C11.dom_matches_spec", "Parsley.C11.dom_error_or_complete",
        "Parsley.C11.dom_records_reachable_once", "Parsley.C11.dom_resources_nearest",
        "Parsley.C11.dom_contents_in_order", "Parsley.C11.dom_page_resources_on_path",
        "Parsley.C11.spec_dom_facts", "Parsley.C11.spec_nearest_on_path", "Parsley.C11.spec_recs_nodup", "Parsley.C11.sortedKeys_dictInsert",
    ],
    "partial": {},
    "n": {"quick": 2500, "thorough": 60000},
    "exhaustive": {"quick": False, "thorough": True},
    "shrink": False,
    "rule": "corpus (defects 27/28, loops, sharing; chains.case = the chain family below; longchains.case = 16/17/18 links, "
            "tails 16/17 into a cycle, 16/17 links to an undefined object at each position + the one-page document with its own "
            "/Resources behind 16/17/200 links under a root that declares other fonts) + chain family (every reference-chain "
            "shape: direct, acyclic chain of 1-4 links, self loop, cycle of 2/3 through the start, lasso with tail 1-3 into a cycle of "
            "1-3 not containing the start, dangling after 0-2 links, at each of 14 positions: root /Kids, node /Kids, kid entry, "
            "/Contents, /Contents array, /Contents element, root /Resources, node /Resources, page /Resources, /Font value, "
            "font entry, /Encoding, /FontDescriptor, /FontFile2; 277 graphs tagged any + 171 tagged tc where the real check_type "
            "accepts; a case the implementation does not finish is reported as hang/crash = bad) + long-chain family (systematic "
            "sweep, at each of the 14 positions: an acyclic chain of EVERY length 0..40 and of 64, 100, 300 links in front of the "
            "value; the same 44 lengths as the tail in front of a cycle of 1-3 links (one cycle length per tail in quick, all three "
            "in thorough) and as the number of links in front of an undefined object; the root always declares font F1, the inner "
            "node's own resources are F3 and the page's own are F2, so a resolver that gives up on a long chain shows up as "
            "wrongly inherited resources, and as a spurious error under /Kids /Contents /Font /Encoding; the oracle dereferences "
            "with no bound other than the number of defined objects = cycle detection; 1845 graphs in quick, 3077 in thorough, "
            "tagged tc where the real check_type accepts) + wrong-kind family (kinds.case = 41 minimal instances; at each of the "
            "14 positions, behind 0-3 links, a value of every kind the converter does NOT expect there - it must be reported / "
            "skipped without being descended into: null, boolean, integer, string, name, empty array, empty dictionary, stream; "
            "the position's well-formed value wrapped in arrays 1-3 deep, mixed with good elements, through 1/2/3/8/40 array "
            "objects each listing the next, and inside a dictionary that offers it under every key a converter looks for (direct "
            "and as an object); CYCLES THROUGH CONTAINERS, which resolve_chain's followed-set does not guard: an array object that "
            "lists itself (alone, after a good element, inside a direct array, inside a nested direct array), 2 and 3 arrays listing "
            "each other, a tail of 1-3 array objects into a cycle of 1-2, array -> link -> link -> array, self-referential "
            "dictionary, dictionary pair, dictionary <-> array; 39 values x 14 positions x 4 = 2184 graphs, tagged any; a "
            "stack overflow of the harness process is recorded as crash:<rc> for that case = bad crash) + small family (root and one inner node with every kids list of "
            "length <=2 over {root,node,4,5} x 3 shapes of object 4 x 4 resource placements: direct / 1 link / 2 links; "
            "every 7th in quick, all 5292 in thorough) + random page trees (depth <=3, fan-out <=3, /Kids /Contents "
            "/Resources /Font /Encoding behind 0-3 links, fonts direct or indirect): 33% type-correct by construction "
            "(tag tc: the REAL check_type(catalog_type) must accept, else the case is flagged), 17% plus a shared or "
            "cyclic kid, 17% with a random chain shape at a random chain position (tc when the checker does not constrain it; half of them a long "
            "shape: chain / tail into a cycle / dangling with 0-47, 64, 100 or 300 links), every generated /Kids /Contents "
            "/Resources /Font chain is long (4-44 links) one time in 20, "
            "33% with one single-rule damage (self-referential or 2-cyclic /Kids /Contents /Resources object, "
            "dangling reference, missing/ill-typed key, defective font); n/5 further random trees with one random wrong-kind "
            "value (same 39 values) behind 0-3 links at a random one of 9 positions (/Kids, /Contents, /Contents element "
            "between two good streams, /Resources, /Font, font entry, /Encoding, /FontDescriptor, extra kid entry). The case "
            "decoder drops dictionary entries whose value is null, as the real dictionary parser does. "
            "+ GENERATION family (all the families above use generation 0 throughout; generations.case = 83 minimal instances): "
            "an identifier is the pair (number, generation), `3 0 obj` and `3 1 obj` are unrelated objects and `3 2 R` denotes "
            "nothing when only those are defined, so every set/map of identifiers in the converter (examined, followed, pages, "
            "font_dicts, font_descrs, parent, kids) must key by the pair. Built by RENAMING a generation-0 graph through an injective "
            "map number -> (number, generation) applied to definitions and to every reference (undefined targets included; the "
            "catalog stays 1 0): 10 schemes - gens (n,n), maxgen (n,65535), onenum (EVERY object has number 1 like the catalog), "
            "onenum-desc (all number 7, generations descending = map order reversed), pairs-a/b, mod2, mod3 (neighbouring numbers "
            "/ residue classes share: root+page, page+node, two pages, two nodes, page+stream, page+resources, fonts+descriptors), "
            "links / onpage (only the chain links / containers / undefined targets of the family share number 50 / the number "
            "of page 3 0). Renamed: the 277 chain-family graphs x 10 schemes (tc where check_type accepts); the small family "
            "(shared kids, cycles, root as kid) under the 6 colliding schemes (every 7th graph x 1 scheme in quick, all 5292 x 3 in "
            "thorough); the wrong-kind family (every 7th x 1 of 8 schemes in quick, all 2184 x 2 in thorough); the long-chain family "
            "with all links in ONE object number (every 5th in quick, all x {links, onenum} in thorough); n/5 random trees of "
            "all five kinds under a random renaming n -> (n mod m + a, n div m + b) or (n div m + a, n mod m + b), m = 1..4, "
            "b in {1,2,7,65000}. WRONG-GENERATION variants at each of the 14 positions x 3 placements (own number 50 / the number "
            "of page 3 0 / own number while every other object has generation 2): reference to generation 1 when only 0 is defined "
            "and vice versa, an integer decoy in the sibling generation (defined before / after the value; decoy referenced), "
            "the same value under two generations (provenance must name the referenced one), a chain 3 -> 2 -> 1 -> value inside "
            "one number, a link to an undefined generation of its own number (9 x 14 x 3 = 378). 24 hand-built minimal "
            "instances (two/three pages, page+node, two nodes, root+kids in one number; kid of undefined generation before / "
            "after / between defined ones; /Pages with a wrong generation; cycle through generations; /Contents, /Contents "
            "array, /Resources -> /Font -> font -> descriptor -> font file inside the page's number; two fonts / two "
            "descriptors in one number; font / descriptor / contents of undefined generation). The oracle keys seen-set, "
            "definitions and records by the pair. "
            "Non-trivial = expected DOM has >=3 records "
            "including an inner node, or the graph contains a top-level reference object (chain link or loop), or an array "
            "that lists an array (directly or through a reference to an array object), or two identifiers (defined or "
            "referenced) that share the object number and differ in the generation.",
    "trusted_base": COMMON_TB + [
        "modelled, not verified: Rc identity as provenance (identifier the Rc was cloned from), BTreeMap/BTreeSet as sorted "
        "association lists, std::str::from_utf8 as the Unicode Table 3-7 recogniser utf8Valid",
        "harness: PDF text printer of the case graph + the real parse_pdf_indirect_obj build the PDFObjContext; private "
        "fields parent/count/root kids are read off the derived Debug text",
    ],
    "assumptions": [
        "hypothesis DefsWF of the section-G theorems of Props/C11Spec (dom_matches_spec, dom_error_or_complete, "
        "dom_records_reachable_once, dom_resources_nearest, dom_contents_in_order): every dictionary inside a defined object "
        "has strictly increasing keys, i.e. the association list that models a Rust BTreeMap really is a map (the converters "
        "iterate the resource and /Font dictionaries; for a list with a repeated /Font key the statements are false, and no "
        "BTreeMap corresponds to such a list). sortedKeys_dictInsert proves that the model's BTreeMap::insert keeps the "
        "invariant; the judge rejects (class notmap) any case outside it. resolveChain_eq_deref, dom_terminates, "
        "dom_never_panics and the spec-only theorems have no hypothesis.",
        "object graphs of the correspondence run are those the real object parser produces from the printed document",
    ],
}
LEVEL = {
    "design_ref": "DESIGN.md 3.C11",
    "technique": "Lean 4 theorems over an executable model of to_page_dom (work queue, examined set, iterative resolve_chain) "
                 "+ differential correspondence with the real to_page_dom on generated page trees, judged by a declarative BFS spec",
    "text": "Machine-checked for ALL object graphs and catalogs: the model of the fixed to_page_dom never panics "
            "(q.next().unwrap() unreachable), resolve_chain follows at most |defs| links and the work loop runs at most |defs|+1 "
            "times, and the iterative followed-set resolve_chain equals the spec's hop-bounded dereference (pigeonhole on |defs|; "
            "same value, same provenance, None for undefined targets and loops). For ALL object graphs whose dictionaries are maps "
            "(keys strictly increasing = BTreeMap) and ALL catalogs: to_page_dom reports an error exactly when the declarative "
            "spec (Spec/PageTree.specDom: level-by-level BFS over defined kids, first discovery wins, scopes passed down) expects "
            "one, and otherwise dom.pages has exactly one entry per spec record under the record's identifier (keys are a "
            "duplicate-free permutation of the discovered identifiers), each entry carrying the record's parent, count, kids, font "
            "resource names and content-stream identities in document order. About the spec alone (no hypothesis): identifiers are "
            "discovered once, the discovered set contains every defined kid of the root and of every recorded node, and every "
            "record is built from the definition of its identifier with its own resources first, else the effective resources "
            "of the earlier record that lists it as a kid, else the root's (nearest declaring node on the discovery path). "
            "Every run additionally decides the same spec against the real to_page_dom (oracle) and diffs full DOM observables "
            "between implementation and model.",
}
