CFG = {
    "modules": ["Parsley.Props.C11"],
    "theorems": [
        "Parsley.C11.resolve_fuel_sufficient", "Parsley.C11.dom_terminates", "Parsley.C11.dom_never_panics",
    ],
    "partial": {
        "dom_records_reachable_once (NOT PROVED)": "keys of dom.pages = BFS-discovered set of the spec, each once; decided per run by the oracle (Spec/PageTree.discover) on every case, not by a theorem",
        "dom_resources_nearest (NOT PROVED)": "page resources = nearest declaring node on the discovery path; oracle-checked only",
        "dom_contents_in_order (NOT PROVED)": "contents = dereferenced /Contents in document order; needs resolveChain = hop-bounded deref (pigeonhole); oracle-checked only",
        "dom_error_or_complete (NOT PROVED)": "error iff some discovered object is defective; oracle-checked only",
    },
    "n": {"quick": 2500, "thorough": 60000},
    "exhaustive": {"quick": False, "thorough": True},
    "shrink": False,
    "rule": "corpus (defects 27/28, loops, sharing) + small family (root and one inner node with every kids list of "
            "length <=2 over {root,node,4,5} x 3 shapes of object 4 x 4 resource placements: direct / 1 link / 2 links; "
            "every 7th in quick, all 5292 in thorough) + random page trees (depth <=3, fan-out <=3, /Kids /Contents "
            "/Resources /Font /Encoding behind 0-3 links, fonts direct or indirect): 40% type-correct by construction "
            "(tag tc: the REAL check_type(catalog_type) must accept, else the case is flagged), 20% plus a shared or "
            "cyclic kid, 40% with one single-rule damage (self-referential or 2-cyclic /Kids /Contents /Resources object, "
            "dangling reference, missing/ill-typed key, defective font). Non-trivial = expected DOM has >=3 records "
            "including an inner node, or the graph contains a top-level reference object (chain link or loop).",
    "trusted_base": COMMON_TB + [
        "modelled, not verified: Rc identity as provenance (identifier the Rc was cloned from), BTreeMap/BTreeSet as sorted "
        "association lists, std::str::from_utf8 as the Unicode Table 3-7 recogniser utf8Valid",
        "harness: PDF text printer of the case graph + the real parse_pdf_indirect_obj build the PDFObjContext; private "
        "fields parent/count/root kids are read off the derived Debug text",
    ],
    "assumptions": ["object graphs are those the real object parser produces from the printed document (dictionary keys unique and sorted)"],
}
LEVEL = {
    "design_ref": "DESIGN.md 3.C11",
    "technique": "Lean 4 theorems over an executable model of to_page_dom (work queue, examined set, iterative resolve_chain) "
                 "+ differential correspondence with the real to_page_dom on generated page trees, judged by a declarative BFS spec",
    "text": "Machine-checked for ALL object graphs and catalogs: the model of the fixed to_page_dom never panics "
            "(q.next().unwrap() unreachable), resolve_chain follows at most |defs| links and the work loop runs at most |defs|+1 "
            "times (fuel-independence beyond |defs|+1, via the measure queue length + definitions not yet examined), so DOM "
            "construction terminates on cyclic/shared /Kids and looping reference chains. Exactly-once recording, nearest-ancestor "
            "resources and content order are NOT proved; they are decided on every run by an independent declarative BFS spec "
            "(oracle) against the real to_page_dom, with an impl-vs-model correspondence on full DOM observables.",
}
