CFG = {
    "modules": ["Parsley.Props.C12"],
    "theorems": [
        "Parsley.C12.transition_table_eq_fig9",
    ],
    "gen": ["Operators"],
    "n": {"quick": 1500, "thorough": 60000},
    "exhaustive": {"quick": True, "thorough": True},
    "rule": "TODO",
    "trusted_base": COMMON_TB + [],
    "assumptions": [],
}
LEVEL = {"design_ref": "DESIGN.md 3.C12", "technique": "TODO", "text": "TODO"}
