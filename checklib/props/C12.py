CFG = {
    "modules": ["Parsley.Props.C12"],
    "theorems": [
        "Parsley.C12.transition_table_eq_fig9",
        "Parsley.C12.table_rows_eq_fig9",
        "Parsley.C12.table_rows_dispatch",
        "Parsley.C12.runToks_insts",
        "Parsley.Content.extract_of_lex",
        "Parsley.ContentLex.realP_num",
        "Parsley.ContentLex.litLoop_bal",
        "Parsley.ContentLex.hexStringP_ok",
        "Parsley.ContentLex.nameP_ok",
        "Parsley.ContentLex.operatorP_ok",
        "Parsley.ContentLex.numOrRefP_num",
        "Parsley.ContentLex.arrLoopP_els",
        "Parsley.ContentLex.dictLoopP_ents",
        "Parsley.ContentLex.csObjP_operand",
        "Parsley.ContentLex.lexAll_prog",
        "Parsley.C12.lexer_roundtrip",
        "Parsley.C12.valid_walk_extracts",
        "Parsley.C12.deviation_rejected",
        "Parsley.C12.extract_total_on_trees",
    ],
    "partial": {},
    "gen": ["Operators"],
    "n": {"quick": 1500, "thorough": 60000},
    "exhaustive": {"quick": True, "thorough": True},
    "rule": "corpus (DESIGN 4 #18 #19 #20 #33 inputs, one stream using every text operator and separator token, raw edge cases); "
            "EXHAUSTIVE both tiers: 5 nodes x (73 table operators + 1 unknown) x {outside, inside BX} x {end of stream, followed by each of "
            "5 probe operators whose acceptance pattern identifies the node} = 4440 cases, state reached by the shortest prefix; "
            "random: n Figure-9 walks (<=20 instances, spec automaton, text-heavy bias, BX/EX sections with unknown operators, arbitrary "
            "operands: numbers up to 18+18 digits, names, nested/escaped literal strings, hex strings, arrays, dictionaries, random "
            "white space/comments; one number in four drawn from a pool of boundary spellings - zeros as 0 -0 0.0 .0 0. 00 . -. , i32/u32 "
            "boundaries, longest spellings; Td TD Tm Tc Tw Tz TL Ts Tr get the operands the standard prescribes every other time) + n single-step deviations (operator replaced/inserted/dropped, operand dropped/added/replaced/rotated, "
            "text-showing operator with arbitrary operands) + n raw streams (a deviated stream truncated or with one byte damaged; "
            "correspondence only, oracle skips). Oracle = Fig9.expected on the syntax tree carried by the case (checked: tree well-formed "
            "and renders to exactly the stream). "
            "OPERAND-VALUE SWEEP (kind `opv`, both tiers, corpus operand_values.case): every operator with numeric operands whose effect on the token "
            "list is documented - Td TD Tm T* (line moves: one separator token for Td TD T*, whatever the operands), Tc Tw Tz TL Tf Tr Ts, ' \" - with "
            "operands from a boundary set of 71 SPELLINGS (14 zeros: 0 -0 0.0 .0 0. 00 -0.00 -.0 . -. ... - some lex to the integer 0, some to a "
            "real; small values and integer-valued reals 1.0 1. 01; i32/u32/i64/u64/i128 boundaries with neighbours, as integers and as `N.`/`N.0`; "
            "18+18, 38, 39, 40 digits, 38/39 fraction digits): all-equal tuples, every value in every position over a base of 0s resp. 1s, a "
            "different zero spelling in every position, all pairs of 15 core values (two-operand operators), operand count off (0, k-1, k+1, 2k+1 "
            "zeros), another operand kind in one numeric position, `+0 +1 +.5 +0.0` (a `+` makes an unknown-operator token); each instance placed "
            "between two shown strings, at the start / at the end of a text object, alone, twice in a row, inside BX..EX, and (text state) at page "
            "level (quick: the position sweep in 2 and the pairs in 3 of the 7 placements, thorough: all). Oracle: Fig9.expected of the tree, "
            "compared EXACTLY (separator tokens are never collapsed); numbers in front of an operator may exceed the 18+18 digits of Fig9.numOK "
            "(judge-side `numWide`); only a number of more than 38 digits (10^38-1 < 2^127) allows the answer err instead (implementation limit). "
            "Quick 11499 cases + 13848 view twins, thorough 20340 + 24503. "
            "VIEW TWINS (Driver/Views.lean, corpus views.case): EVERY case above (table, walk, dev, raw) runs a second time as `vw <steps> <pre> <suf> <case>` - the stream is a window strictly inside ONE larger allocation "
            "pre ++ window ++ suf, selected by a chain of RestrictView / RestrictViewFrom steps (the harness checks that the view shows exactly the window), and TextExtractor::parse runs on that view (the extractor's buffer); "
            "bytes in front of the window cycled over 1, 7, 11, 2, 0, 13, 1000, 64, 5, 3 of them (header-like text with complete objects, or random bytes; period 16) x chain of restrictions (RestrictView; RestrictViewFrom; From then View; View then View with junk on both sides of the inner window; View then From; a View from 0 then From; three deep; period 7) x what lies behind the window (period 5). The extractor's output carries no offsets, so the unchanged code answers exactly what it answers on the plain case; model and oracle are computed from the window's bytes alone (model of a view = model of its "
            "window: Parsley.C17.view_refines_copy); classes of rejected view cases carry the prefix `view-`. What lies behind the window continues the stream: behind a truncated stream the rest of it, otherwise more operands and "
            "text-showing operators (` (more) Tj`, `) Tj ET`, `j`, `*`, `] TJ`, a whole text object); one random structured case in five gets a further twin whose window ENDS AFTER AN EARLIER INSTRUCTION (expected: Fig9.expected of that shorter "
            "program; the remaining instructions lie behind the view). CUT family (view only): a fixed text-heavy program + 7 (thorough 59) random walks over known operators, cut at EVERY byte, the rest behind the window: the extractor must "
            "answer err or tokens that are a prefix of Fig9.expected of the whole program (`cut-unsound`). Per tier (without the operand-value sweep): quick 8940 ordinary + 9394 view twins + 779 cuts, thorough 184440 + 202950 + 4639. "
            "non-trivial = structured case with >= 2 operator instances (a view case counts when there are bytes in front of or behind the window)",
    "trusted_base": COMMON_TB + [
        "harness c12 extract: serialisation of the real OPERATORS const into Parsley/Gen/Operators.lean (name bytes, Debug names of OpType/ArgType)",
        "Spec/Fig9.lean: transcription of ISO 32000-1 Table 51, Figure 9 (BX/EX permitted at page level and in text objects; d0/d1 nowhere) and Table 109",
        "modelled, not verified: ParseBuffer primitives (peek/exact/parse_allowed_bytes/parse_bytes_until) as list operations on the remaining input; "
        "BTreeMap opinfo as last-match lookup; std::str::from_utf8 as a hand-written validator",
        "Spec/Fig9.lean `Prog.ok`/`render`: the class of streams the theorems quantify over (atoms, arrays and dictionaries of atoms - no nested "
        "arrays/dictionaries, no `#` escapes in names/operators, numbers of at most 18+18 digits without `+`, complete comments); "
        "streams outside that class are covered by the correspondence run only - except numbers of more than 18+18 digits written directly in "
        "front of an operator, which the judge of the operand-value sweep admits (Driver/C12.lean numWide/okWide; expected tokens still Fig9.expected)",
    ],
    "assumptions": [
        "fresh PDFObjContext per content stream with max_depth >= 1, unrestricted ParseBuffer (views: C17)",
        "Rust tree with pending fixes C12-01..04 applied (q/Q rows, TJ operand count, operand kinds by position, end of stream at an operator boundary); "
        "on the unfixed tree the check reports VIOLATION with a replay for each defect class",
    ],
}
LEVEL = {
    "design_ref": "DESIGN.md 3.C12",
    "technique": "Lean 4 theorems over an executable model of CSObjP/TextExtractor + regenerated OPERATORS table decided against an independent "
                 "Figure-9 automaton + differential correspondence (exhaustive state x operator table, random walks, deviations) with the Rust extractor",
    "text": "Machine-checked: (1) transition_table_eq_fig9 - for every operator name and every state the implementation's lookup+transition "
            "equals the Figure-9 step of an automaton written from ISO 32000-1 Table 51/Figure 9, re-proved by kernel evaluation over the table "
            "regenerated from the Rust const on every run (all 73x5 pairs; names outside the table are unknown to both); (2) runToks_insts + "
            "extract_of_lex - for ALL inputs the extractor loop (fuel, white space, loop exits) is a machine over the token sequence, and for ALL "
            "syntax trees that machine returns exactly Fig9.expected (string operands byte for byte, separator tokens, BX/EX counter, operand "
            "count/kind checks of Tj ' \" TJ) or an error; (3) lexer_roundtrip (Lemmas/ContentLex.lean) - for EVERY well-formed syntax tree and every "
            "max_depth >= 1 the tokenizer model (white space/comments, RealP/IntegerP with their overflow checks, literal and hex strings, names, "
            "operators, keywords, parse_pdf_obj with the `n g R` look-ahead, the array and dictionary loops with the fuel 2*len+2) splits the "
            "rendered bytes into exactly the tokens of the tree; hence valid_walk_extracts / deviation_rejected / extract_total_on_trees "
            "UNCONDITIONALLY for every well-formed stream (no lexing hypothesis; no bound on stream length, operand count or BX depth; number spellings of up to 18+18 digits as Prog.ok admits), and the same streams are run through the real "
            "code on every generated case. Four genuine defects (DESIGN 4 #18 #19 #20 #33) reproduced and repaired by "
            "patches C12-01..04; the model mirrors the repaired code.",
}
