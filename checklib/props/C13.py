CFG = {
    "modules": ["Parsley.Props.C13"],
    "theorems": [
        "Parsley.C13.table_roundtrip",
        "Parsley.C13.xrefstream_rows_roundtrip",
        "Parsley.C13.numbering_consecutive",
        "Parsley.C13.dictinfo_rejects",
        "Parsley.C13.dictinfo_accepts",
        "Parsley.C13.dictinfo_never_panics",
        "Parsley.C13.entry_spec",
        "Parsley.C13.entry_malformed_rejected",
        "Parsley.C13.table_malformed_later_subsection_rejected",
        "Parsley.C13.table_malformed_rejected",
        "Parsley.C13.xrefstream_spec",
        "Parsley.C13.table_never_panics",
        "Parsley.C13.parseStream_never_panics",
        "Parsley.C13.wsEolLoop_fuel_sufficient",
        "Parsley.C13.sectLoop_fuel_sufficient",
        "Parsley.C13.rows_terminate",
        "Parsley.C13.rows_hostile_count_rejected",
        "Parsley.C13.old_loop_truncates_witness",
        "Parsley.C13.fixed_loop_rejects_witness",
    ],
    "partial": {},
    "n": {"quick": 400, "thorough": 20000},
    "exhaustive": {"quick": False, "thorough": False},
    "rule": "the input space is infinite (exhaustive=false); fully enumerated sub-spaces on every run: every 2-byte terminator over {SP,CR,LF,NUL,x} x 4 type letters x "
            "entry position (first subsection / first and second entry of a later subsection), the 3 legal terminators x 10 "
            "continuations, all 125 width triples (listed below); corpus (defect #32 inputs, spot checks, past failures, views.case: 15 minimal cases on restricted views); "
            "EVERY generated case below is run twice: on a plain ParseBuffer and (case tag `vw <steps> <prehex> <sufhex> <case>`, Driver/ViewTwin.lean, same design as C05) on a RESTRICTED VIEW whose window is the "
            "buffer the parser is given (tab: the table bytes, xs: the stream content, xz: the rows as compressed by the harness - sizes written relative to the window length n) inside ONE larger allocation "
            "pre ++ window ++ suf; the harness applies the chain of RestrictView / RestrictViewFrom steps, checks that the view shows exactly the window, and runs XrefSectP / XrefStreamP on the view - "
            "bytes in front of the window 1 / 7 / 11 / 1000 (also 0, 2, 3, 5, 13, 64; a rotation of a text holding a header line, a complete cross-reference stream object, a complete table, trailer and startxref; "
            "or random bytes) x chain {RestrictView, RestrictViewFrom, From then View, View then View with junk on both sides of the inner window, View then From, View starting at 0 then From, View-From-View} "
            "x bytes behind the window that CONTINUE the construct {a further subsection (with / without a leading blank), further entries then a subsection, the cut-off rest of a truncated table / entry / "
            "of truncated rows, further rows, trailer or endstream text, an empty zlib stream, nothing} (periods 16 x 7 x 5, pairwise coprime: all 560 combinations within any 560 consecutive cases); "
            "expectation = the expectation on the window's bytes alone (model of a view = model of its window, justified by C17's theorem view_refines_copy; the unchanged code reports <pos>, the section's span, "
            "the cursor, every entry's start offset and the stream parser's end cursor as cursors of the view it was given: nothing is re-based to the allocation, nothing outside the window is read); "
            "oracle classes of view cases are prefixed view-; plus the CUT family: 3 tables of three subsections (3 spellings of header EOL / leading blanks) with the view ending at EVERY byte "
            "(thorough; quick: every 3rd position and every subsection end), the rest of the table and a trailer lying behind the view - a described legal table (exactly the complete subsections) where the "
            "cut falls on a subsection end, raw elsewhere - and 3 four-row streams (W [1 2 1], [0 1 0], [2 4 3]) with the view ending at every byte of the rows, the remaining rows behind it (rejected unless complete); "
            "all 125 width triples {0..4}^3 x with/without /Index x random rows (plus truncated rows, a type byte "
            "above 2, a wide type field with non-zero high bytes and a legal low byte, Flate with none/Predictor 1/PNG-Up at two compression levels); the compressor's WINDOW varied (seed C06_8: a conformant zlib stream may declare any window 2^8..2^15, RFC 1950 CINFO 0..7, first byte 08 / 18 / .. / 78) - "
            "xz modes <p>a..<p>g = real zlib with deflateInit2 windowBits 9..15 (headers 18 xx .. 78 xx), <p>h = header 08 99 on a stream of at most 256 bytes - x {no parameters, /Predictor 1, PNG Up} x {plain, /Index} and on the large table "
            "(32 cases + view twins; corpus zlib_windows.case); 44 single-field corruptions of the stream "
            "dictionary; n random legal tables (1-4 subsections, random starts up to 2^63-1000, leading zeros, blanks, header EOLs, "
            "0-5 entries, 3 terminators) each with 2 (quick) or all 26 (thorough) single-field corruptions (incl. sign/blank in the number fields) of one entry, one "
            "random byte alteration, one truncation and one shifted start; header oddities; one large table and stream. "
            "Oracle: described cases are judged against the encoder's entries; in addition EVERY accepted table (raw, mutated or "
            "described) is re-read from the bytes by the spec alone (xref keyword, claimed headers, fixed 20-byte form at every "
            "claimed entry offset, claimed value and numbering) - class accepts-malformed-entry. "
            "non-trivial = described table with >= 2 subsections or a corruption; stream case with >= 4 content bytes or a "
            "non-standard dictionary; a case on a view: the case is non-trivial (a raw table: >= 20 bytes) and the window is a proper part of the allocation",
    "trusted_base": COMMON_TB + [
        "modelled, not verified: ParseBuffer (extract/exact/peek/parse_allowed_bytes) as list operations on a whole buffer; a restricted view is modelled by its window (the model of a `vw` case is the "
        "model of the case on the window's bytes, after checking that the chain of RestrictView / RestrictViewFrom steps selects that window by the bounds rules of transforms.rs; that ParseBuffer's primitives on a "
        "view behave like those of a buffer holding the window is C17's theorem view_refines_copy) - the correspondence run itself exercises the real parsers on real views; "
        "str::parse::<usize> on ASCII digits as positional decimal value; BTreeMap dictionary as an association list with unique keys",
        "external to the model: the filter transforms (FlateDecode, predictors) are a parameter of the model; `xz` cases check the "
        "composition with the real transforms against rows compressed by the harness (flate2) - their correctness is C06/C07",
        "harness builds the StreamT/DictT through the crate's public constructors from a small dictionary description language "
        "(parsed independently in Lean and in Rust)",
    ],
    "assumptions": [
        "theorems: the buffer is a byte list with the cursor inside it (an unrestricted ParseBuffer, or by C17 the window of a view); correspondence: plain buffers and restricted views of every shape listed in the rule",
        "table_roundtrip: every subsection holds at least one entry, subsection starts and counts are below 2^63 (i64 integers), "
        "blanks before a later header contain no CR; what follows the table does not start a number after optional blanks",
        "xref-stream theorems: integers in the dictionary are i64 values (so start + count cannot overflow usize)",
    ],
}
LEVEL = {
    "design_ref": "DESIGN.md 3.C13",
    "technique": "Lean 4 theorems over an executable line-by-line model of XrefEntP/XrefSubSectP/XrefSectP and XrefStreamP "
                 "(get_dict_info, filters, parse_stream) + differential correspondence with the Rust parsers, judged by an "
                 "independent declarative spec (encoders, 20-byte entry form, dictionary meaning, row slicing); every case also on a restricted view (window inside a larger allocation)",
    "text": "Machine-checked proof, for all inputs: (table) XrefSectP on the encoding of any non-empty list of non-empty subsections "
            "(any partition, starts < 2^63, header numbers with any leading zeros, blanks, any header EOL white space) of entries "
            "with any of the three terminators returns exactly those entries numbered consecutively from each subsection's start "
            "(table_roundtrip); XrefEntP accepts iff the 20 bytes under the cursor are in the fixed form, with value/span/cursor as "
            "specified, and never panics (entry_spec); a malformed entry reached by the count of a second or later subsection makes "
            "the whole section fail (table_malformed_later_subsection_rejected - the fixed code; the shipped loop is shown to "
            "truncate silently by old_loop_truncates_witness; table_malformed_rejected covers the first subsection too); (stream) for all widths in {0..4}^3, /Index partitions or the "
            "implicit [0 Size], rows fitting the widths decode to exactly the written entries (xrefstream_rows_roundtrip); "
            "get_dict_info rejects iff the dictionary is malformed in the listed ways and otherwise returns the denoted "
            "subsections and widths, never panicking (dictinfo_rejects/accepts/never_panics); entries are numbered start+k on every "
            "accepted input (numbering_consecutive); each row consumes >= 1 byte so a hostile /Size fails at the first missing row "
            "(rows_terminate, rows_hostile_count_rejected); for unfiltered, unencrypted streams XrefStreamP accepts exactly when the "
            "declarative slicing of the content accepts and returns exactly its entries - truncated rows, types above 2 and all "
            "dictionary malformations are rejected (xrefstream_spec); neither decoder can panic and the fuel of the two modelled "
            "loops suffices (table_never_panics, parseStream_never_panics, wsEolLoop/sectLoop_fuel_sufficient). Tied to the code by a correspondence run over encoder-generated tables "
            "and streams, single-field corruptions, all 125 width triples and Flate+PNG-Up compositions, each run on a plain buffer and again on a restricted view "
            "(RestrictView / RestrictViewFrom / views of views; junk in front of the window, table- or row-continuing bytes behind it; views ending at every byte of a table / of the rows), where the result "
            "must be that of the window's bytes alone.",
}
