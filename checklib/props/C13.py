CFG = {
    "modules": ["Parsley.Props.C13"],
    "theorems": [],
    "n": {"quick": 400, "thorough": 20000},
    "exhaustive": {"quick": True, "thorough": True},
    "rule": "tbd",
    "trusted_base": COMMON_TB + [],
    "assumptions": [],
}
LEVEL = {"design_ref": "DESIGN.md 3.C13", "technique": "tbd", "text": "tbd"}
