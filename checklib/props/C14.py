CFG = {
    "modules": ["Parsley.Props.C14", "Parsley.Props.C14Spelled"],
    "theorems": [
        "Parsley.C14.objstm_roundtrip", "Parsley.C14.objstm_accepted_wellformed", "Parsley.C14.objstm_never_panics",
        "Parsley.C14.objstm_rejects_order", "Parsley.C14.objstm_rejects_short", "Parsley.C14.first_beyond_rejected",
        "Parsley.C14.overrun_rejected", "Parsley.C14.defined_rejected", "Parsley.C14.repeated_rejected",
        "Parsley.C14.offset_beyond_rejected", "Parsley.C14.defect17_witness",
        "Parsley.ObjStm.readAt_eq_parseObj", "Parsley.ObjStm.metaLoop_good", "Parsley.ObjStm.streamLoop_good", "Parsley.ObjStm.streamLoop_complete",
        # C14b: composition with C02's spell_parse (every value, every legal spelling) and headers with comments
        "Parsley.C14.objstm_spelled_roundtrip", "Parsley.C14.extracts_spelled", "Parsley.C14.objstm_roundtrip_c",
        "Parsley.C14.objstm_roundtrip_of_header", "Parsley.C14.header_accepts_comments",
        "Parsley.C14.metaLoop_accept_c", "Parsley.C14.metaLoop_short_c", "Parsley.C14.metaLoop_order_c",
        "Parsley.C14.header_order_rejected_c", "Parsley.C14.header_short_rejected_c",
        "Parsley.C14.objstm_rejects_order_c", "Parsley.C14.objstm_rejects_short_c",
        "Parsley.C14.layoutsC_of_layoutsOK", "Parsley.C14.pairsOf_inc", "Parsley.C14.exMs_ok",
    ],
    "partial": {
        "(filters)": "the filter decoders are a parameter of the model (C06 owns them): the theorems hold for every decoder function; "
            "the real FlateDecode path is exercised by the harness on generated zlib streams",
    },
    "n": {"quick": 4000, "thorough": 250000},
    "exhaustive": {"quick": False, "thorough": True},
    "shrink": False,
    "rule": "corpus (defect #17 input, the unit-test fixtures, one case per rejection rule, huge numbers, comments.case: the concrete instance of objstm_spelled_roundtrip and headers with comments in every run, accepted and rejected) + exhaustive small space: every content over "
            "{1,2,blank,x} and every content over {1,blank,%,LF} containing % or LF (comments with and without a terminating LF before an offset), of length <= 4 (thorough: <= 5), x every offset pair (o0,o1) in [0,len+1]^2 under a 2-pair header (quick: every 3rd), judged "
            "by a small digit reader that looks only at the bytes from the declared offset on + random streams: 1..6 members with values from the C02 generator spelled by the C02 encoder, ids incl. "
            "2^32 and 2^63-1, three gap styles (contiguous as the unit tests / white space / arbitrary non-object bytes incl. unbalanced delimiters, "
            "comments terminated and NOT terminated before the next declared offset (object-like comment text, CR-only line ends), random bytes, before the first and after the last member), leading white space inside a member, random header layouts (all six "
            "white-space bytes, comments, padding and junk before /First), 5 dictionary spellings, predefined unrelated ids and same id under "
            "generation 1, view cursor not at 0, 1/6 of them again through FlateDecode (stored-block zlib, junk before the cursor); per stream one "
            "single-rule corruption: non-increasing offset, /N larger than the pairs present, /First >= |data|, next offset inside the previous "
            "object, id predefined, id repeated, 14 dictionary defects, offset beyond the content / 2^32 / 2^63-1 / 2^63 / 2^64 / 10^30, id replaced "
            "by a fresh one (must still extract), nesting bound below the deepest member, byte truncation/alteration and arbitrary header-number "
            "replacement (correspondence + no panic). non-trivial = >= 2 members or a Flate case (rt), both offsets inside the content and distinct "
            "(ex), >= 12 data bytes (rej/mut); distinct by case hash",
    "trusted_base": COMMON_TB + [
        "modelled, not verified: ParseBuffer views as byte lists with a view-relative cursor (C17), BTreeMap as a key-ordered association list",
        "parameter of the model, not modelled here: the filter decoders (FlateDecode, ASCII85Decode, ASCIIHexDecode, DCTDecode) - C06",
        "reused models of the token parsers and parse_pdf_obj (Model/Prim.lean, Model/Obj.lean; theorems of C15/C16)",
        "the stream dictionary is handed to both sides as text and read by the crate's DictP / the model's dictionary parser",
    ],
    "assumptions": [
        "buffers (the view's underlying vector, decoder outputs) are smaller than 2^63 bytes (Rust allocations are at most isize::MAX bytes)",
        "the context's definitions map is an ordered map (BTreeMap invariant) and cur_depth <= max_depth",
        "the model mirrors /repo with pending_fixes/C14-01 applied; against the unfixed tree the check reports the violation (defect #17)",
    ],
}
LEVEL = {
    "design_ref": "DESIGN.md 3.C14",
    "technique": "Lean 4 theorems (encoder round trip for the header, relational extraction semantics for the content, soundness + completeness "
                 "+ fuel sufficiency of both loops) over an executable model of ObjStreamP + differential correspondence with the Rust parser",
    "text": "Machine-checked proof, for all dictionaries, header layouts, contents, contexts and decoder functions, that the model of ObjStreamP::parse "
            "(get_dict_info, filters, RestrictView/RestrictViewFrom, parse_metadata, parse_stream, register_obj) extracts from a well-formed stream exactly "
            "the objects located at the declared offsets, in header order, under (id, 0), binding them in the context and changing nothing else, "
            "whatever bytes lie between the objects; that everything it accepts is well formed (exactly /N pairs, increasing offsets inside the "
            "content, no object past the next offset, fresh distinct ids, /First inside the data), hence the five rejections of the statement; and "
            "that no panic site is reachable for any /N, /First or offset (set_cursor address arithmetic modelled on usize). The model is tied to the "
            "real parser by a correspondence run on generated, corrupted and exhaustively enumerated small streams (members, spans, context lookups); "
            "defect #17 (object read after the previous one instead of at its offset) is reproduced on the unfixed tree and repaired by C14-01. "
            "Composed with C02's spell_parse (objstm_spelled_roundtrip, Props/C14Spelled.lean): for a stream described purely by its bytes - a header of N "
            "'id offset' pairs in any layout of white space AND comments, anything up to /First, and at each declared offset an optional white-space/"
            "comment run and ANY legal spelling (C02.Spells) of ANY value the depth budget has room for, in a context legal after it (C02.Follows), with "
            "arbitrary gap bytes in between - the parser returns (id_k, 0, value_k) in header order and the context binds exactly (id_k, 0) -> value_k; "
            "the header acceptance and the two header rejections are proved for layouts with comments too (the real parse_metadata skips comments: "
            "checked through the harness, corpus/C14/comments.case).",
}
