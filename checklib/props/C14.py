CFG = {
    "modules": ["Parsley.Props.C14", "Parsley.Props.C14Spelled", "Parsley.Props.C14Filtered", "Parsley.Props.C14Dyn"],
    "theorems": [
        "Parsley.C14.objstm_roundtrip", "Parsley.C14.objstm_accepted_wellformed", "Parsley.C14.objstm_never_panics",
        "Parsley.C14.objstm_rejects_order", "Parsley.C14.objstm_rejects_short", "Parsley.C14.first_beyond_rejected",
        "Parsley.C14.overrun_rejected", "Parsley.C14.defined_rejected", "Parsley.C14.repeated_rejected",
        "Parsley.C14.offset_beyond_rejected", "Parsley.C14.defect17_witness",
        "Parsley.ObjStm.readAt_eq_parseObj", "Parsley.ObjStm.metaLoop_good", "Parsley.ObjStm.streamLoop_good", "Parsley.ObjStm.streamLoop_complete",
        # C14b: composition with C02's spell_parse (every value, every legal spelling) and headers with comments
        "Parsley.C14.objstm_spelled_roundtrip", "Parsley.C14.extracts_spelled", "Parsley.C14.objstm_roundtrip_c",
        "Parsley.C14.objstm_roundtrip_of_header", "Parsley.C14.header_accepts_comments",
        "Parsley.C14.metaLoop_accept_c", "Parsley.C14.metaLoop_short_c", "Parsley.C14.metaLoop_order_c",
        "Parsley.C14.header_order_rejected_c", "Parsley.C14.header_short_rejected_c",
        "Parsley.C14.objstm_rejects_order_c", "Parsley.C14.objstm_rejects_short_c",
        "Parsley.C14.layoutsC_of_layoutsOK", "Parsley.C14.pairsOf_inc", "Parsley.C14.exMs_ok",
        # C14c: the decoder parameter instantiated as the loader does (Loader.objDec = C06 filters + C07 predictor tail)
        "Parsley.C14.objstm_roundtrip_filtered", "Parsley.C14.objstm_roundtrip_encoded", "Parsley.C14.stmDict_spells",
        "Parsley.C14.objstm_filter_error_rejects", "Parsley.C14.objstm_decode_stream_error_rejects",
        "Parsley.C14.objstm_filter_dict_rejects", "Parsley.C14.objstm_corrupt_layer_rejects", "Parsley.C14.corruptLayer_fails",
        "Parsley.C14.decodeLoop_objDec", "Parsley.C14.filters_toF", "Parsley.C14.objStmParse_decodeStream",
        "Parsley.C14.stmChain_decodes", "Parsley.C14.stmChain_of_chainEnc", "Parsley.C14.stmLayer_decodes",
        "Parsley.C14.flate_pred_layer", "Parsley.C14.plain_layer", "Parsley.C14.predictorOf_one",
        "Parsley.C14.filters_of_spelled", "Parsley.C14.decodesTo_of_storedAs", "Parsley.C14.objstm_never_panics_loader",
        "Parsley.C14.objstm_filtered_accepted_wellformed", "Parsley.C14.first_beyond_rejected_filtered", "Parsley.C14.exChain",
        # sweep: ParmsOf widened - /Columns (like /Colors, /BitsPerComponent) may be absent when it is the default 1
        "Parsley.C14.ext_post_spelled", "Parsley.C14.exParms1_of",
        # C06e tidy-up (Props/C14Dyn.lean): Flate layers over C06's spec encoder for ALL THREE block types (LayerEnc.flateDyn), without and
        # with a predictor; a concrete object stream behind a dynamic-Huffman block (= corpus/C14/dynamic.case); cut / damaged Flate layers
        # of EVERY accepted zlib stream are rejected with the context unchanged (from C06.inflate_truncation_rejected)
        "Parsley.C14.stmLayer_flateDyn", "Parsley.C14.StmLayer.predDyn", "Parsley.C14.dynPlan_ok", "Parsley.C14.dynZ_eq",
        "Parsley.C14.dynChain", "Parsley.C14.objstm_truncated_flate_rejects", "Parsley.C14.objstm_flate_trailer_rejects",
        "Parsley.C14.objstm_truncated_dyn_rejects",
    ],
    "partial": {
        "(filters: foreign zlib encoders, DCT, /Predictor 15 mixed rows)": "the filter clause is closed for the loader's decoders (objstm_roundtrip_filtered: ASCIIHex, "
            "ASCII85, Flate + TIFF/PNG predictor, chains of any length) and for Flate over EVERY stream C06's specification encoders write: stored blocks, "
            "fixed-Huffman blocks and - since C06d, through C06.LayerEnc.flateDyn / C06.inflate_dynamic_roundtrip - DYNAMIC-Huffman blocks and any mixture of the "
            "three, from any valid plan (stmLayer_flateDyn, StmLayer.predDyn in Props/C14Dyn.lean; StmLayer.plain takes any C06.LayerEnc and layerEnc_known / "
            "stmChain_of_chainEnc / stmLayer_decodes are written with `cases h <;> first | ..`, so the new constructor needed no change; concrete instance dynChain = "
            "corpus/C14/dynamic.case, run through the real parser). The rejection side now covers every cut of, and every altered Adler-32 byte in, ANY zlib stream the "
            "decoder accepts, at any depth of the chain (objstm_truncated_flate_rejects, objstm_flate_trailer_rejects, from C06.inflate_truncation_rejected). Still a "
            "hypothesis, not a theorem: a zlib stream written by an encoder OTHER than the specification's (e.g. the real zlib's own choice of codes and matches) enters "
            "through C06.LayerEnc.flateAny / StmLayer.pred - the modelled inflate's verdict on it is assumed; tie to the real zlib = correspondence runs of C06 (real zlib "
            "output at levels 0-9) and of this check; DCTDecode is opaque (the loader's stub fails); /Predictor 15 with mixed per-row filter types is outside C07's "
            "predictor_roundtrip",
    },
    "n": {"quick": 4000, "thorough": 250000},
    "exhaustive": {"quick": False, "thorough": True},
    "shrink": False,
    "rule": "corpus (defect #17 input, the unit-test fixtures, one case per rejection rule, huge numbers, comments.case: the concrete instance of objstm_spelled_roundtrip and headers with comments in every run, accepted and rejected; filtered.case: the concrete instance of objstm_roundtrip_encoded - hex over Flate + PNG Up - and the two concrete corrupt-layer rejections; dynamic.case: the concrete instance of Props/C14Dyn.lean - the same members behind ONE dynamic-Huffman zlib block with a hand-written header - accepted, and cut in the Huffman-coded data / one byte before the end of the trailer / with an altered Adler-32 byte: rejected; tight.case: the minimal instances of the MINIMAL-LAYOUT family below - /N 1 /First 3 `7 0<<>>`, /N 2 /First 7 "
            "`9 0 4 3[] ()` and `1 0 2 2[]()`, /N 7 /First 27, the two-digit boundary, /First one less (rejected) and one more, behind Flate / ASCIIHex / ASCII85 over Flate; views.case: 17 minimal cases on restricted views; bounds.case: the minimal instances of the BOUNDARY-VALUE and ZLIB-HEADER families below - `7 0<<>>` with /N = 2^59, 10^18, 2^63-1 (first: a panic there is the deterministic symptom), 2^31, 2^32, 2^53, 0, 2, 2^63, -1, 1.0, (1), absent; /N 1 on a two-pair header; /First, the identifier and the offset over the same kind of values; one stored block under the zlib headers 48 89 / 18 95 / 08 1D / 68 DE / 78 DA, real zlib output for a 512-byte window, 88 1C and 78 20 rejected) "
            "+ RESTRICTED VIEWS: every generated case below is run twice (quick tier: of the two big systematic enumerations - the exhaustive small space `ex` and the minimal-layout classes `tight..` - every second case; "
            "thorough: all): on a plain ParseBuffer and (case tag `vw <steps> <prehex> <sufhex> <case>`, Driver/ViewTwin.lean, same design as C05) on a RESTRICTED VIEW whose window is the case's <viewhex> inside ONE larger "
            "allocation pre ++ window ++ suf - the way the crate reaches an object stream (the stream's content inside the file's buffer); the harness applies the chain of RestrictView / RestrictViewFrom steps, checks that "
            "the view shows exactly the window and runs ObjStreamP on the view: bytes in front 1 / 7 / 11 / 1000 (also 0, 2, 3, 5, 13, 64; a rotation of a text holding a header line, a complete object-stream object and a "
            "plain object; or random bytes) x chain {RestrictView, RestrictViewFrom, From then View, View then View with junk on both sides of the inner window, View then From, View starting at 0 then From, View-From-View} "
            "x bytes behind the window that CONTINUE or COMPLETE the stream {` 0 R ..` and digits (an integer member ending at the window's end would become a reference / a longer number), further integers, "
            "for /First at or beyond the end of the data: padding and the content once more where /First points to, for an offset beyond the content: integers at every position up to 1000 bytes beyond the window, "
            "the cut-off rest of a truncated stream / truncated encoded layer, for the exhaustive small space digits where an offset at or one beyond the end points to, endstream / endobj text and a whole object, nothing} "
            "(periods 16 x 7 x 5, pairwise coprime); expectation = the expectation on the window's bytes alone - the same expected line (model of a view = model of its window, justified by C17's theorem view_refines_copy; "
            "the unchanged code takes <cur> and reports the cursor as cursors of the view it was given, member spans stay relative to the content part of the (decoded) data; nothing is re-based to the allocation, nothing "
            "outside the window is read, the decoders read the view from its cursor to ITS end); oracle classes of view cases are prefixed view-; plus the CUT family: 7 minimal-layout streams of 1..4 members whose "
            "spellings are DELIMITED (string, array, dictionary, hex string, nested: every proper prefix of a member is no object) with the view ending at EVERY byte, the rest lying behind the view (and the same cut as "
            "a plain buffer; quick: every 2nd plain cut) - rejected (class cut) where the view ends before the end of the last member, the same members where only trailing junk is lost - and one such stream behind "
            "FlateDecode with the zlib stream cut at every byte (class cutflate: rejected) "
            "+ MINIMAL-LAYOUT headers, systematic (after missed seed C14_5, a fail-fast "
            "`/N > /First / 4`): the header of N pairs packed as tightly as the syntax allows - no white space before the first identifier, every separator exactly ONE byte (each of the six "
            "white-space bytes, and mixtures), identifiers and offsets with the fewest digits, the first object directly after the last offset digit, /First = header length, which is 4N - 1 when all "
            "numbers are single digits (class tight; tight2 = some number needs two digits, incl. the boundary /First = 4N) - over members with the shortest spellings of each syntactic class "
            "(1 7 [] () <> /A <<>> null true) laid out touching each other wherever the syntax allows it (`[]()`, `<<>>/A`, `1[]`; one white-space byte only between two regular characters; a "
            "quarter again with a byte between every two): N = 1, 2: every member sequence x 7 separator choices; N = 3: every sequence; N = 4 every 11th, N = 5, 6 over the <= 2-byte members "
            "every 13th / 79th (thorough: N <= 4 and N = 5 over the short members complete, N = 5 full pool every 7th, N = 6 every 3rd); N = 7 (the largest N with single-digit offsets: 1-byte "
            "integers alternating with 2-byte objects) every 16th of 3072 (thorough: all); N = 8..12, 16 with two-digit numbers, 30 (300) each; ids a rotation of 1..9, junk after the last member "
            "or none; with each stream its neighbours - /First one LESS than the header (the last pair loses its offset: must be rejected; with a two-digit last offset correspondence only), one "
            "white-space byte of padding and /First one MORE (same members), /First one more over the same data (correspondence + no panic) - all three for N <= 2, in rotation above - and, for "
            "every second one, the stream behind a filter option of the generator in rotation (Flate stored block with junk before the cursor in 3 dictionary spellings / chain drawn by C06's "
            "randChain / the systematic chains of length 1 and 2 / Flate + TIFF or PNG predictor); 5 dictionary spellings; expected members from the spec-side layout (memberWant) "
            "+ BOUNDARY VALUES of the four kinds of numbers an object stream declares (after missed seed C14_8, `Vec::with_capacity(/N)`: capacity-overflow panic from /N = 2^59, allocation abort below): on an otherwise "
            "well-formed stream, /N, /First, a header identifier, a header offset are each replaced by EVERY value of one set around the exact value e: 0, 1, e-1, e, e+1, 2e, 255, 256, 65535, 65536, 2^31-1, 2^31, "
            "2^32-1, 2^32, 2^32+1, 2^53, 2^59-1, 2^59, 10^18, 2^62, 2^63-1, the overflowing 2^63 and 2^64, the negatives -1, -e, -(2^63-1), seven objects that are not integers (null, e.0, (e), /e, true, [e], e 0 R) and "
            "absent (the dictionary entry left out / the header number left out); header numbers are replaced in the first and in the last pair, the header is laid out again and /First follows it. Expectation decided on the "
            "spec side from the layout: /N = e the members, 1 <= /N < e the first /N members (the other pairs are padding before /First), every other /N rejected (0; more than the pairs present - no padding of the "
            "generator holds a number; not a usize); /First = e the members, /First >= |data| or not beyond the first digit of the last offset (fewer than 2N integers in the header view) or not a usize rejected, any other "
            "position correspondence only; a fresh identifier <= 2^63-1 the same members under that identifier, one that repeats a member's or a predefined identifier rejected; an offset not above the previous / not below "
            "the next / at or beyond the end of the content rejected, another position inside the content correspondence only; negative, overflowing, non-integer and missing header numbers rejected (except `e 0 R` / `e.0` "
            "in the last pair, which leave a complete header followed by junk: correspondence only). The judge calls a `panic ..` output or a `crash:<rc>` (process abort, e.g. allocation failure; ./check restarts the harness "
            "behind it) bad for every kind of case. Bases: 10 minimal-layout streams (N = 1, 2, 3, 7, 12; thorough 60) and 14 random layouts of 1..6 members with each of the five paddings before /First (thorough 150); "
            "each base as it is (classes bnd-N, bnd-First, bnd-id, bnd-ofs) and behind ONE filter option in rotation - Flate stored block in 3 dictionary spellings / systematic chain / chain of C06's randChain / Flate + "
            "TIFF or PNG predictor - where /N, /First (judged against the DECODED data) and the last pair are swept (classes ..-flate, ..-chain<k>); 3 dictionary spellings (/First before /N, /Length present); values whose "
            "allocation the unchanged code would attempt are not needed: it never sizes anything by /N (with /N = 2^31 it reads pairs until the header runs out) "
            "+ ZLIB HEADERS (after missed seed C06_8, FlateDecode accepting only CMF = 0x78; generator-side only, built in Driver/C14.lean by replacing the two header bytes of a stream of the spec-side encoders - DEFLATE "
            "data and Adler-32 do not depend on them): for each of those bases the object stream behind one Flate layer (stored / fixed-Huffman literals / fixed-Huffman with matches, by case number) under all 32 legal "
            "headers CM = 8, CINFO 0..7 (window 256 bytes .. 32 KiB), FLEVEL 0..3, FDICT 0, FCHECK making CMF*256+FLG a multiple of 31 (a stream with matches keeps 0x78 unless the window covers the layer's whole input), "
            "and behind [/ASCIIHexDecode /FlateDecode], [/ASCII85Decode /FlateDecode], [/FlateDecode /FlateDecode], [/FlateDecode /ASCIIHexDecode] or Flate + predictor under the 8 window sizes: expected the same members "
            "(class zhdr); CINFO = 8, 15 and FDICT = 1 with a correct FCHECK: rejected "
            "+ exhaustive small space: every content over "
            "{1,2,blank,x} and every content over {1,blank,%,LF} containing % or LF (comments with and without a terminating LF before an offset), of length <= 4 (thorough: <= 5), x every offset pair (o0,o1) in [0,len+1]^2 under a 2-pair header (quick: every 3rd), judged "
            "by a small digit reader that looks only at the bytes from the declared offset on + random streams: 1..6 members with values from the C02 generator spelled by the C02 encoder, ids incl. "
            "2^32 and 2^63-1, three gap styles (contiguous as the unit tests / white space / arbitrary non-object bytes incl. unbalanced delimiters, "
            "comments terminated and NOT terminated before the next declared offset (object-like comment text, CR-only line ends), random bytes, before the first and after the last member), leading white space inside a member, random header layouts (all six "
            "white-space bytes, comments, padding and junk before /First - also nine NUL bytes, an all-zero ASCII85 group), 5 dictionary spellings, predefined unrelated ids and same id under "
            "generation 1, view cursor not at 0, 1/6 of them again through FlateDecode (stored-block zlib, junk before the cursor); 1/3 of them again through a FILTER CHAIN "
            "(C14c; the model runs the loader's decoders Loader.objDec, the harness the real ones): alternately the systematic enumeration of every chain of length 1 and 2 over the "
            "six layer kinds of C06's exhaustive stream (ASCIIHex mixed case/white space/odd digit, ASCII85 with z, Flate stored blocks, fixed-Huffman literals, fixed-Huffman "
            "LZ77 blocks in two framings) and chains of length 1..3 drawn by C06's randChain with each of C06's four /DecodeParms variants; one time in three a Flate layer "
            "with a TIFF (2) or PNG (10..14) predictor is inserted at a random position (rows = a divisor of the layer's input, colours 1..4, 1/2/4/8/16 bits; one time in three a SINGLE-COLUMN image, "
            "a row = one pixel of 1..4 bytes or of 1/2/4 bits; the /DecodeParms dictionary written by the spec-side writer PredSpec.Params.entries: any "
            "subset of the entries whose value is the default of ISO 32000-1 Table 8 - Colors 1, BitsPerComponent 8, Columns 1 - left out, all of them 9 times in 24; "
            "encoder = C07's PredSpec.predict); 1/3 of the streams again through ONE Flate + predictor layer enumerated systematically (predictor 2, 10..14 x {single column, "
            "rows of several pixels, one row} x geometry x {all default-valued entries left out, /Columns left out, all written, random mask}), every fourth of those once more with the "
            "left-out entries written as non-integer objects ((1), 1.0, null, /1, true, [1], 1 0 R: kind mut, correspondence + no panic); /Filter spelled as a name (+ parameter dictionary), an array of names, parallel arrays; "
            "junk before the cursor, EOL bytes after the data; then for 1/4 of them ONE layer corrupted by a C06 corruption (illegal hex character, missing EOD, stray ~, illegal "
            "ASCII85 character, group >= 2^32, misaligned z, zlib truncated / Adler-32 / header / LEN / method): must be rejected; for 1/4 one encoded byte altered or the content "
            "truncated (correspondence + no panic); per stream one "
            "single-rule corruption: non-increasing offset, /N larger than the pairs present, /First >= |data|, next offset inside the previous "
            "object, id predefined, id repeated, 14 dictionary defects, offset beyond the content / 2^32 / 2^63-1 / 2^63 / 2^64 / 10^30, id replaced "
            "by a fresh one (must still extract), nesting bound below the deepest member, byte truncation/alteration and arbitrary header-number "
            "replacement (correspondence + no panic). non-trivial = >= 2 members or a Flate / filter-chain / minimal-layout / boundary-value / zlib-header case (rt), both offsets inside the content and distinct "
            "(ex), >= 12 data bytes or a boundary-value / zlib-header case (rej/mut); a case on a view: the case is non-trivial and the window is a proper part of the allocation; distinct by case hash",
    "trusted_base": COMMON_TB + [
        "modelled, not verified: ParseBuffer views as byte lists with a view-relative cursor (C17), BTreeMap as a key-ordered association list; the buffer ObjStreamP is GIVEN, when it is itself a restricted "
            "view, is modelled by its window (the model of a `vw` case is the model of the case on the window's bytes, after checking that the chain of RestrictView / RestrictViewFrom steps selects that window by the "
            "bounds rules of transforms.rs; justification: C17 view_refines_copy) - the correspondence run itself exercises the real parser on real views",
        "the filter decoders are a parameter of Model/ObjStm.lean; theorems of Props/C14Filtered.lean and the executable model of the correspondence run instantiate it as the loader does "
            "(Loader.objDec = C06 model of ASCIIHex/ASCII85/Flate + C07 predictor tail; their faithfulness is what C06/C07 check); DCTDecode is an opaque stub that fails",
        "reused models of the token parsers and parse_pdf_obj (Model/Prim.lean, Model/Obj.lean; theorems of C15/C16)",
        "the stream dictionary is handed to both sides as text and read by the crate's DictP / the model's dictionary parser",
    ],
    "assumptions": [
        "buffers (the view's underlying vector, decoder outputs) are smaller than 2^63 bytes (Rust allocations are at most isize::MAX bytes)",
        "the context's definitions map is an ordered map (BTreeMap invariant) and cur_depth <= max_depth",
        "the model mirrors /repo with pending_fixes/C14-01 applied; against the unfixed tree the check reports the violation (defect #17)",
    ],
}
LEVEL = {
    "design_ref": "DESIGN.md 3.C14",
    "technique": "Lean 4 theorems (encoder round trip for the header, relational extraction semantics for the content, soundness + completeness "
                 "+ fuel sufficiency of both loops; composition with C02's spell_parse and with C06/C07's filter theorems) over an executable model of ObjStreamP "
                 "instantiated with the loader's decoders + differential correspondence with the Rust parser",
    "text": "Machine-checked proof, for all dictionaries, header layouts, contents, contexts and decoder functions, that the model of ObjStreamP::parse "
            "(get_dict_info, filters, RestrictView/RestrictViewFrom, parse_metadata, parse_stream, register_obj) extracts from a well-formed stream exactly "
            "the objects located at the declared offsets, in header order, under (id, 0), binding them in the context and changing nothing else, "
            "whatever bytes lie between the objects; that everything it accepts is well formed (exactly /N pairs, increasing offsets inside the "
            "content, no object past the next offset, fresh distinct ids, /First inside the data), hence the five rejections of the statement; and "
            "that no panic site is reachable for any /N, /First or offset (set_cursor address arithmetic modelled on usize). The model is tied to the "
            "real parser by a correspondence run on generated, corrupted and exhaustively enumerated small streams (members, spans, context lookups), each run on a plain buffer and again with the parser's input being a "
            "restricted view inside a larger allocation (junk in front, stream-continuing bytes behind, views ending at every byte of a stream), where the result must be that of the window's bytes alone; "
            "defect #17 (object read after the previous one instead of at its offset) is reproduced on the unfixed tree and repaired by C14-01. "
            "Composed with C02's spell_parse (objstm_spelled_roundtrip, Props/C14Spelled.lean): for a stream described purely by its bytes - a header of N "
            "'id offset' pairs in any layout of white space AND comments, anything up to /First, and at each declared offset an optional white-space/"
            "comment run and ANY legal spelling (C02.Spells) of ANY value the depth budget has room for, in a context legal after it (C02.Follows), with "
            "arbitrary gap bytes in between - the parser returns (id_k, 0, value_k) in header order and the context binds exactly (id_k, 0) -> value_k; "
            "the header acceptance and the two header rejections are proved for layouts with comments too (the real parse_metadata skips comments: "
            "checked through the harness, corpus/C14/comments.case). "
            "Composed with C06/C07 (Props/C14Filtered.lean, Lemmas/ObjStmFiltered.lean), for the decoders the loader really plugs in (Loader.objDec): the filter loop "
            "of ObjStreamP::parse IS C06's runChain on the translated filter list (decodeLoop_objDec, all lists and inputs) and the two models of StreamT::filters agree "
            "(filters_toF); objstm_roundtrip_filtered / objstm_roundtrip_encoded: a stream object whose dictionary holds /Type /ObjStm /N /First [/Length] and spells a filter "
            "chain in any of the accepting ways (name, name + parameter dictionary, array, parallel arrays; stmDict = what an encoder writes) and whose CONTENT is, from the "
            "cursor on, that chain's encoding of header ++ padding ++ spelled members - layers: ASCIIHex and ASCII85 in any conformant spelling, Flate over stored blocks in any "
            "partition + trailing bytes, Flate over C06's fixed-Huffman encoder, Flate + TIFF/PNG predictor (C07 predictor_roundtrip) over any zlib stream that inflates to the "
            "filtered rows, chains of any length and order - yields exactly (id_k, 0, value_k) in header order, binding exactly these. Rejection side: if the chain's decoder "
            "fails (objstm_filter_error_rejects), in particular behind correctly encoded outer layers at a layer corrupted as in C06's corrupt_is_error or naming an "
            "unsupported filter (objstm_corrupt_layer_rejects), or if StreamT::filters refuses the /Filter x /DecodeParms pairing, the parser returns an error and the "
            "context UNCHANGED (no member defined); no panic with these decoders (objstm_never_panics_loader). Flate layers written by C06's specification encoders - stored, fixed-Huffman and DYNAMIC-Huffman "
            "blocks in any mixture - are theorems (stmLayer_flateDyn, StmLayer.predDyn; concrete stream dynChain); a cut anywhere before the end of the Adler-32 trailer of ANY "
            "accepted zlib stream, or an altered trailer byte, at any depth of the chain rejects the object stream with the context unchanged "
            "(objstm_truncated_flate_rejects, objstm_flate_trailer_rejects). Zlib streams of OTHER encoders enter as a hypothesis on the modelled inflate only.",
}
