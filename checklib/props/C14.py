CFG = {
    "modules": ["Parsley.Props.C14"],
    "theorems": [],
    "n": {"quick": 1500, "thorough": 60000},
    "exhaustive": {"quick": False, "thorough": True},
    "shrink": False,
    "rule": "TODO",
    "trusted_base": COMMON_TB + [],
    "assumptions": [],
}
LEVEL = {"design_ref": "DESIGN.md 3.C14", "technique": "TODO", "text": "TODO"}
