CFG = {
    "modules": ["Parsley.Props.C15", "Parsley.Props.C15Reparse", "Parsley.Props.C15Bin"],
    "theorems": ["Parsley.C15.loc_faithful_tokens", "Parsley.C15.wsEOLLoop_spec", "Parsley.C15.litLoop_bound",
                 # the RE-PARSE clause (Props/C15Reparse.lean, Lemmas/Trunc.lean, Lemmas/TruncObj.lean)
                 "Parsley.C15.reparses_of", "Parsley.C15.reparse_tokens", "Parsley.C15.wsNoEOL_reparses",
                 "Parsley.C15.streamContentP_reparses", "Parsley.C15.streamContentP_start_in_span",
                 "Parsley.C15.tagP_reparses", "Parsley.C15.parseObj_reparses",
                 "Parsley.Trunc.wsNoEOL_truncC", "Parsley.Trunc.wsEOL_trunc", "Parsley.Trunc.integerP_trunc",
                 "Parsley.Trunc.realP_trunc", "Parsley.Trunc.rawLitString_trunc", "Parsley.Trunc.streamContentP_trunc",
                 "Parsley.Trunc.numberOrRef_trunc", "Parsley.Trunc.arrayLoop_trunc", "Parsley.Trunc.dictLoop_trunc",
                 "Parsley.Trunc.parseObjB_trunc", "Parsley.C15.parseObjB_restart",
                 # binary parsers (Props/C15Bin.lean, Lemmas/ReparseBin.lean; from C19's Sat contract)
                 "Parsley.C15.bin_windows", "Parsley.C15.bin_span_is_consumed", "Parsley.C15.bin_value_determined",
                 "Parsley.C15.bin_failure_keeps_cursor", "Parsley.C15.bin_reparses", "Parsley.C15.bin_loc_faithful",
                 "Parsley.C15.bin_local",
                 # the four combinators over arbitrary components (Model/CombP.lean, Lemmas/ReparseComb.lean)
                 "Parsley.C15.seq_reparses", "Parsley.C15.alt_reparses", "Parsley.C15.star_reparses",
                 "Parsley.C15.not_reparses", "Parsley.C15.comb_loc_faithful", "Parsley.C15.comb_failure_restores_cursor",
                 "Parsley.C15.seq_faithful", "Parsley.C15.seq_local", "Parsley.C15.alt_faithful", "Parsley.C15.alt_local",
                 "Parsley.C15.star_faithful", "Parsley.C15.star_local", "Parsley.C15.not_faithful",
                 "Parsley.C15.starP_iter", "Parsley.C15.star_never_fails", "Parsley.C15.Faithful.reparses",
                 "Parsley.C15.seq_failTrunc", "Parsley.C15.alt_failTrunc", "Parsley.C15.seq_consumes",
                 "Parsley.C15.alt_consumes", "Parsley.C15.failEOB_of_consumes",
                 # instances: AsciiChar, the composites built in the crate, mixed composites
                 "Parsley.C15.chrP_local", "Parsley.C15.asciiChar_reparses", "Parsley.C15.crate_composites_reparse",
                 "Parsley.C15.mixed_composites_reparse",
                 # the side conditions are necessary (witnesses)
                 "Parsley.C15.reparse_fails_for_positive_lookahead", "Parsley.C15.alt_reparse_needs_failTrunc"],
    "partial": {"(reparse, look-ahead composites)": "the location, cursor-restore and re-parse clauses are PROVED, for every buffer and cursor, "
                "for every token parser of pdf_prim.rs, the tag matcher, StreamContentP (modulo its absolute `start` field), parse_pdf_obj at "
                "every depth, AsciiChar, every binary parser of prim_binary.rs (all widths / byte orders / signedness, byte vector: bin_reparses, "
                "bin_value_determined, bin_failure_keeps_cursor) and, as contract-preservation theorems over ARBITRARY component parsers, for the "
                "four combinators (seq_reparses, alt_reparses, star_reparses, not_reparses; failure clause for arbitrary components: "
                "comb_failure_restores_cursor), instantiated on all composites built in the crate (crate_composites_reparse). "
                "What is NOT provable because it is false: the re-parse clause for combinators WITHOUT the side conditions "
                "(Star/Not body fails at end of buffer, e.g. because it consumes; failures of Alternate's first branch survive truncation; first "
                "component of Sequence does not look beyond its span): positive look-ahead Not(Not(p)) reports an empty span whose re-parse fails "
                "(reparse_fails_for_positive_lookahead), an ordered choice whose first branch looks ahead changes branch on the span alone "
                "(alt_reparse_needs_failTrunc). No parser of the crate is such a composite (the combinators are only used in their own tests). "
                "Scanners are exempt from the re-parse clause."},
    "n": {"quick": 4000, "thorough": 200000},
    "exhaustive": {"quick": True, "thorough": True},
    "rule": "exhaustive buffers of length <= 2 (quick) / <= 3 (thorough) over a 30-symbol alphabet (whitespace, delimiters, digits, sign, "
            "escapes, keyword letters, high bytes) x every cursor position x 26 parsers (whitespace, comment, keywords, numbers, strings, "
            "names, operators, stream data, object parser at two depth bounds, binary integers, byte vector, tag matcher, scanners); "
            "sub-sampled next length; random concatenations of ~50 PDF tokens with stray bytes; corpus of past defects; "
            "AsciiChar + 15 combinator composites (the 9 of prim_combinators.rs tests, Star(Sequence(u16,bytevec)), Sequence(IntegerP,WhitespaceNoEOL), "
            "2 look-ahead ones exempt from the re-parse clause only) exhaustively on buffers of length <= 4 (quick) / <= 5 (thorough) over "
            "{A,B,C,0x80,1,blank} x every cursor, whole buffer and restricted view; all 14 binary integer parsers + byte vectors on random "
            "buffers of 0..9 bytes x every cursor, whole buffer and restricted view (values also cross-checked against the byte-order spec by C19). "
            "number tokens at the seven 'numerical overflow' exits of IntegerP / RealP (built from the limits 2^63-1 and 2^127-1: 29 magnitudes per limit - "
            "L-1..L+10, all ten last digits after L/10 (checked_add), (L/10+1)*10+d (checked_mul at the last digit), one and two digits more / fewer, powers of ten -, "
            "the unsigned limits 2^64-1 / 2^128-1, each digit string also split by a decimal point at 7 places (thorough: every place) so that the overflow falls into "
            "the fraction loop (numerator MUL / ADD), fractions of 17..40 zeros after a small numerator (denominator MUL: 10^38 fits, 10^39 does not), 250 (thorough 4000) "
            "random tokens with digit runs of 0..2 / 18..20 / 37..41 digits) x {no sign, +, -} x leads x followers x cursor at and one byte into the token, under "
            "int, real, obj:3, their restricted views and Sequence(IntegerP, WhitespaceNoEOL) (thorough: + 5 object composites): the failed parser must leave the cursor; "
            "`#xx` codes in operator and name tokens at every distance from the token end: all sequences of <= 3 (thorough <= 4) pieces out of 13 (plain bytes incl. lone `#`, "
            "hex digit, non-hex letter, raw UTF-8 lead byte; codes `#41 #4A #4a #00 #e9 #a9 #23`), one code after 0..5 and before 0..5 plain bytes, two codes 0..3 bytes "
            "apart, x terminators, under op (cursor 0 and after a blank, restricted view), name and obj:3 (`/` + token): besides the location clauses the oracle checks "
            "that the VALUE of a name / operator is the decoding of its reported span (independent left-to-right `#hh` decoder, class value-not-text-of-span); "
            "CUT WINDOWS (case `v<a>-<b>[,<a2>-<b2>]@<parser> <storage> <pos>`: the parser runs on RestrictView(a, b-a) of a storage that CONTINUES behind the view - "
            "then on a view of that view -, expected = model / oracle on the window's bytes alone, the re-parse runs on the view of the same storage restricted to the span): "
            "(1) ~95 token storages (the token list + tokens with an interesting END: ` 0 R` look-ahead after an integer, comment EOL, stream data + EOL + `endstream`, closing "
            "delimiters, glued keywords) after a lead and before a follower (quick: one rotating lead/follower; thorough: 5 leads x 3 followers, among them bytes that would "
            "complete / extend the token), cursor at the token, EVERY window [a,b) with a in {0, cursor} and cursor <= b <= |storage| (view ends before the token, inside it at every "
            "byte, exactly at its end, inside and after its look-ahead), each also nested in a window one byte wider on both sides, under all 31 parsers of the exhaustive run + "
            "Alternate/Sequence/Not/Star over Boolean/Null + tag matchers for the keywords true null << >> endstream R + two scanners, bv:3, u16le, i32be; "
            "(2) every window ending before the storage's end (thorough: every window) x every cursor of every storage of length <= 2 over the 30-symbol alphabet under the 31 parsers "
            "(thorough: + one fifth of the length-3 storages), and of every storage of length <= 3 (thorough <= 4) over {A,B,C,0x80,1,blank} under AsciiChar, the 17 composites, "
            "BinaryMatcher(A / AB) and Alternate/Sequence/Not/Star over BinaryMatcher(AB), BinaryMatcher(BA); "
            "(3) 30 (thorough 300) random storages of 0..9 bytes x every cursor x windows as in (1) under the 17 binary parsers (the integer's missing bytes lie behind the view); "
            "(4) every random token concatenation also on one window chosen with the model's help (view ends inside the span the parser reports on the whole storage, at its end or one "
            "byte after; anywhere after the cursor if it fails) and on that window nested in a wider one; corpus/C15/cut_windows.case holds the minimal instances. "
            "The oracle's buffer for a cut window is the window: end <= window size, span inside the window, failure leaves the cursor; "
            "non-trivial = buffer of >= 2 bytes or non-zero cursor (counted distinct by hash of the case)",
    "trusted_base": COMMON_TB + [
        "modelled, not verified: ParseBuffer primitives as list functions on a whole buffer (views: C17); std::str::from_utf8 as validUtf8",
        "the binary theorems are derived from C19's contract (Parsley.C19.uint_parse_spec / int_parse_spec / bytevec_spec); "
        "the generic combinator model Model/CombP.lean is tied to the code by this run (cmb:* cases); C18 ties the closed-expression model "
        "Model/Comb.lean to the textbook PEG semantics"],
    "assumptions": ["StreamContentT.start is location metadata: the re-parse clause compares it relative to the span start",
                    "scanners (value = skip count, span = skipped text) are exempt from the re-parse clause, not from the others",
                    "names / operators: `the span is the text of the value` is read as value = span with every `#` + two hex digits replaced by the coded byte, "
                    "left to right (names: after the `/`); whether the windows(3) loop computes that is Parsley.C02.name_window_decoder_eq",
                    "the cursor after a FAILED parse_pdf_obj / parse_pdf_indirect_obj is not covered: these are not token-level parsers, most of their failure exits "
                    "propagate a component's error without restoring (IndirectP restores only to the start of the offending header number)",
                    "nested located values inside a combinator value are compared re-based to the span start (Sh.down); Rust's PartialEq on "
                    "LocatedVal ignores locations altogether, so this is stronger than `equal value`",
                    "look-ahead composites violating the side conditions of the combinator theorems are exempt from the re-parse clause "
                    "(it is false for them: witness theorems); the crate builds none outside the combinator tests"],
}
LEVEL = {
    "design_ref": "DESIGN.md 3.C15",
    "technique": "Lean 4 theorems per token parser over an executable model + exhaustive small-buffer differential correspondence",
    "text": "Machine-checked proof, for every buffer and cursor, that each modelled token parser on success reports start = cursor-before, "
            "cursor-after = end <= size, and on failure leaves the cursor unchanged; and that parsing the reported span alone (bytes before it dropped: prefix "
            "independence; bytes after it cut: suffix truncation, the look-ahead sees the same at end-of-buffer) yields an equal value and consumes the span, "
            "for every token parser, the tag matcher, StreamContentP (modulo its absolute start offset), the object parser parse_pdf_obj at every depth, "
            "AsciiChar, and every binary integer / byte-vector parser (value a function of the spanned bytes alone); for the four combinators the same "
            "clauses are proved as contract-preservation theorems over arbitrary component parsers (Sequence: first component local; Alternate: first-branch "
            "failures truncation-stable; Star/Not: body fails at end of buffer), the failure clause for arbitrary components, instantiated on every composite "
            "the crate builds; witnesses show the side conditions are necessary (positive look-ahead does not re-parse); "
            "the re-parse clause is also checked by the oracle on the real code for all parsers. Model tied to the Rust parsers by an exhaustive small-buffer run.",
}
