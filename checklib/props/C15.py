CFG = {
    "modules": ["Parsley.Props.C15", "Parsley.Props.C15Reparse", "Parsley.Props.C15Bin", "Parsley.Props.C15File", "Parsley.Props.C15Stream"],
    "theorems": ["Parsley.C15.loc_faithful_tokens", "Parsley.C15.wsEOLLoop_spec", "Parsley.C15.litLoop_bound",
                 # the RE-PARSE clause (Props/C15Reparse.lean, Lemmas/Trunc.lean, Lemmas/TruncObj.lean)
                 "Parsley.C15.reparses_of", "Parsley.C15.reparse_tokens", "Parsley.C15.wsNoEOL_reparses",
                 "Parsley.C15.streamContentP_reparses", "Parsley.C15.streamContentP_start_in_span",
                 "Parsley.C15.tagP_reparses", "Parsley.C15.parseObj_reparses",
                 "Parsley.Trunc.wsNoEOL_truncC", "Parsley.Trunc.wsEOL_trunc", "Parsley.Trunc.integerP_trunc",
                 "Parsley.Trunc.realP_trunc", "Parsley.Trunc.rawLitString_trunc", "Parsley.Trunc.streamContentP_trunc",
                 "Parsley.Trunc.numberOrRef_trunc", "Parsley.Trunc.arrayLoop_trunc", "Parsley.Trunc.dictLoop_trunc",
                 "Parsley.Trunc.parseObjB_trunc", "Parsley.C15.parseObjB_restart",
                 # binary parsers (Props/C15Bin.lean, Lemmas/ReparseBin.lean; from C19's Sat contract)
                 "Parsley.C15.bin_windows", "Parsley.C15.bin_span_is_consumed", "Parsley.C15.bin_value_determined",
                 "Parsley.C15.bin_failure_keeps_cursor", "Parsley.C15.bin_reparses", "Parsley.C15.bin_loc_faithful",
                 "Parsley.C15.bin_local",
                 # the four combinators over arbitrary components (Model/CombP.lean, Lemmas/ReparseComb.lean)
                 "Parsley.C15.seq_reparses", "Parsley.C15.alt_reparses", "Parsley.C15.star_reparses",
                 "Parsley.C15.not_reparses", "Parsley.C15.comb_loc_faithful", "Parsley.C15.comb_failure_restores_cursor",
                 "Parsley.C15.seq_faithful", "Parsley.C15.seq_local", "Parsley.C15.alt_faithful", "Parsley.C15.alt_local",
                 "Parsley.C15.star_faithful", "Parsley.C15.star_local", "Parsley.C15.not_faithful",
                 "Parsley.C15.starP_iter", "Parsley.C15.star_never_fails", "Parsley.C15.Faithful.reparses",
                 "Parsley.C15.seq_failTrunc", "Parsley.C15.alt_failTrunc", "Parsley.C15.seq_consumes",
                 "Parsley.C15.alt_consumes", "Parsley.C15.failEOB_of_consumes",
                 # instances: AsciiChar, the composites built in the crate, mixed composites
                 "Parsley.C15.chrP_local", "Parsley.C15.asciiChar_reparses", "Parsley.C15.crate_composites_reparse",
                 "Parsley.C15.mixed_composites_reparse",
                 # the side conditions are necessary (witnesses)
                 "Parsley.C15.reparse_fails_for_positive_lookahead", "Parsley.C15.alt_reparse_needs_failTrunc",
                 # the remaining ParsleyParser implementors (Props/C15File.lean; models Model/Xref.lean, Model/Rtps.lean, Model/FileParts.lean)
                 "Parsley.C15.loc_faithful_file_parsers",
                 "Parsley.C15.loc_faithful_xrefEntP", "Parsley.C15.xrefEntP_value_determined", "Parsley.C15.xrefEntP_reparses",
                 "Parsley.C15.xrefEntP_no_panic",
                 "Parsley.C15.loc_faithful_startXrefP", "Parsley.C15.startXrefP_pre", "Parsley.C15.startXrefP_trunc",
                 "Parsley.C15.startXrefP_reparses",
                 "Parsley.C15.loc_faithful_headerP", "Parsley.C15.headerP_loc", "Parsley.C15.headerP_pre", "Parsley.C15.headerP_trunc",
                 "Parsley.C15.headerP_reparses",
                 "Parsley.C15.loc_faithful_rtpsHeaderP", "Parsley.C15.rtpsHeaderP_value_determined", "Parsley.C15.rtpsHeaderP_reparses",
                 "Parsley.C15.subHdrP_win", "Parsley.C15.loc_faithful_subHdrP", "Parsley.C15.subHdrP_value_determined",
                 "Parsley.C15.subHdrP_reparses", "Parsley.C15.loc_faithful_rtpsPrims", "Parsley.C15.guidPrefixP_win",
                 "Parsley.C15.loc_faithful_subMsgP", "Parsley.C15.subMsgP_reparses",
                 "Parsley.C15.loc_faithful_rowP", "Parsley.C15.rowP_winDet", "Parsley.C15.rowP_reparses",
                 "Parsley.C15.win_winDet", "Parsley.C15.reparses_of_winDet", "Parsley.C15.reparses_of_succ",
                 # witness of the known finding C15-stream-parser-location (Props/C15Stream.lean, Model/StreamLoc.lean)
                 "Parsley.C15.stream_location_witness"],
    "partial": {"(reparse, look-ahead composites)": "the location, cursor-restore and re-parse clauses are PROVED, for every buffer and cursor, "
                "for every token parser of pdf_prim.rs, the tag matcher, StreamContentP (modulo its absolute `start` field), parse_pdf_obj at "
                "every depth, AsciiChar, every binary parser of prim_binary.rs (all widths / byte orders / signedness, byte vector: bin_reparses, "
                "bin_value_determined, bin_failure_keeps_cursor) and, as contract-preservation theorems over ARBITRARY component parsers, for the "
                "four combinators (seq_reparses, alt_reparses, star_reparses, not_reparses; failure clause for arbitrary components: "
                "comb_failure_restores_cursor), instantiated on all composites built in the crate (crate_composites_reparse). "
                "What is NOT provable because it is false: the re-parse clause for combinators WITHOUT the side conditions "
                "(Star/Not body fails at end of buffer, e.g. because it consumes; failures of Alternate's first branch survive truncation; first "
                "component of Sequence does not look beyond its span): positive look-ahead Not(Not(p)) reports an empty span whose re-parse fails "
                "(reparse_fails_for_positive_lookahead), an ordered choice whose first branch looks ahead changes branch on the span alone "
                "(alt_reparse_needs_failTrunc). No parser of the crate is such a composite (the combinators are only used in their own tests). "
                "Scanners are exempt from the re-parse clause.",
                "(remaining implementors: oracle only)": "for the other ParsleyParser implementors the success clause is PROVED (Props/C15File.lean, all buffers and cursors: "
                "start = cursor-before, cursor-after = end <= size, fixed width where there is one, value a function of the spanned bytes, re-parse, no panic) for XrefEntP (20 bytes), "
                "StartXrefP, pdf_file HeaderP (with its one or two located comments tiling the span, re-based re-parse), the RTPS HeaderP (20), SubMessageHeaderP (4), "
                "ProtocolVersionP / VendorIdP (2), GuidPrefixP (12), SubMessageP (4 + payload, incl. length 0 = rest of the buffer) and one cross-reference-stream row (w0+w1+w2, any widths). "
                "NOT proved, checked by the oracle on the real code and by impl-vs-model on the owning property's model only: XrefSubSectP / XrefSectP (loops over entries / subsections), "
                "TrailerP, IndirectP, BodyP, CSObjP, XrefStreamP as a whole, ObjStreamP members, PacketP (loop over sub-messages). TextExtractor has no model in this driver at all "
                "(`nomodel`: oracle-only cases). The outer location of ObjStreamP and of a FILTERED XrefStreamP violates C15 (known finding C15-stream-parser-location, witness "
                "stream_location_witness)."},
    "n": {"quick": 4000, "thorough": 200000},
    "exhaustive": {"quick": True, "thorough": True},
    "rule": "exhaustive buffers of length <= 2 (quick) / <= 3 (thorough) over a 30-symbol alphabet (whitespace, delimiters, digits, sign, "
            "escapes, keyword letters, high bytes) x every cursor position x 26 parsers (whitespace, comment, keywords, numbers, strings, "
            "names, operators, stream data, object parser at two depth bounds, binary integers, byte vector, tag matcher, scanners); "
            "sub-sampled next length; random concatenations of ~50 PDF tokens with stray bytes; corpus of past defects; "
            "AsciiChar + 15 combinator composites (the 9 of prim_combinators.rs tests, Star(Sequence(u16,bytevec)), Sequence(IntegerP,WhitespaceNoEOL), "
            "2 look-ahead ones exempt from the re-parse clause only) exhaustively on buffers of length <= 4 (quick) / <= 5 (thorough) over "
            "{A,B,C,0x80,1,blank} x every cursor, whole buffer and restricted view; all 14 binary integer parsers + byte vectors on random "
            "buffers of 0..9 bytes x every cursor, whole buffer and restricted view (values also cross-checked against the byte-order spec by C19). "
            "number tokens at the seven 'numerical overflow' exits of IntegerP / RealP (built from the limits 2^63-1 and 2^127-1: 29 magnitudes per limit - "
            "L-1..L+10, all ten last digits after L/10 (checked_add), (L/10+1)*10+d (checked_mul at the last digit), one and two digits more / fewer, powers of ten -, "
            "the unsigned limits 2^64-1 / 2^128-1, each digit string also split by a decimal point at 7 places (thorough: every place) so that the overflow falls into "
            "the fraction loop (numerator MUL / ADD), fractions of 17..40 zeros after a small numerator (denominator MUL: 10^38 fits, 10^39 does not), 250 (thorough 4000) "
            "random tokens with digit runs of 0..2 / 18..20 / 37..41 digits) x {no sign, +, -} x leads x followers x cursor at and one byte into the token, under "
            "int, real, obj:3, their restricted views and Sequence(IntegerP, WhitespaceNoEOL) (thorough: + 5 object composites): the failed parser must leave the cursor; "
            "`#xx` codes in operator and name tokens at every distance from the token end: all sequences of <= 3 (thorough <= 4) pieces out of 13 (plain bytes incl. lone `#`, "
            "hex digit, non-hex letter, raw UTF-8 lead byte; codes `#41 #4A #4a #00 #e9 #a9 #23`), one code after 0..5 and before 0..5 plain bytes, two codes 0..3 bytes "
            "apart, x terminators, under op (cursor 0 and after a blank, restricted view), name and obj:3 (`/` + token): besides the location clauses the oracle checks "
            "that the VALUE of a name / operator is the decoding of its reported span (independent left-to-right `#hh` decoder, class value-not-text-of-span); "
            "CUT WINDOWS (case `v<a>-<b>[,<a2>-<b2>]@<parser> <storage> <pos>`: the parser runs on RestrictView(a, b-a) of a storage that CONTINUES behind the view - "
            "then on a view of that view -, expected = model / oracle on the window's bytes alone, the re-parse runs on the view of the same storage restricted to the span): "
            "(1) ~95 token storages (the token list + tokens with an interesting END: ` 0 R` look-ahead after an integer, comment EOL, stream data + EOL + `endstream`, closing "
            "delimiters, glued keywords) after a lead and before a follower (quick: one rotating lead/follower; thorough: 5 leads x 3 followers, among them bytes that would "
            "complete / extend the token), cursor at the token, EVERY window [a,b) with a in {0, cursor} and cursor <= b <= |storage| (view ends before the token, inside it at every "
            "byte, exactly at its end, inside and after its look-ahead), each also nested in a window one byte wider on both sides, under all 31 parsers of the exhaustive run + "
            "Alternate/Sequence/Not/Star over Boolean/Null + tag matchers for the keywords true null << >> endstream R + two scanners, bv:3, u16le, i32be; "
            "(2) every window ending before the storage's end (thorough: every window) x every cursor of every storage of length <= 2 over the 30-symbol alphabet under the 31 parsers "
            "(thorough: + one fifth of the length-3 storages), and of every storage of length <= 3 (thorough <= 4) over {A,B,C,0x80,1,blank} under AsciiChar, the 17 composites, "
            "BinaryMatcher(A / AB) and Alternate/Sequence/Not/Star over BinaryMatcher(AB), BinaryMatcher(BA); "
            "(3) 30 (thorough 300) random storages of 0..9 bytes x every cursor x windows as in (1) under the 17 binary parsers (the integer's missing bytes lie behind the view); "
            "(4) every random token concatenation also on one window chosen with the model's help (view ends inside the span the parser reports on the whole storage, at its end or one "
            "byte after; anywhere after the cursor if it fails) and on that window nested in a wider one; corpus/C15/cut_windows.case holds the minimal instances. "
            "BYTE-CLASS SWEEPS (emitSweep / sweepSites): EVERY byte value 0..255 at each position where a token parser decides by a hand-written SET of bytes - inside a hex string (between digits, alone, "
            "after an odd digit, before `>`), as the single separator between two tokens (numbers, array elements, names, keywords, dictionary key/value, `n g R`, `n g obj`, startxref, xref), as the byte after a "
            "name / operator / number / keyword, as the FIRST byte under every dispatcher and token parser, in a literal string (after a backslash, plain, after `(`), as comment terminator, alone / after a blank / "
            "after CR under the four white-space parsers, as the EOL after `stream` and the byte before `endstream`, after `#` in a name / operator - 44 sites x 1..14 parsers x 256 values (~35k cases; thorough: also "
            "in a fixed-surroundings view and in a view ending right after the swept byte): each of the 256 values is classified by the real code and compared with model and oracle; a panic of the real "
            "parser is the outcome `panic …` = `bad panic` (seeded change `is_ascii_whitespace()` in HexString::parse: `<\\0>` panics in int_of_hex - caught, corpus/C15/byte_sets.case); "
            "EVERY REMAINING ParsleyParser IMPLEMENTOR (Driver/C15File.lean; parser names fhdr sxref trailer:<d> xsect ind:<d> body:<d> os:<d>:<N>:<First> xs:<w0>:<w1>:<w2>:<Size>[:I<index>] "
            "xsh:… (= xs behind /Filter /ASCIIHexDecode) cs:<d> te:<d> rpv rvid rgp rhdr rsmh rsm rpkt; contexts fresh, stream dictionaries built through the crate's public constructors; the value "
            "is printed with every nested located part - header comments, xref subsections and their entries (XrefSubSectP / XrefEntP are private: observed as the parts of XrefSectP), the object of an "
            "indirect object, the objects of a body, object-stream members, stream entries - re-based to the start of the outer value): ~120 constructs written as text (headers, startxref, trailers, indirect objects "
            "incl. stream objects with direct / referenced / wrong /Length, bodies of several objects ending in garbage, content-stream objects of every kind, text-extractor programs) after 2 (thorough 5) leads and "
            "before 2 (thorough 6) tails x cursor before / at / inside the construct, whole buffer, fixed-surroundings view and EVERY cut window [a,b) with a in {0, cursor} (thorough: also nested), truncated at every byte, "
            "one byte changed at every third (thorough: every) position; 40 (thorough 400) classic tables from C13's writers (1-3 subsections, 0-3 entries, all three entry terminators, leads, header EOLs, followed by "
            "trailer / a number / nothing; views ending inside the last entry / at the table end; one byte changed; cut inside an entry) + one table at every cursor and truncation; cross-reference stream rows "
            "from C13's row writer under all 18 (thorough 48) width triples, with /Index, junk before and after, one row too few, every window, and the same rows as hex text behind /Filter /ASCIIHexDecode; "
            "9 object streams from C14's writer (gaps, comments, white space, duplicate ids, unterminated member) x 2 header layouts x 3 paddings x 2 depth bounds, wrong /First, wrong /N, every window; "
            "40 (thorough 300) RTPS packets from C20's encoder (0-3 sub-messages, payloads of 0..257 bytes, both byte orders, length 0 = rest) with each parser at its part, cursors at boundaries and inside, "
            "windows cutting the first 24 bytes, wrong magic; all seven RTPS parsers at every cursor of 18 buffers of 0..5 bytes. Oracle for these (needs no model): cursor = end, start <= end <= size, "
            "start = cursor for the parsers that do not skip white space first, re-parse of the span alone = equal value INCLUDING the re-based nested locations, nested spans inside the outer span, "
            "XrefSectP: entries are consecutive 20-byte spans ending where their subsection ends, subsections in order inside the section; XrefStreamP entries / HeaderP comments tile the span exactly; "
            "ObjStreamP members re-parsed one by one with parse_pdf_obj (`parts=` flags). TextExtractor cases are oracle-only (model output `nomodel`, counted as impl_vs_model.oracle_only). "
            "The oracle's buffer for a cut window is the window: end <= window size, span inside the window, failure leaves the cursor; "
            "non-trivial = buffer of >= 2 bytes or non-zero cursor (counted distinct by hash of the case)",
    "trusted_base": COMMON_TB + [
        "modelled, not verified: ParseBuffer primitives as list functions on a whole buffer (views: C17); std::str::from_utf8 as validUtf8",
        "the binary theorems are derived from C19's contract (Parsley.C19.uint_parse_spec / int_parse_spec / bytevec_spec); "
        "the generic combinator model Model/CombP.lean is tied to the code by this run (cmb:* cases); C18 ties the closed-expression model "
        "Model/Comb.lean to the textbook PEG semantics",
        "the remaining implementors are modelled by the owning properties' models (Model/Xref.lean C13, Model/Indirect.lean C05, Model/ObjStm.lean C14, Model/Rtps.lean C20, "
        "Model/Filters.lean hexDecode C06) plus Model/FileParts.lean (HeaderP, StartXrefP, TrailerP, BodyP, CSObjP) and Model/StreamLoc.lean (the location the stream parsers report); all are tied to "
        "the code, locations and failure cursors included, by this run; Props/C15File.lean imports Props/C13.lean (entry_spec) and Lemmas/Rtps.lean (C20)",
        "rtps value types keep their fields private: observed through their derived Debug rendering (numbers and brackets)"],
    "assumptions": ["StreamContentT.start is location metadata: the re-parse clause compares it relative to the span start",
                    "scanners (value = skip count, span = skipped text) are exempt from the re-parse clause, not from the others",
                    "names / operators: `the span is the text of the value` is read as value = span with every `#` + two hex digits replaced by the coded byte, "
                    "left to right (names: after the `/`); whether the windows(3) loop computes that is Parsley.C02.name_window_decoder_eq",
                    "the cursor after a FAILED parse_pdf_obj / parse_pdf_indirect_obj is not covered: these are not token-level parsers, most of their failure exits "
                    "propagate a component's error without restoring (IndirectP restores only to the start of the offending header number)",
                    "nested located values inside a combinator value are compared re-based to the span start (Sh.down); Rust's PartialEq on "
                    "LocatedVal ignores locations altogether, so this is stronger than `equal value`",
                    "BodyP never fails and its span ends where the first FAILED indirect-object attempt left the cursor (it may include partly consumed garbage): the re-parse clause "
                    "is checked on that span as it is (it holds on every generated case)",
                    "parsers that need a context get a FRESH one (PDFObjContext::new(depth)), also for the re-parse; a /Length reference therefore resolves only inside a BodyP run",
                    "ObjStreamP / XrefStreamP: the buffer is the decoded stream content; the located parts (members, entries) are what the success clause is about; their OUTER location is "
                    "faithful only for an unfiltered XrefStreamP (checked) - otherwise known finding C15-stream-parser-location",
                    "the cursor after a FAILURE of the new parsers is compared with the model (not for ObjStreamP, TextExtractor, filtered XrefStreamP) but not judged: none of them is token-level",
                    "look-ahead composites violating the side conditions of the combinator theorems are exempt from the re-parse clause "
                    "(it is false for them: witness theorems); the crate builds none outside the combinator tests"],
}
LEVEL = {
    "design_ref": "DESIGN.md 3.C15",
    "technique": "Lean 4 theorems per token parser over an executable model + exhaustive small-buffer differential correspondence",
    "text": "Machine-checked proof, for every buffer and cursor, that each modelled token parser on success reports start = cursor-before, "
            "cursor-after = end <= size, and on failure leaves the cursor unchanged; and that parsing the reported span alone (bytes before it dropped: prefix "
            "independence; bytes after it cut: suffix truncation, the look-ahead sees the same at end-of-buffer) yields an equal value and consumes the span, "
            "for every token parser, the tag matcher, StreamContentP (modulo its absolute start offset), the object parser parse_pdf_obj at every depth, "
            "AsciiChar, and every binary integer / byte-vector parser (value a function of the spanned bytes alone); for the four combinators the same "
            "clauses are proved as contract-preservation theorems over arbitrary component parsers (Sequence: first component local; Alternate: first-branch "
            "failures truncation-stable; Star/Not: body fails at end of buffer), the failure clause for arbitrary components, instantiated on every composite "
            "the crate builds; witnesses show the side conditions are necessary (positive look-ahead does not re-parse); "
            "for the remaining ParsleyParser implementors the same success clauses are proved for XrefEntP, StartXrefP, the file HeaderP, the RTPS header / sub-message header / sub-message / "
            "primitives and a cross-reference-stream row (fixed widths, value determined by the window, re-parse), and checked by an oracle that needs no model on the real XrefSectP (with its private "
            "subsection / entry parsers as located parts), TrailerP, IndirectP, BodyP, ObjStreamP, XrefStreamP, CSObjP, TextExtractor and PacketP; the outer location of ObjStreamP and of a filtered "
            "XrefStreamP is a recorded finding; "
            "the re-parse clause is also checked by the oracle on the real code for all parsers. Model tied to the Rust parsers by an exhaustive small-buffer run.",
}
