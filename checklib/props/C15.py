CFG = {
    "modules": ["Parsley.Props.C15", "Parsley.Props.C15Reparse"],
    "theorems": ["Parsley.C15.loc_faithful_tokens", "Parsley.C15.wsEOLLoop_spec", "Parsley.C15.litLoop_bound",
                 # the RE-PARSE clause (Props/C15Reparse.lean, Lemmas/Trunc.lean, Lemmas/TruncObj.lean)
                 "Parsley.C15.reparses_of", "Parsley.C15.reparse_tokens", "Parsley.C15.wsNoEOL_reparses",
                 "Parsley.C15.streamContentP_reparses", "Parsley.C15.streamContentP_start_in_span",
                 "Parsley.C15.tagP_reparses", "Parsley.C15.parseObj_reparses",
                 "Parsley.Trunc.wsNoEOL_truncC", "Parsley.Trunc.wsEOL_trunc", "Parsley.Trunc.integerP_trunc",
                 "Parsley.Trunc.realP_trunc", "Parsley.Trunc.rawLitString_trunc", "Parsley.Trunc.streamContentP_trunc",
                 "Parsley.Trunc.numberOrRef_trunc", "Parsley.Trunc.arrayLoop_trunc", "Parsley.Trunc.dictLoop_trunc",
                 "Parsley.Trunc.parseObjB_trunc", "Parsley.C15.parseObjB_restart"],
    "partial": {"(reparse)": "the re-parse clause is PROVED, for every buffer and cursor, for every token parser of pdf_prim.rs "
                "(WhitespaceNoEOL both flags incl. the '\\r' give-back, WhitespaceEOL both flags, Comment, Boolean, Null, IntegerP, RealP, "
                "HexString, RawLiteralString, NameP, OperatorP), for the tag matcher, for StreamContentP modulo its absolute `start` field "
                "(content and size equal, start re-based to the span: streamContentP_reparses + streamContentP_start_in_span) and for the "
                "object parser parse_pdf_obj at every depth bound (scalars, the number/reference look-ahead, arrays, dictionaries: "
                "parseObj_reparses; the span starts after the leading whitespace). Not covered by a theorem (oracle only): the binary "
                "integer / byte-vector parsers of prim_binary.rs (fixed-width, no look-ahead) and the four combinators; scanners are exempt."},
    "n": {"quick": 4000, "thorough": 200000},
    "exhaustive": {"quick": True, "thorough": True},
    "rule": "exhaustive buffers of length <= 2 (quick) / <= 3 (thorough) over a 30-symbol alphabet (whitespace, delimiters, digits, sign, "
            "escapes, keyword letters, high bytes) x every cursor position x 26 parsers (whitespace, comment, keywords, numbers, strings, "
            "names, operators, stream data, object parser at two depth bounds, binary integers, byte vector, tag matcher, scanners); "
            "sub-sampled next length; random concatenations of ~50 PDF tokens with stray bytes; corpus of past defects. "
            "non-trivial = buffer of >= 2 bytes or non-zero cursor (counted distinct by hash of the case)",
    "trusted_base": COMMON_TB + [
        "modelled, not verified: ParseBuffer primitives as list functions on a whole buffer (views: C17); std::str::from_utf8 as validUtf8",
        "the four combinators' failure-restores-cursor clause is proved in C18 (Parsley.C18.*), binary integers in C19"],
    "assumptions": ["StreamContentT.start is location metadata: the re-parse clause compares it relative to the span start",
                    "scanners (value = skip count, span = skipped text) are exempt from the re-parse clause, not from the others"],
}
LEVEL = {
    "design_ref": "DESIGN.md 3.C15",
    "technique": "Lean 4 theorems per token parser over an executable model + exhaustive small-buffer differential correspondence",
    "text": "Machine-checked proof, for every buffer and cursor, that each modelled token parser on success reports start = cursor-before, "
            "cursor-after = end <= size, and on failure leaves the cursor unchanged; and that parsing the reported span alone (bytes before it dropped: prefix "
            "independence; bytes after it cut: suffix truncation, the look-ahead sees the same at end-of-buffer) yields an equal value and consumes the span, "
            "for every token parser, the tag matcher, StreamContentP (modulo its absolute start offset) and the object parser parse_pdf_obj at every depth; "
            "the re-parse clause is also checked by the oracle on the real code for all parsers. Model tied to the Rust parsers by an exhaustive small-buffer run.",
}
