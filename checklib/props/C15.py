CFG = {
    "modules": ["Parsley.Props.C15"],
    "theorems": ["Parsley.C15.loc_faithful_tokens", "Parsley.C15.wsEOLLoop_spec", "Parsley.C15.litLoop_bound"],
    "n": {"quick": 4000, "thorough": 200000},
    "exhaustive": {"quick": True, "thorough": True},
    "rule": "exhaustive buffers of length <= 2 (quick) / <= 3 (thorough) over a 30-symbol alphabet (whitespace, delimiters, digits, sign, "
            "escapes, keyword letters, high bytes) x every cursor position x 26 parsers (whitespace, comment, keywords, numbers, strings, "
            "names, operators, stream data, object parser at two depth bounds, binary integers, byte vector, tag matcher, scanners); "
            "sub-sampled next length; random concatenations of ~50 PDF tokens with stray bytes; corpus of past defects. "
            "non-trivial = buffer of >= 2 bytes or non-zero cursor (counted distinct by hash of the case)",
    "trusted_base": COMMON_TB + [
        "modelled, not verified: ParseBuffer primitives as list functions on a whole buffer (views: C17); std::str::from_utf8 as validUtf8",
        "the four combinators' failure-restores-cursor clause is proved in C18 (Parsley.C18.*), binary integers in C19"],
    "assumptions": ["StreamContentT.start is location metadata: the re-parse clause compares it relative to the span start",
                    "scanners (value = skip count, span = skipped text) are exempt from the re-parse clause, not from the others"],
}
LEVEL = {
    "design_ref": "DESIGN.md 3.C15",
    "technique": "Lean 4 theorems per token parser over an executable model + exhaustive small-buffer differential correspondence",
    "text": "Machine-checked proof, for every buffer and cursor, that each modelled token parser on success reports start = cursor-before, "
            "cursor-after = end <= size, and on failure leaves the cursor unchanged; the re-parse clause is proved for the listed parsers and "
            "checked by the oracle on the real code for all of them. Model tied to the Rust parsers by an exhaustive small-buffer run.",
}
