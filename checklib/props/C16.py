CFG = {
    "modules": ["Parsley.Props.C16", "Parsley.Props.C02Struct"],
    "theorems": ["Parsley.C16.accepted_depth_le", "Parsley.C16.depth_restored", "Parsley.C16.parse_never_panics",
                 "Parsley.C16.obj_loc", "Parsley.C16.at_bound_rejects", "Parsley.Obj.parseObjB_good",
                 "Parsley.C02.within_bound_accepted", "Parsley.C02.Spells.depth_le"],
    "partial": {
                "(stack proportional to d)": "proved as: the nesting budget max-cur suffices (no budget panic) — the model's recursion depth is <= d; "
                "the machine stack itself is observed by the 10^5/10^6-deep runs and by the width / length profiles (10^3..10^5, thorough 10^6 elements or bytes at one level), "
                "all run on a thread with a fixed 1 MiB stack"},
    "n": {"quick": 3000, "thorough": 150000},
    "exhaustive": {"quick": False, "thorough": False},
    "rule": "every bound d in 0..64 x 3 opener kinds (array, dictionary value, mixed with siblings) x nesting depth k in {d-1,d,d+1,d+2}; "
            "random profiles (<= 13 openers, 7 leaf kinds) at random bounds with a random truncation each (failure point inside a nested object); "
            "unclosed nesting of 10^3, 10^5 (thorough: 10^6) openers at d in {1,50,64}. "
            "WIDTH profiles (`wide`): one array / dictionary with N elements / entries at ONE level, N in {300, 10^3, 10^4} (a handful 10^5; thorough: 3000, "
            "10^5 everywhere, 10^6) x 12 element kinds (8 scalars incl. null-valued entries, [] <<>> [7] <</K 7>>) x d in {2,3,50,64} x the wide level at nesting "
            "position 1, d/2, d-1 (elements exactly at the bound) and d (one beyond: rejected) inside array / dictionary-value / mixed wrappers, plus a last element "
            "one level deeper than its siblings (rejected only after the whole width). LENGTH profiles (`run`): 20 kinds of one long run - literal strings "
            "(plain, N nested parentheses, N escapes), names (plain, #xx), hex strings (plain, with white space), numbers (N leading zeros; N digits / fraction "
            "digits beyond i128: rejected), white space / CRLF / N comments / one long comment before a token, inside [ ], << >>, between key and value, inside "
            "a reference, one long key - N in {10^3, 10^4, 10^5} (thorough: 10^6) at top level, half way and at the bound. Expected: accepted iff the input's "
            "nesting <= d, with the right value, compared as a digest (span, cursor, #nodes, depth, largest width, order-sensitive checksum) computed by the "
            "oracle from the description alone; a crash or hang of the harness process is a violation. The harness runs EVERY case on a thread with a FIXED "
            "1 MiB stack (a worker thread of a user of the crate), so the verdict does not depend on the 8 MiB main thread; the unchanged code needs < 1/4 of it "
            "at d = 64. The list-based model is quadratic in the width: it runs the profiles of estimated work <= 6*10^8 list cells (widths 300, 10^3, arrays "
            "3000; all `run` kinds but comment runs up to 10^6); above that the model's line is the closed form, confirmed by the smaller widths of the same "
            "family. STARTING DEPTH > 0 (`at <k0> <case>`): every case kind above also on a context whose depth is ALREADY k0 in {1, 2, d/2, d-1, d} (the "
            "harness calls the public enter_obj() k0 times before parse_pdf_obj, as a client embedding the object parser in its own nesting would; the model "
            "runs parseObj <k0, d>): every bound d in 1..64 x every k0 x 3 opener kinds x nesting in {rem-1, rem, rem+1, rem+2} with rem = d - k0 levels "
            "remaining (k0 = d: even a scalar is rejected); random profiles / truncations from random starting depths (n/2 pairs; thorough n/3); unclosed "
            "nesting; width profiles (300, some 10^3 / 10^4, three 10^5) with the wide level at position 1, rem/2, rem-1, rem; all 20 length profiles at the "
            "bound and one beyond. SEQUENCES (`seq <d> <k0> ; step ; step [; step]`): two and three parses on ONE context (fresh buffer each), every d in "
            "0..64 x k0 in {0, 1, 2, d/2, d-1, d}: reject-at-the-bound then accept exactly at the bound then reject again, accept / reject / accept, two "
            "rejections then an object one level deeper still (must not add up), bound rejections interleaved with syntax errors at depth (leaf missing, "
            "closers missing, last closing byte missing) and with 10^3 unclosed openers; random sequences of 2-3 random steps at random (d, k0); sequences of "
            "wide / long steps. Expected (oracle, from the description alone, the model is not consulted): for EVERY step and EVERY outcome depth after = depth "
            "before (the harness reports the difference per step), an object is accepted iff k0 + its nesting <= d (k0 = the starting depth: by the property, "
            "the depth before every step), accepted values as above; the first failing step is named (`step=i`). After the case the harness leaves "
            "min(k0, depth) times, so leave_obj's assert is never tripped by the harness itself. The theorem depth_restored is stated for an ARBITRARY context "
            "(cur <= max), i.e. it covers every non-zero starting depth and, by iteration, every sequence; accepted_depth_le reads cur + depth <= max. "
            "INDIRECT OBJECTS (`ind <d> <form> <num> <case>`, alone, under `at` and as `seq` steps): the case's input as the BODY of `<num> 0 obj <body> "
            "endobj`, parsed by parse_pdf_indirect_obj on the same kind of context (the model: Indirect.parseIndirect, which threads cur / max AND the "
            "definitions). Forms: p plain; s the body as a value inside a stream dictionary followed by stream .. endstream (one level more); failures "
            "past the `obj` keyword: e `endobj` misspelt, l stream without /Length, t stream content shorter than /Length, a duplicate number (in a `seq`), "
            "a bound / syntax error inside the body; k keyword `obj` misspelt (failure before the body). Every d in 0..64 x k0 in {0, 1, 2, d/2, d-1, d} x 3 "
            "opener kinds x body nesting in {rem-1, rem, rem+1, rem+2} (form p; form s and the failure forms with one opener kind in quick, the stream "
            "dictionary counted), a syntax error at depth in the body (forms p, s); sequences of 3-4 steps mixing indirect and plain parses on ONE context "
            "(indirect / plain rejection / indirect; a rejected object is not registered; duplicate then plain steps at the bound; t, l, s rejections then "
            "plain; 10^3 unclosed openers inside an object); random bodies / truncations in random forms from random starting depths and random mixed "
            "sequences (n/2 pairs; thorough n/3); 10^3..10^5 (thorough 10^6) unclosed openers inside an object; width profiles (300, some 10^3) and all 20 "
            "length profiles (10^3) as bodies at the bound and one beyond, plain and inside a stream dictionary (the `ind` families stay below the model's "
            "work budget: the model always runs). Output: result, span, cursor (also on failure), depth delta, number, generation, the object's span and "
            "value (a stream: its dictionary, content start and size). Expected (oracle, from the description and the layout of the text alone): depth "
            "after = depth before for EVERY outcome; accepted iff the form is p or s, the body is a valid object, the number is not yet defined on this "
            "context, and k0 + nesting(body) (+1 for the stream dictionary) <= d; accepted width / length profiles: the exact output line. "
            "non-trivial = input nesting >= 2 (distinct by case hash), width / run length >= 1000; `ind`: the body's case non-trivial; `at`: k0 >= 1 and the "
            "inner case non-trivial; `seq`: >= 2 steps, one of them non-trivial",
    "trusted_base": COMMON_TB + ["modelled, not verified: ParseBuffer primitives as list functions; the real machine stack"],
    "assumptions": ["depth of a value = number of nested parse_pdf_obj activations needed to parse it (scalar or empty container = 1)"],
}
LEVEL = {
    "design_ref": "DESIGN.md 3.C02/C16",
    "technique": "Lean 4 invariant by induction on the nesting budget over an executable model of parse_pdf_obj + differential correspondence",
    "text": "Machine-checked proof for all inputs, cursors and contexts that an accepted object's nesting depth is within the bound, that the "
            "context's depth is restored after every outcome, and that no panic site (leave_obj assert, nesting budget, loop fuel) is reachable; "
            "acceptance of every legally spelled object whose spelling depth is within the bound is a theorem too (within_bound_accepted, from C02's spell_parse); "
            "rejection beyond the bound is accepted_depth_le (contrapositive) and is also exercised by the oracle on generated nesting profiles; "
            "model tied to parse_pdf_obj by the correspondence run (value, span, cursor, depth delta), from a fresh context, from contexts that are "
            "already k0 levels deep, and over sequences of parses on one context; the same through parse_pdf_indirect_obj (objects and stream objects "
            "around the bodies, every failure past the `obj` keyword), alone and mixed with plain parses.",
}
