CFG = {
    "modules": ["Parsley.Props.C16", "Parsley.Props.C02Struct"],
    "theorems": ["Parsley.C16.accepted_depth_le", "Parsley.C16.depth_restored", "Parsley.C16.parse_never_panics",
                 "Parsley.C16.obj_loc", "Parsley.C16.at_bound_rejects", "Parsley.Obj.parseObjB_good",
                 "Parsley.C02.within_bound_accepted", "Parsley.C02.Spells.depth_le"],
    "partial": {
                "(stack proportional to d)": "proved as: the nesting budget max-cur suffices (no budget panic) — the model's recursion depth is <= d; "
                "the machine stack itself is observed only by the 10^5/10^6-deep runs"},
    "n": {"quick": 3000, "thorough": 150000},
    "exhaustive": {"quick": False, "thorough": False},
    "rule": "every bound d in 0..64 x 3 opener kinds (array, dictionary value, mixed with siblings) x nesting depth k in {d-1,d,d+1,d+2}; "
            "random profiles (<= 13 openers, 7 leaf kinds) at random bounds with a random truncation each (failure point inside a nested object); "
            "unclosed nesting of 10^3, 10^5 (thorough: 10^6) openers at d in {1,50,64}. non-trivial = input nesting >= 2 (distinct by case hash)",
    "trusted_base": COMMON_TB + ["modelled, not verified: ParseBuffer primitives as list functions; the real machine stack"],
    "assumptions": ["depth of a value = number of nested parse_pdf_obj activations needed to parse it (scalar or empty container = 1)"],
}
LEVEL = {
    "design_ref": "DESIGN.md 3.C02/C16",
    "technique": "Lean 4 invariant by induction on the nesting budget over an executable model of parse_pdf_obj + differential correspondence",
    "text": "Machine-checked proof for all inputs, cursors and contexts that an accepted object's nesting depth is within the bound, that the "
            "context's depth is restored after every outcome, and that no panic site (leave_obj assert, nesting budget, loop fuel) is reachable; "
            "acceptance of every legally spelled object whose spelling depth is within the bound is a theorem too (within_bound_accepted, from C02's spell_parse); "
            "rejection beyond the bound is accepted_depth_le (contrapositive) and is also exercised by the oracle on generated nesting profiles; "
            "model tied to parse_pdf_obj by the correspondence run (value, span, cursor, depth delta).",
}
