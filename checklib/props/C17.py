CFG = {
    "modules": ["Parsley.Props.C17"],
    "theorems": [
        "Parsley.C17.run_refines", "Parsley.C17.view_step_refines", "Parsley.C17.view_refines_copy",
        "Parsley.C17.view_refines_copy_init", "Parsley.C17.wf_preserved",
        "Parsley.C17.no_byte_outside_window", "Parsley.C17.failed_request_keeps_cursor",
        "Parsley.C17.shared_refuses_mutation", "Parsley.C17.panics_only_where_copy_panics",
        "Parsley.C17.drop_orig_witness", "Parsley.C17.append_orig_witness",
        "Parsley.C17.set_cursor_orig_witness", "Parsley.C17.scan_least", "Parsley.C17.bscan_greatest",
    ],
    "n": {"quick": 12000, "thorough": 300000},
    "exhaustive": {"quick": True, "thorough": True},
    "rule": "exhaustive stream: every buffer over {a,b} up to 3 bytes (thorough 4) x every (start,size) window x "
            "(nested: every window of that window, buffers up to 2 / 3 bytes) x {shared, parents released} x every "
            "cursor position x every single operation of the alphabet (all 25 operations with every small argument "
            "0..size+1 and usize::MAX, six tags over {a,b}); all operation PAIRS on buffers up to 1 byte (thorough 2, "
            "also nested); random stream: buffers up to 64 bytes over alphabets of 2/3/10 symbols, 1..40 operations drawn "
            "against the copy machine's current state (mostly in range, 10% out of range / usize::MAX), up to ~8 live "
            "views incl. views of views and fresh buffers, random releases. After every operation the slot is probed "
            "(cursor,size,buf()), at the end every live view is dumped. Non-trivial = the sequence creates a view with "
            "start>0 or a view of a view AND applies a cursor-moving/scanning/extracting/drop/append operation to a slot "
            "other than the root; distinct by sha1 of the case line",
    "trusted_base": COMMON_TB + [
        "modelled, not verified: Rc<Vec<u8>> as a heap of byte lists with strong count = number of live ParseBuffers on "
        "the allocation (no Weak is created in the crate), Rc::get_mut = (count == 1); Vec::truncate/drain/"
        "extend_from_slice as take/drop/append; slice::windows(n).enumerate()/.rev() as index loops; starts_with/"
        "contains as List.isPrefixOf/List.contains",
        "not modelled: allocation failure / Vec capacity (lengths are unbounded naturals; additions bounded by a "
        "store length are not overflow-checked, additions of caller-supplied usize values are)",
        "excluded observables (documented absolute/internal API): get_location, start(), rc_buf(), shared_count(), "
        "error locations",
    ],
    "assumptions": ["the system is built from ParseBuffer::new, RestrictView/RestrictViewFrom transforms and value drops "
                    "(the only constructors the crate offers), so every state is reachable from a well-formed one"],
}
LEVEL = {
    "design_ref": "DESIGN.md 3.C17",
    "technique": "Lean 4 refinement proof (forward simulation between a model of ParseBuffer{Rc<Vec>,start,end,ofs} with "
                 "explicit Rc counts and a copy-of-window machine) + exhaustive/random differential correspondence with the Rust code",
    "text": "Machine-checked proof, for every well-formed heap of buffers and views (any number of allocations, views of "
            "views to any depth, any sharing pattern) and every finite sequence of the 25 operations with arbitrary "
            "arguments, that the model of ParseBuffer/RestrictView/RestrictViewFrom/StreamBufferT returns exactly the "
            "outputs of a machine that keeps a private copy of each window with a relative cursor (view_refines_copy), that "
            "start <= ofs <= end <= |storage| is invariant (wf_preserved: no remaining()/slice/subtraction panic is "
            "reachable), that an Err result leaves the buffer unchanged, that drop/append return false while the "
            "allocation has another live view, and that the only panics are the asserting *_unsafe calls out of range and "
            "the empty scan tag, identically on view and copy. The model mirrors the Rust code with fixes C17-01/C17-02 and "
            "is tied to it by a correspondence run (exhaustive over small buffers x windows x nested windows x sharing x "
            "cursor x operation, random beyond); the pre-fix bodies are kept with witness theorems for the three defects.",
}
