CFG = {
    "modules": ["Parsley.Props.C18"],
    "theorems": [
        "Parsley.C18.run_eq_peg",
        "Parsley.C18.peg_deterministic",
        "Parsley.C18.pegEval_sound",
        "Parsley.C18.success_span_and_cursor",
        "Parsley.C18.failure_restores_cursor",
        "Parsley.C18.run_never_panics_or_hangs",
        "Parsley.C18.spans_nest",
        "Parsley.C18.nest_le", "Parsley.C18.nest_pair", "Parsley.C18.nest_alt",
        "Parsley.C18.tiles_mem", "Parsley.C18.tiles_adjacent",
        "Parsley.C18.star_always_succeeds_longest",
        "Parsley.C18.star_never_fails",
        "Parsley.C18.peg_star_longest",
        "Parsley.C18.not_never_consumes",
        "Parsley.C18.run_fuel_sufficient",
        "Parsley.C18.run_nonterminating_without_hyp",
        "Parsley.C18.peg_star_nonconsuming_diverges",
        "Parsley.C18.pegEval_total", "Parsley.C18.pegEval_eq_peg", "Parsley.C18.run_eq_pegEval",
        "Parsley.C18.peg_consumed_le", "Parsley.C18.peg_consumes_pos",
        "Parsley.C18.run_returns_peg_any", "Parsley.C18.run_never_panics_any",
    ],
    "partial": {},
    "n": {"quick": 6000, "thorough": 1000000},
    "exhaustive": {"quick": False, "thorough": True},
    "rule": "LONG RUNS (follow-up to seed C18_11): a Star whose operand matches hundreds / thousands of times in a row - run lengths around 127/128/129, 255/256/257, 1000, 4096 and the 64 Ki boundary (three cases), operands a, ab, (a|b), in five contexts (alone, x* y, (x* !x)|y, (x* y)*, !(x* y)), each run followed by nothing / the terminator / a byte nothing matches; buffers written as `<n>*<hex>` segments expanded by the harness and the driver alike; "
            "corpus (the crate's own 9 test expressions + hand-built backtracking/lookahead/non-ASCII cases) first; "
            "exhaustive: every expression of depth <= 1 (quick) / <= 2 (thorough; 1515 expressions, those with a non-consuming star "
            "body excluded as the statement does) over the three guarded byte parsers a,b,c x every string of length <= 5 (quick) / "
            "<= 6 (thorough, 1093 strings) over {a,b,c} at cursor 0, and depth <= 1 x strings <= 3 behind a 2-byte prefix at cursor 2; "
            "the same with RAW operands (harness-defined byte parsers that consume the byte even when their guard rejects it, like the "
            "crate's parsers that do not restore on failure) as leaves: depth <= 1 (quick) / <= 2 (thorough) x strings <= 4, so that every "
            "cursor restore the combinators perform themselves is observable; "
            "sampled: depth-3 expressions (random top combinator over depth-<=2 operands) x random strings <= 6; random beyond: depth "
            "<= 5, guards ==, !=, range, unguarded, bytes incl. NUL/0x7f/0x80/0xff, buffers <= 10 (quick) / 14 (thorough), random cursor. "
            "OVERLAPPING ALTERNATIVES ON ONE PARSER OBJECT (the harness builds every combinator object once per case and reuses it: a "
            "combinator under a Star is the same object in every round): alternatives x|y for every ordered pair of 8 consuming operands "
            "a, b, U, ab, aa, ba, a b*, a !b (identical / shared first byte / one a prefix of the other / one subsuming the other), 48 with "
            "a nullable side (a*, !b, (ab)*), 128 nested (x|y)|z, x|(y|z); grammars (x|y)* x every string <= 5 (quick) / 7 (thorough) over "
            "{a,b}; ((x|y)c)*, (c(x|y))*, ((x|y)*c)* and the nullable ones as ((x|n)c)* x every string <= 4 / 6 over {a,b,c}, so that every "
            "order of left/right wins occurs. REUSE cases `<expr> (<hexbuf> <pos>)+`: one parser object applied to several inputs in a row "
            "(every pair - thorough: and triple - of strings <= 2 over {a,b} for the 112 alternatives; every cursor of one buffer of "
            "length 3..4 / 3..5 ascending and descending for the alternatives and (x|y)*; n/2 (at most 200000) random 2-4 step cases "
            "over the family and over random expressions); the model is stateless (steps = map), the oracle judges every step on its "
            "own against the PEG denotation and reports a wrong later step as class state-carried-across-applications. "
            "Non-trivial = the expression has >= 2 combinators, its star bodies consume, and >= 2 bytes of input remain after the cursor "
            "(reuse case: >= 1 combinator and >= 2 steps with input remaining).",
    "trusted_base": COMMON_TB + [
        "modelled, not verified: ParseBuffer::get_cursor/buf/set_cursor_unsafe as index arithmetic on a whole buffer with the "
        "assert as an explicit panic outcome (restricted views: C17)",
        "guards are pure predicates on the character (Rust type FnMut(&char)->bool would allow stateful closures; none in the crate)",
        "harness: the type-erased Node wrapper (built once per case, heap nodes handed to the crate's combinators as &mut borrows) "
        "re-packs each combinator's typed result into a uniform tree without touching the cursor; "
        "RawChar (a harness-defined operand built on the crate's parse_prim) is modelled by Comb.rawChar",
    ],
    "assumptions": [
        "star bodies consume input (the statement's own side condition; run_nonterminating_without_hyp shows it is necessary)",
        "the buffer is an unrestricted ParseBuffer with cursor <= length (views: C17)",
    ],
}
LEVEL = {
    "design_ref": "DESIGN.md 3.C18",
    "technique": "Lean 4 theorems relating an executable line-by-line model of Sequence/Alternate/Star/Not/AsciiChar to the textbook PEG "
                 "big-step relation + differential correspondence of the model and an independent PEG oracle with the real combinators",
    "text": "Machine-checked proof, for ALL expressions whose star bodies consume, all buffers and all cursors (no size bound), that the "
            "model's outcome (value structure + consumed length, or failure) is exactly the outcome of the standard PEG semantics "
            "(run_eq_peg, with peg_deterministic), that the reported span is [i,cursor) and all spans tile their parents in order "
            "(spans_nest + nest_* lemmas), that failure leaves the cursor where it was (for every expression, any fuel), that repetition "
            "never fails and returns the longest chain of body matches with the cursor after the last success, that negation never "
            "consumes, that no assert can fire and |s|-i+1 loop iterations suffice (run_fuel_sufficient); the side condition is shown "
            "necessary by a divergence witness on both the model and the relation. All theorems full strength; none partial. The model "
            "is tied to the Rust code by an exhaustive small-scope + random correspondence run through a harness that builds the real "
            "generic combinators recursively, and the implementation's output is judged by an independent executable PEG evaluator "
            "(proved sound w.r.t. the relation) plus the span-tiling check.",
}
