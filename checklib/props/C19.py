CFG = {
    "modules": ["Parsley.Props.C19"],
    "theorems": [
        "Parsley.C19.uint_parse_spec", "Parsley.C19.int_parse_spec", "Parsley.C19.bytevec_spec",
        "Parsley.C19.comb_no_overflow", "Parsley.C19.bin_never_panics", "Parsley.C19.pair_sat",
    ],
    "n": {"quick": 3000, "thorough": 400000},
    "exhaustive": {"quick": False, "thorough": True},
    "rule": "all 8-bit patterns; 16-bit patterns (stride 13 quick / all 65536 thorough) x {u16,i16} x {be,le}; every "
            "remaining-length 0..w+1 for every width/endian/signedness; boundary 32/64-bit patterns; random buffers "
            "<= 11 bytes x random cursor x random parser, each also through a RestrictView window of a larger allocation; "
            "ByteVecP lengths from the whole usize range (usize::MAX-k for k=0..16 and k=absolute offset+-2 i.e. both sides of the "
            "point where cursor+len wraps, 2^63+-2, 2^32+-2, 2^31+-2, remaining-1..remaining+2, 0) x buffers of 0,1,2,3,8,20 bytes x "
            "cursor 0,1,mid,end-1,end x {plain buffer, 5 windows with start 0 / start>0 / at the end of the allocation, 3 chains of 2-3 "
            "nested RestrictViews}; every fixed-width parser x {be,le} x buffer lengths 0,1,w-1,w,w+1,2w+1 x the same cursors x the same "
            "9 views; per random case one more ByteVecP request (length around the wrap point, a power of two, remaining, or uniform in "
            "0..2^64-1) and one integer parser on a random chain of 0-3 views; a panic of the real code is judged `bad panic`; "
            "REUSE sequences (`seq` cases: ONE parser object - ByteVecP of 0,1,2,3,5,8 bytes, every fixed-width parser x {be,le} - "
            "applied 2-5 times, every buffer keeping its cursor between steps): (A) 2,3,4 back-to-back successes then the end of the "
            "buffer, leftover 0,1,w-1 bytes, start cursor 0 / leftover, inside each of the 9 views; (B) one buffer of 2w+1 bytes "
            "(plain and inside a view), every word of 2-3 (thorough 2-4) steps over {stay, rewind to 0, cursor w, last full window, "
            "one byte past it, end} = successes and end-of-buffer failures in every order; (C) three different buffers (plain / "
            "window of nested views / window one byte too short), every word of 2-3 (thorough 2-4) steps over {next of buffer 0,1,2, "
            "rewind buffer 0, buffer 1 at cursor w}; (D) per random case one sequence of 2-4 steps of a random parser on 1-3 random "
            "buffers in random chains of 0-2 views, each step at the buffer's cursor or a random one; every step is judged against "
            "the spec window at its cursor (a wrong later step after a right first one is judged `bad reuse`); "
            "REMAINING-LENGTH sweep on pattern buffers (buffer word `#N` = N bytes, byte i = 7i+3+i/256 mod 256, so a window read at a "
            "wrong offset shows in the value): every parser (u8,i8, the six wider ones x {be,le}, ByteVecP of 0,1,2,8,255,256,257,65535,"
            "65536 bytes as far as len <= remaining+2) x remaining length = every value 0..600 (quick: the bands k*256+-8 and every 7th "
            "value outside them) and k*256-8..k*256+8 for k=3,4,16,255,256 (2^16),257 (2^16+2^8) x {plain buffer at cursor 0 and 3, "
            "window of a RestrictView with 300 / 1 bytes behind it, window of two nested views with 1+255 bytes behind it} (remaining = "
            "the WINDOW's; quick: 2 of the 5 positions beyond 600); LARGE CURSOR with short remaining: cursor k*256-8..k*256+8 for "
            "k=1,2,3,4,16,255,256,257 (quick: offsets 0,+-1,+-2,+-4,+-8; 0,+-1 from k=255 on) x remaining 0,w-1,w,w+1 (thorough also 1,w+8) x "
            "every fixed-width parser and ByteVecP 0,1,2,8, plain and inside windows; 2^24: 26 cases on 16 MiB buffers in thorough "
            "(remaining 2^24-1,2^24,2^24+1,2^24+7 x u16,i32,u64,bv 65536; two inside a window; cursor 2^24,2^24+1 with w-1,w bytes left), "
            "one in quick; per random case one more sweep case (remaining k*256-8..k*256+8 for k=0..8, every 32nd k in 16,255,256,257; "
            "cursor < 700; random parser; plain or a window with 0..399 bytes behind it); "
            "non-trivial = parser other than UInt8P with >=2 bytes of buffer or a non-zero cursor; a sequence of >=2 uses of a parser other than UInt8P",
    "trusted_base": COMMON_TB + [
        "modelled, not verified: ParseBuffer::peek/incr_cursor_unsafe/set_cursor_unsafe/extract as list indexing on a whole buffer (views: C17)"],
    "assumptions": ["the model is over a plain byte list; that a restricted view behaves like a copy of its window is C17's theorem; the correspondence run exercises every parser both on plain buffers and on restricted views inside a larger allocation (case kinds prefixed with v, or a fifth word @lead.trail/... for a chain of nested views)",
                    "the model parsers are functions of (buffer, cursor): a parser object has no state, so the model of a reuse sequence is the map of the single-step model over the steps with the cursor of each buffer threaded; that the Rust parser objects carry no state from one parse() to the next is checked by the `seq` cases of the correspondence run, not proved"],
}
LEVEL = {
    "design_ref": "DESIGN.md 3.C19",
    "technique": "Lean 4 theorems (doubling lemma pair_sat over an executable model) + differential correspondence with the Rust parsers",
    "text": "Machine-checked proof, for all buffers, cursors, widths {1,2,4,8}, byte orders and signedness, that the model of "
            "UInt*P/Int*P/ByteVecP returns the denoted value with span [i,i+w) and cursor i+w, or end-of-buffer with the cursor "
            "unmoved, and never reaches a panic (the debug-build `+` cannot overflow). The model mirrors the Rust composition "
            "(two halves, restore on second failure) and is tied to the code by an exhaustive 8/16-bit and random 32/64-bit "
            "correspondence run on every check.",
}
