CFG = {
    "modules": ["Parsley.Props.C19"],
    "theorems": [
        "Parsley.C19.uint_parse_spec", "Parsley.C19.int_parse_spec", "Parsley.C19.bytevec_spec",
        "Parsley.C19.comb_no_overflow", "Parsley.C19.bin_never_panics", "Parsley.C19.pair_sat",
    ],
    "n": {"quick": 3000, "thorough": 400000},
    "exhaustive": {"quick": False, "thorough": True},
    "rule": "all 8-bit patterns; 16-bit patterns (stride 13 quick / all 65536 thorough) x {u16,i16} x {be,le}; every "
            "remaining-length 0..w+1 for every width/endian/signedness; boundary 32/64-bit patterns; random buffers "
            "<= 11 bytes x random cursor x random parser, each also through a RestrictView window of a larger allocation; non-trivial = multi-byte parser with >=2 bytes of buffer or a non-zero cursor",
    "trusted_base": COMMON_TB + [
        "modelled, not verified: ParseBuffer::peek/incr_cursor_unsafe/set_cursor_unsafe/extract as list indexing on a whole buffer (views: C17)"],
    "assumptions": ["the model is over a plain byte list; that a restricted view behaves like a copy of its window is C17's theorem; the correspondence run exercises every parser both on plain buffers and on restricted views inside a larger allocation (case kinds prefixed with v)"],
}
LEVEL = {
    "design_ref": "DESIGN.md 3.C19",
    "technique": "Lean 4 theorems (doubling lemma pair_sat over an executable model) + differential correspondence with the Rust parsers",
    "text": "Machine-checked proof, for all buffers, cursors, widths {1,2,4,8}, byte orders and signedness, that the model of "
            "UInt*P/Int*P/ByteVecP returns the denoted value with span [i,i+w) and cursor i+w, or end-of-buffer with the cursor "
            "unmoved, and never reaches a panic (the debug-build `+` cannot overflow). The model mirrors the Rust composition "
            "(two halves, restore on second failure) and is tied to the code by an exhaustive 8/16-bit and random 32/64-bit "
            "correspondence run on every check.",
}
