CFG = {
    "modules": ["Parsley.Props.C20", "Parsley.Props.C20Fast"],
    "theorems": [
        "Parsley.C20.decode_then_encode", "Parsley.C20.encode_then_decode", "Parsley.C20.decode_total",
        "Parsley.C20.decode_wf", "Parsley.C20.decode_ok_iff", "Parsley.C20.decode_err_iff",
        "Parsley.C20.encode_injective", "Parsley.C20.decode_consumes_datagram",
        "Parsley.C20.decode_fuel_sufficient", "Parsley.C20.packetP_sound", "Parsley.C20.packetP_complete",
        "Parsley.C20.packetP_no_panic", "Parsley.C20.refDecode_iff", "Parsley.C20.refDecode_agrees",
        "Parsley.C20.loopF_eq", "Parsley.C20.packetFast_eq",
    ],
    "partial": {},
    "n": {"quick": 1500, "thorough": 60000},
    "exhaustive": {"quick": False, "thorough": False},   # the input space is infinite; the finite sub-spaces named in `rule` are enumerated completely
    "rule": "corpus first; exhaustive small spaces: all 256 flags bytes x {3-byte, 258-byte (asymmetric length bytes), "
            "zero-length with and without payload} x {last, followed by another sub-message}, all 256 sub-message ids, "
            "boundary length fields x both byte orders x {exact, one byte short, one byte long, followed by an empty "
            "zero-length sub-message}, every truncation of a 3-sub-message datagram, 4 values at each of its first 32 "
            "bytes, every byte string over {00,01,02} of length <= 6 (quick) / <= 8 (thorough) behind a valid header, hand-built non-well-formed packets, the size limits (length field 65535, UDP maximum 65507, a 70000-byte "
            "zero-length payload); the fixed-value field family (the 4 magic bytes are the only constant the decoder checks - "
            "every other byte is recorded in the packet and written back): EVERY other value 0..255 at each magic byte x "
            "{header only, one exact-fit sub-message, three sub-messages with zero-length tail, empty zero-length sub-message} "
            "(4 x 255 x 4), the product of the per-byte near-miss sets (other letter case, code points at distance 1/2/5 either "
            "side, the letters R T P S X M C; 12-13 values per byte) restricted to <= 2 differing bytes (quick) / whole product "
            "(thorough, ~27000 words) x {header only, one sub-message}, sibling words (RTPX RTMP RTSP RTCP RTP\\0 RTP2 DDSI, "
            "all 23 permutations, reversed/swapped/rotated/shifted/high-bit/complemented) x the 4 remainders, all 6 position "
            "pairs x all pairs of upper-case letters (quick) / letters and digits (thorough), the magic preceded by 1..4 bytes "
            "and with one byte deleted; per n/4 a random well-formed packet with one magic byte replaced by a random other "
            "value and one with a random near-miss word (oracle: reject, or re-encoding reproduces the datagram); the "
            "content-dependent-boundary family (nothing in the format makes a sub-message boundary depend on the bytes found "
            "there): a dictionary of 4-byte patterns (the magic, its single-byte near misses and sibling words/permutations, "
            "the magic with the byte-order bit set, magic letters with small lengths, the header's version/vendor and prefix "
            "bytes, 00000000, ffffffff and mixes, the header of the preceding sub-message; ~28 key / ~110 in all) placed as "
            "sub-message header at the boundary behind the header and behind 1, 2, 3 explicit-length sub-messages, read as the "
            "pattern itself denotes (byte order from its flags byte, payload of exactly the denoted length up to 65535; zero = "
            "rest of datagram), x {exact fit, one byte short, one byte long, followed by two more sub-messages, twice in a row, "
            "payload starting with the magic, pattern alone, pattern twice, 3 bytes of it} (quick: key patterns at every "
            "boundary, the whole dictionary behind the header; thorough: everything everywhere); concatenations of two and "
            "three well-formed datagrams from 6 shapes (incl. a second datagram of exactly 4+20563 bytes, which the format reads "
            "as ONE sub-message id 0x52 flags 0x54 length 0x5053 - accepted - and its one-short/one-long neighbours); per n/4 a "
            "random well-formed packet with one sub-message header overwritten by a dictionary pattern (per n/16 with the "
            "payload resized to fit) and 2-3 random well-formed packets concatenated; a returned packet that encodes a strict "
            "prefix of the datagram gets its own verdict `bad unread`; the COUNT / SIZE family (corpus count_size.case; the format bounds neither the number of sub-messages nor the "
            "datagram size - a reader with a cap, a counter wrapping at 2^8 / 2^16 or a size compared in the wrong width returns a strict prefix, rejects or panics). Datagrams are built from runs (a cycle of sub-messages "
            "repeated) and written above 4 kB in DESCRIPTOR form `<seg>+<seg>+...`, <seg> = <hex> | <n>*<hex> (n copies), expanded by the harness (`expand`) and by the driver (`bytesOfDesc`) independently, so 65537 sub-messages "
            "are one 60-character case line; up to 4 kB the packets go as `enc` with the packet written out; the model of a datagram above 4 kB is evaluated by Rtps.packetFast (one walk over the unread input instead of "
            "re-measuring the buffer at every step), PROVED equal to the line-by-line model for all inputs (Parsley.C20.packetFast_eq). (1) count sweep: EVERY count 0..40 and 63 64 65 66 127 128 129 255 256 257 1000 1024 "
            "1025 4096 (thorough: 2^k-1, 2^k, 2^k+1 for k = 5..15 and 22 more up to 50000) x 4 cycles (minimal 5-byte sub-messages little-endian; big-endian; 4-byte bodies with the byte orders alternating; seven kinds "
            "mixed - known/unknown/vendor ids, both byte orders, other flag bits, bodies of 1-4 bytes incl. the magic) x last sub-message {explicit length, zero-length empty, zero-length with payload} (quick, from 63 up: 7 of the 12 combinations); each count also "
            "damaged (last byte missing and a stray byte behind the last sub-message - both must be rejected; up to 4097 sub-messages, the reference decoder being quadratic -; a stray byte behind a zero-length one, which is payload; a zero length field in the middle or before the last one, which makes the rest ITS payload - "
            "fewer sub-messages than it looks); small packets also as `enc` with the datagram in descriptor form; the huge counts 65535 65536 65537 (thorough: 65534..65538, 100000, 131071..131073) (quick: 5 datagrams in all; thorough: x 6 "
            "cycle/last combinations). (2) count x size: 64/65/66 (thorough up to 1025) sub-messages of 1000 bytes, 65/256/257 of 255-257 bytes. (3) long bodies: length fields fffc fffd fffe ffff (thorough 17 values incl. "
            "7fff 8000 8001 ff00) x both byte orders alone, and for ffff (both orders; thorough: every value): followed by / preceded by a small sub-message, one byte short, one byte long, twice in a row (131 kB), followed by a "
            "zero-length sub-message of 70001 bytes; a zero-length sub-message alone / behind another with 65531 65532 65535 65536 65537 (thorough up to 2^20+1) payload bytes. (4) datagram sizes: exactly 65535 / 65536 / 65537 "
            "(thorough also 65506-65508 = UDP maximum, 131071-131073) bytes made of ~13100 minimal (or mixed) sub-messages and one that fills up (explicit / zero-length / followed); a sub-message header starting at offset "
            "65533..65537, both byte orders. (5) per n/16 a random header, a count from a distribution with mass at 60-70 / 120-136 / 250-262 / powers of two (up to 2048), a random cycle of 1-4 random sub-messages of 1-8 "
            "bytes, a random last kind.  Adds 905 cases + 815 view twins in quick (147 in descriptor form), 6415 + 5616 in thorough (2293); then per n: one random well-formed packet (0..5 sub-messages, arbitrary id/flags, payload "
            "0..65535 skewed small, last one zero-length with p=1/3) encoded by the spec (`enc`: implementation must return "
            "exactly that packet) and one single-edit mutation (truncate, overwrite, insert, delete, append, flip the "
            "endianness bit, zero a length byte) of another (`raw`); per n/4: an arbitrary (not nec. well-formed) packet "
            "value encoded, 0..47 random bytes, the same behind a valid header; thorough adds 60 random datagrams of up to "
            "65507 bytes behind a valid header.  The oracle accepts `ok p` iff encode p = datagram, WF p and the cursor is at "
            "the end, and `err` iff the spec-side reference decoder (proved inverse of encode on WF) also rejects.  "
            "VIEW TWINS (Driver/Views.lean, corpus views.case): every case above (of the datagrams above 4 kB every fourth) runs a second time as `vw <steps> <pre> <suf> <case>` - the datagram is a window strictly inside ONE larger "
            "allocation pre ++ datagram ++ suf (a capture buffer), selected by a chain of RestrictView / RestrictViewFrom steps (the harness checks that the view shows exactly the window), and PacketP runs on that view; "
            "bytes in front of the window cycled over 1, 7, 11, 2, 0, 13, 1000, 64, 5, 3 of them (a pcap-like record header and complete RTPS datagrams, or random bytes; period 16) x chain of restrictions (RestrictView; RestrictViewFrom; From then View; View then View with junk on both sides of the inner window; View then From; a View from 0 then From; three deep; period 7) x what lies behind the window (period 5). The unchanged code reports the cursor as a cursor of the view (= the datagram's length on acceptance) and reads a zero length field as `to the end of the VIEW`; "
            "the expected output is literally that of the plain case, model and oracle are computed from the window's bytes alone (model of a view = model of its window: Parsley.C17.view_refines_copy); classes of rejected view cases carry "
            "the prefix `view-`. What lies behind the window continues the datagram: behind a truncated datagram the rest of it, otherwise the byte completing a payload one byte short, complete sub-messages, a zero-length tail sub-message, "
            "a whole second datagram, 2 / 20 / 300 plain bytes (swallowed by a zero length field if the end were the storage's). CUT family (view only): 4 well-formed datagrams (both byte orders, explicit and zero length fields, the magic "
            "inside payloads) cut at EVERY byte, the rest behind the window; the raw oracle (spec reference decoder on the window) decides. Per tier: quick 20504 ordinary + 19916 view twins + 406 cuts, thorough 339624 + 330756 + 406.  "
            "Non-trivial = the datagram gets past the 20-byte header into the sub-message loop (enc with >=1 sub-message, "
            "or raw of >= 21 bytes starting with the magic; a view case counts when there are bytes in front of or behind the window).",
    "trusted_base": COMMON_TB + [
        "modelled, not verified: ParseBuffer::{remaining, exact, extract, set_cursor_unsafe, peek, incr_cursor_unsafe} as "
        "list operations on a whole (unrestricted) buffer, with their asserts/slice panics kept as explicit panic outcomes "
        "(restricted views: C17); UInt8P/UInt16P are the C19 models",
        "the descriptor form of large datagrams (`<n>*<hex>` segments) is expanded by harness/src/bin/c20.rs::expand for the implementation and by "
        "Driver/C20.lean::bytesOfDesc for model and oracle (two implementations; `enc` cases in descriptor form check both against the spec encoding of the written-out packet)",
        "observation of the private fields of Packet through its derived Debug rendering, confirmed by rebuilding the value "
        "with the public constructors and comparing with the crate's own == (harness/src/bin/c20.rs)",
    ],
    "assumptions": [
        "the datagram is read from a fresh unrestricted ParseBuffer (cursor 0), as src/bin/rtps_parse.rs does; "
        "packetP_sound/_complete/_no_panic cover every start cursor inside the buffer",
        "the second half of the statement (decode (encode p) = p) is proved for well-formed packets (12-byte prefix, "
        "length field = payload size != 0, or length field 0 in last position); decode_wf shows every decoded packet is "
        "well-formed and a proved counter-example in Props/C20.lean shows the hypothesis cannot be dropped (a zero length "
        "field before another sub-message denotes a different packet by the format itself)",
    ],
}
LEVEL = {
    "design_ref": "DESIGN.md 3.C20",
    "technique": "Lean 4 theorems over an executable line-by-line model of rtps_prim.rs/rtps_packet.rs (parsers characterised "
                 "by the shape of the unread input, loop by induction on fuel) + differential correspondence with the real PacketP",
    "text": "Machine-checked proof, for all byte strings of any length and all packet values, that the model of PacketP::parse "
            "(a) returns only packets whose spec encoding is the datagram byte for byte, that are well-formed and span the whole "
            "datagram (decode_then_encode, decode_wf, decode_consumes_datagram), (b) returns p on encode p for every well-formed p "
            "(encode_then_decode; WF is exactly the image of the decoder), hence accepts exactly the encodings of well-formed "
            "packets (decode_ok_iff, decode_err_iff, encode_injective), and (c) never reaches any of the Rust asserts/slice panics "
            "or the loop's fuel bound (decode_total, decode_fuel_sufficient). The model mirrors every exit of HeaderP, "
            "SubMessageHeaderP, SubMessageP and the PacketP loop and is tied to the code on every check by running the real "
            "PacketP on spec-encoded packets, mutated datagrams and exhaustive small spaces (all flags bytes, ids, truncations), "
            "judged by an oracle built only from the spec (encoder, WF, a reference decoder proved inverse to the encoder). "
            "Datagrams with up to 131073 sub-messages / 1 MiB payloads are part of every run; on datagrams above 4 kB the driver evaluates the model "
            "with a single walk over the unread input (Model/RtpsFast.lean), which is proved to BE the model for every byte string (loopF_eq, packetFast_eq).",
}
