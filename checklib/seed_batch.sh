#!/bin/bash
# usage: seed_batch.sh TAG[:extra,checks] ...   compact evaluation of several seeds (snapshot mode)
cd /verif
for a in "$@"; do
  tag=${a%%:*}; extra=""; [[ "$a" == *:* ]] && extra=$(echo ${a#*:} | tr ',' ' ')
  base=${tag%%_*}
  [ -f /tmp/seed_$tag/SEED/patch.diff ] || { echo "$tag: no SEED/patch.diff"; continue; }
  feat=""; grep -q 'cfg(feature = "verif")' /tmp/seed_$tag/SEED/seeded_demo.rs 2>/dev/null && feat="--features verif"
  out=$(SEED_FEATURES="$feat" SEED_SNAPSHOT=1 checklib/seed_eval.sh $tag $base $extra 2>&1)
  conf=$(echo "$out" | grep -c "SEED NOT CONFIRMED")
  echo "$tag: notconfirmed=$conf $(echo "$out" | grep -E "^check C" | sed -e 's/replay=.*replays\// /' | tr '\n' ';')"
  rm -rf /tmp/seedsnap_$tag
done
