#!/bin/bash
# seed_eval.sh <tag> [check-ids...] : confirm a seeded change (compiles, 132 tests pass, demo fails with / passes without),
# store it under /verif/seeded/<tag>/, run the given checks (default: the property's own) against it on /repo, undo.
tag=$1; shift
pid=${tag%%_*}
wt=/tmp/seed_$tag
checks=${@:-$pid}
out=/verif/seeded/$tag
set -o pipefail
[ -f $wt/SEED/patch.diff ] || { echo "no patch in $wt/SEED"; exit 2; }
export CARGO_NET_OFFLINE=true CARGO_TARGET_DIR=$wt/target
cd $wt
# make sure the tree is exactly HEAD + patch + demo
git checkout -q -- src 2>/dev/null; git stash list | grep -q . && git stash drop -q
mkdir -p tests; cp SEED/seeded_demo.rs tests/seeded_demo.rs
echo "== without change: demo must pass"
cargo test --offline $SEED_FEATURES --test seeded_demo 2>&1 | grep -E "^test result|^error(\[|:)" | head -3 | tee /tmp/seed_$tag.without
git apply SEED/patch.diff || { echo "patch does not apply"; exit 2; }
echo "== with change: lib tests must pass, demo must fail"
cargo test --offline --lib 2>&1 | grep -E "^test result|error(\[|:)" | head -3 | tee /tmp/seed_$tag.lib
cargo test --offline $SEED_FEATURES --test seeded_demo 2>&1 | grep -E "^test result|^error(\[|:)" | head -3 | tee /tmp/seed_$tag.with
git checkout -q -- src
ok=1
grep -q "test result: ok" /tmp/seed_$tag.without || ok=0
grep -q "132 passed; 0 failed" /tmp/seed_$tag.lib || ok=0
grep -qE "FAILED|error: test failed" /tmp/seed_$tag.with || ok=0
if [ $ok = 0 ]; then echo "SEED NOT CONFIRMED"; exit 3; fi
mkdir -p $out; cp SEED/patch.diff SEED/seeded_demo.rs SEED/meta.json $out/
# run the checks against the seeded tree.  Default: through VERIF_REPO=<the seed worktree with the patch applied>, so that
# /repo itself is not disturbed while builder agents are working against it; SEED_ON_REPO=1 applies the patch to /repo
# itself (git -C /repo apply … ; checks ; git -C /repo checkout -- .) as the brief describes.
cd /verif
CHECK=./check
if [ -n "$SEED_SNAPSHOT" ]; then
  # run the checks from a snapshot of the COMMITTED /verif with a private copy of the Lean project, so that engineers
  # editing /verif at the same time cannot disturb the evaluation (and it cannot disturb them)
  snap=/tmp/seedsnap_$tag; rm -rf $snap; mkdir -p $snap
  git -C /verif archive HEAD | tar -x -C $snap
  cp -a /verif/lean/.lake $snap/lean/.lake
  export VERIF_LEAN=$snap/lean VERIF_WORK=$snap/work
  CHECK=$snap/check
  cd $snap
fi
if [ -n "$SEED_ON_REPO" ]; then
  git -C /repo apply $out/patch.diff || { echo "patch does not apply to /repo HEAD"; exit 4; }
else
  git -C $wt apply $out/patch.diff || { echo "patch does not apply in worktree"; exit 4; }
  export VERIF_REPO=$wt
fi
res=""
for c in $checks; do
  $CHECK $c > /tmp/seed_$tag.check_$c 2>&1; rc=$?
  v=$(grep -m1 "^VIOLATION" /tmp/seed_$tag.check_$c)
  echo "check $c rc=$rc ${v}"
  tail -1 /tmp/seed_$tag.check_$c
  res="$res $c:rc=$rc"
  if [ -n "$v" ]; then rp=$(echo "$v" | sed 's/.*replay=\([^ ]*\).*/\1/'); [ -f "$rp" ] && cp "$rp" $out/replay_$c.case; fi
done
[ -n "$SEED_SNAPSHOT" ] && { cd /verif; rm -rf $snap; unset VERIF_LEAN VERIF_WORK; }
if [ -n "$SEED_ON_REPO" ]; then git -C /repo checkout -- .; else git -C $wt checkout -q -- src; unset VERIF_REPO; fi
python3 - <<P
import json
m=json.load(open("$out/meta.json"))
m["confirmed_by_lead"]={"without_change_demo":open("/tmp/seed_$tag.without").read().strip(),"with_change_lib_tests":open("/tmp/seed_$tag.lib").read().strip(),"with_change_demo":open("/tmp/seed_$tag.with").read().strip()}
m["checks_run"]="$res".split()
json.dump(m,open("$out/meta.json","w"),indent=1)
P
echo "stored in $out"
