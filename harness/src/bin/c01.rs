// C01: run the REAL `pdf_printer` binary (built from /repo's working tree by ./check) on one
// file per case, in a subprocess with a time limit (10 s) and an address-space limit (4 GiB), and report how it
// ended.  Acceptable: exit status 0 (completed) or 1 (located rejection).  Everything else
// (panic exit code 101, abort, signal, timeout) is reported as `abnormal <kind>`.
// The first word (`completed` | `rejected` | `abnormal`) is compared with the end-to-end Lean model
// (Model/Pipeline.lean).
// `gen`: the cases the Lean generator cannot produce because it cannot read the repository: every
// prefix (quick: a stride) and random multi-edit mutations of the sample PDFs under tests/test_files,
// emitted as explicit `doc <hex>` lines so that the model sees the same bytes.
use std::io::Write;
use std::os::unix::process::ExitStatusExt;
use std::process::{Command, Stdio};
use std::time::{Duration, Instant};
use verif_harness::*;

fn repo_dir() -> String { std::env::var("VERIF_REPO").unwrap_or_else(|_| "/repo".to_string()) }

fn printer() -> String {
    // next to this executable (same cargo target dir)
    let me = std::env::current_exe().unwrap();
    me.parent().unwrap().join("pdf_printer").to_string_lossy().to_string()
}

const SAMPLES: &[&str] = &["minimal.pdf", "minimal_leading_garbage.pdf", "Rosenthol_example.pdf", "Rosenthol_example_2pages.pdf"];

fn sample(name: &str) -> Option<Vec<u8>> { std::fs::read(format!("{}/tests/test_files/{}", repo_dir(), name)).ok() }

fn mutate(mut data: Vec<u8>, seed: u64, k: usize) -> Vec<u8> {
    let mut r = Rng::new(seed);
    let interesting: &[&[u8]] = &[b"-1", b"0", b"9223372036854775807", b"[", b"]", b"<<", b">>", b"R", b"/", b"(", b")"];
    for _ in 0 .. k {
        if data.is_empty() {
            break
        }
        let pos = r.below(data.len());
        match r.below(4) {
            0 => data[pos] = r.below(256) as u8,
            1 => {
                data.remove(pos);
            },
            2 => {
                let ins = interesting[r.below(interesting.len())];
                for (j, b) in ins.iter().enumerate() {
                    data.insert(pos + j, *b);
                }
            },
            _ => {
                // digit tweak: find next digit and change it
                if let Some(off) = data[pos ..].iter().position(|b| b.is_ascii_digit()) {
                    data[pos + off] = b'0' + (r.below(10) as u8);
                }
            },
        }
    }
    data
}

/// a two-page document around one of the large image objects of tests/test_files/filter_tests (object 15 0:
/// 286 200 bytes raw, or the same behind ASCII85Decode): page 1 draws it as an XObject (dump_root decodes it),
/// page 2 optionally uses it as its /Contents (the decoded pixels go through the text extractor)
fn image_doc(obj15: &[u8], as_contents: bool) -> Vec<u8> {
    let mut body: Vec<u8> = b"%PDF-1.4\n".to_vec();
    let mut offs: Vec<usize> = Vec::new();
    let c2 = if as_contents { "15 0 R" } else { "4 0 R" };
    let texts: Vec<Vec<u8>> = vec![
        b"<< /Type /Catalog /Pages 2 0 R >>".to_vec(),
        b"<< /Type /Pages /Kids [3 0 R 5 0 R] /Count 2 >>".to_vec(),
        b"<< /Type /Page /Parent 2 0 R /MediaBox [0 0 9 9] /Contents 4 0 R /Resources << /XObject << /Im1 15 0 R >> >> >>".to_vec(),
        b"<< /Length 11 >>\nstream\nq /Im1 Do Q\nendstream".to_vec(),
        format!("<< /Type /Page /Parent 2 0 R /MediaBox [0 0 9 9] /Contents {} >>", c2).into_bytes(),
    ];
    for (i, t) in texts.iter().enumerate() {
        offs.push(body.len());
        body.extend_from_slice(format!("{} 0 obj\n", i + 1).as_bytes());
        body.extend_from_slice(t);
        body.extend_from_slice(b"\nendobj\n");
    }
    for i in 6 .. 15 {
        offs.push(body.len());
        body.extend_from_slice(format!("{} 0 obj\nnull\nendobj\n", i).as_bytes());
    }
    offs.push(body.len());
    body.extend_from_slice(obj15);
    let x = body.len();
    body.extend_from_slice(b"xref\n0 16\n0000000000 65535 f \n");
    for o in &offs {
        body.extend_from_slice(format!("{:010} 00000 n \n", o).as_bytes());
    }
    body.extend_from_slice(format!("trailer\n<< /Size 16 /Root 1 0 R >>\nstartxref\n{}\n%%EOF\n", x).as_bytes());
    body
}

fn gen(seed: u64, n: usize, tier: &str, emit: &mut dyn FnMut(String)) {
    for (f, c) in [("xobject_stm.obj", false), ("xobject_stm_ascii85.obj", false), ("xobject_stm_ascii85.obj", true), ("xobject_stm.obj", true)] {
        if let Some(o) = sample(&format!("filter_tests/{}", f)) {
            emit(format!("doc {}", hex(&image_doc(&o, c))));
        }
    }
    let stride = if tier == "thorough" { 1 } else { 23 };
    for f in SAMPLES {
        let data = match sample(f) {
            Some(d) => d,
            None => continue,
        };
        let mut k = 0;
        while k <= data.len() {
            emit(format!("doc {}", hex(&data[.. k])));
            k += stride;
        }
        emit(format!("doc {}", hex(&data)));
    }
    let mut r = Rng::new(seed.wrapping_mul(7919).wrapping_add(17));
    for _ in 0 .. n / 4 {
        let f = SAMPLES[r.below(SAMPLES.len())];
        let sd = r.below(1_000_000) as u64;
        let k = r.below(4) + 1;
        if let Some(d) = sample(f) {
            emit(format!("doc {}", hex(&mutate(d, sd, k))));
        }
    }
}

fn bytes_of_case(w: &[&str]) -> Option<Vec<u8>> {
    match w[0] {
        "doc" if w.len() == 2 => Some(unhex(w[1])),
        "prefix" if w.len() == 3 => {
            let data = sample(w[1])?;
            let n: usize = w[2].parse().ok()?;
            Some(data[.. n.min(data.len())].to_vec())
        },
        "mut" if w.len() == 4 => Some(mutate(sample(w[1])?, w[2].parse().ok()?, w[3].parse().ok()?)),
        _ => None,
    }
}

static TIMEOUTS: std::sync::atomic::AtomicUsize = std::sync::atomic::AtomicUsize::new(0);

fn run(line: &str) -> String {
    let w: Vec<&str> = line.split_whitespace().collect();
    if w.is_empty() {
        return "bad-case".to_string()
    }
    let data = match bytes_of_case(&w) {
        Some(d) => d,
        None => return "bad-case".to_string(),
    };
    let dir = std::env::temp_dir().join(format!("verif_c01_{}", std::process::id()));
    let _ = std::fs::create_dir_all(&dir);
    let path = dir.join("case.pdf");
    {
        let mut f = std::fs::File::create(&path).unwrap();
        f.write_all(&data).unwrap();
    }
    // `prlimit`-style limits through the shell's ulimit: 4 GiB address space, 64 MiB stack stays default
    let mut child = match Command::new("/bin/sh")
        .arg("-c")
        .arg(format!("ulimit -v 4194304; exec {} {}", printer(), path.to_string_lossy()))
        .stdin(Stdio::null())
        .stdout(Stdio::null())
        .stderr(Stdio::null())
        .spawn()
    {
        Ok(c) => c,
        Err(e) => return format!("bad-case cannot-spawn {}", e),
    };
    let start = Instant::now();
    // 10 s per case; once five cases of this run have timed out (a mutant that hangs on a whole family of
    // documents) the remaining ones get 1 s, so that the check still ends in reasonable time
    let limit = Duration::from_secs(if TIMEOUTS.load(std::sync::atomic::Ordering::Relaxed) >= 5 { 1 } else { 10 });
    let status = loop {
        match child.try_wait() {
            Ok(Some(st)) => break Some(st),
            Ok(None) => {
                if start.elapsed() > limit {
                    let _ = child.kill();
                    let _ = child.wait();
                    break None
                }
                std::thread::sleep(Duration::from_millis(2));
            },
            Err(_) => break None,
        }
    };
    let _ = std::fs::remove_file(&path);
    let _ = std::fs::remove_dir(&dir); // leave nothing behind under /tmp
    match status {
        None => {
            TIMEOUTS.fetch_add(1, std::sync::atomic::Ordering::Relaxed);
            "abnormal timeout".to_string()
        },
        Some(st) => match (st.code(), st.signal()) {
            (Some(0), _) => "completed".to_string(),
            (Some(1), _) => "rejected".to_string(),
            (Some(101), _) => "abnormal panic exit=101".to_string(),
            (Some(c), _) => format!("abnormal exit exit={}", c),
            (None, Some(s)) => format!("abnormal signal sig={}", s),
            _ => "abnormal unknown".to_string(),
        },
    }
}

fn main() {
    main_loop(Harness {
        run,
        gen: Some(gen),
        extract: None,
    })
}
