// C01: run the REAL `pdf_printer` binary (built from /repo's working tree by ./check) on one
// file per case, in a subprocess with a time limit and an address-space limit, and report how it
// ended.  Acceptable: exit status 0 (completed) or 1 (located rejection).  Everything else
// (panic exit code 101, abort, signal, timeout) is reported as `abnormal <kind>`.
use std::io::Write;
use std::os::unix::process::ExitStatusExt;
use std::process::{Command, Stdio};
use std::time::{Duration, Instant};
use verif_harness::*;

fn repo_dir() -> String { std::env::var("VERIF_REPO").unwrap_or_else(|_| "/repo".to_string()) }

fn printer() -> String {
    // next to this executable (same cargo target dir)
    let me = std::env::current_exe().unwrap();
    me.parent().unwrap().join("pdf_printer").to_string_lossy().to_string()
}

fn bytes_of_case(w: &[&str]) -> Option<Vec<u8>> {
    match w[0] {
        "doc" if w.len() == 2 => Some(unhex(w[1])),
        "prefix" if w.len() == 3 => {
            let data = std::fs::read(format!("{}/tests/test_files/{}", repo_dir(), w[1])).ok()?;
            let n: usize = w[2].parse().ok()?;
            Some(data[.. n.min(data.len())].to_vec())
        },
        "mut" if w.len() == 4 => {
            let mut data = std::fs::read(format!("{}/tests/test_files/{}", repo_dir(), w[1])).ok()?;
            let mut r = Rng::new(w[2].parse().ok()?);
            let k: usize = w[3].parse().ok()?;
            let interesting: &[&[u8]] = &[b"-1", b"0", b"9223372036854775807", b"[", b"]", b"<<", b">>", b"R", b"/", b"(", b")"];
            for _ in 0 .. k {
                if data.is_empty() {
                    break
                }
                let pos = r.below(data.len());
                match r.below(4) {
                    0 => data[pos] = r.below(256) as u8,
                    1 => {
                        data.remove(pos);
                    },
                    2 => {
                        let ins = interesting[r.below(interesting.len())];
                        for (j, b) in ins.iter().enumerate() {
                            data.insert(pos + j, *b);
                        }
                    },
                    _ => {
                        // digit tweak: find next digit and change it
                        if let Some(off) = data[pos ..].iter().position(|b| b.is_ascii_digit()) {
                            data[pos + off] = b'0' + (r.below(10) as u8);
                        }
                    },
                }
            }
            Some(data)
        },
        _ => None,
    }
}

fn run(line: &str) -> String {
    let w: Vec<&str> = line.split_whitespace().collect();
    if w.is_empty() {
        return "bad-case".to_string()
    }
    let data = match bytes_of_case(&w) {
        Some(d) => d,
        None => return "bad-case".to_string(),
    };
    let dir = std::env::temp_dir().join(format!("verif_c01_{}", std::process::id()));
    let _ = std::fs::create_dir_all(&dir);
    let path = dir.join("case.pdf");
    {
        let mut f = std::fs::File::create(&path).unwrap();
        f.write_all(&data).unwrap();
    }
    // `prlimit`-style limits through the shell's ulimit: 4 GiB address space, 64 MiB stack stays default
    let mut child = match Command::new("/bin/sh")
        .arg("-c")
        .arg(format!("ulimit -v 4194304; exec {} {}", printer(), path.to_string_lossy()))
        .stdin(Stdio::null())
        .stdout(Stdio::null())
        .stderr(Stdio::null())
        .spawn()
    {
        Ok(c) => c,
        Err(e) => return format!("bad-case cannot-spawn {}", e),
    };
    let start = Instant::now();
    let limit = Duration::from_secs(20);
    let status = loop {
        match child.try_wait() {
            Ok(Some(st)) => break Some(st),
            Ok(None) => {
                if start.elapsed() > limit {
                    let _ = child.kill();
                    let _ = child.wait();
                    break None
                }
                std::thread::sleep(Duration::from_millis(2));
            },
            Err(_) => break None,
        }
    };
    let _ = std::fs::remove_file(&path);
    match status {
        None => "abnormal timeout".to_string(),
        Some(st) => match (st.code(), st.signal()) {
            (Some(0), _) => "terminates-normally completed".to_string(),
            (Some(1), _) => "terminates-normally rejected".to_string(),
            (Some(101), _) => "abnormal panic exit=101".to_string(),
            (Some(c), _) => format!("abnormal exit exit={}", c),
            (None, Some(s)) => format!("abnormal signal sig={}", s),
            _ => "abnormal unknown".to_string(),
        },
    }
}

fn main() {
    main_loop(Harness {
        run,
        gen: None,
        extract: None,
    })
}
