// C02: parse_pdf_obj on a spelling (+context) with a fresh context of the given depth bound.
//
// case:  <tag> <maxdepth> <bufhex> [<expectation, ignored here>]
// output: ok <start> <end> <cursor> <S-expression>   |   err <kind>
//
// view variant:  vw <steps> <prehex> <sufhex> <case as above>
//   the bytes <prehex> ++ <bufhex> ++ <sufhex> are ONE allocation; <steps> (comma-separated, applied in
//   order, each to the result of the previous one) restrict it to a view:
//     R<start>:<size>  RestrictView::new(start, size)      F<start>  RestrictViewFrom::new(start)
//   the case then runs on the resulting view exactly as on a plain buffer: start, end and cursor are
//   cursors of the view.  The steps are meant to select the window <bufhex>; the harness checks that
//   the view it obtained shows exactly those bytes (`view-mismatch` otherwise; `view-error` if a step
//   is refused).
use parsley_rust::pcore::parsebuffer::{ParseBuffer, ParseBufferT};
use parsley_rust::pcore::transforms::{BufferTransformT, RestrictView, RestrictViewFrom};
use parsley_rust::pdf_lib::pdf_obj::{parse_pdf_obj, PDFObjContext};
use verif_harness::objfmt::obj_sexp;
use verif_harness::*;

// the view selected by <steps> in pre ++ window ++ suf
fn view_of(steps: &str, pre: &[u8], window: &[u8], suf: &[u8]) -> Result<ParseBuffer, &'static str> {
    let mut all = pre.to_vec();
    all.extend_from_slice(window);
    all.extend_from_slice(suf);
    let mut pb = ParseBuffer::new(all);
    for st in steps.split(',') {
        let r = if let Some(t) = st.strip_prefix('R') {
            let p: Vec<&str> = t.split(':').collect();
            if p.len() != 2 {
                return Err("bad-case")
            }
            match (p[0].parse::<usize>(), p[1].parse::<usize>()) {
                (Ok(a), Ok(b)) => RestrictView::new(a, b).transform(&pb),
                _ => return Err("bad-case"),
            }
        } else if let Some(t) = st.strip_prefix('F') {
            match t.parse::<usize>() {
                Ok(a) => RestrictViewFrom::new(a).transform(&pb),
                _ => return Err("bad-case"),
            }
        } else {
            return Err("bad-case")
        };
        pb = match r {
            Ok(v) => v,
            Err(_) => return Err("view-error"),
        };
    }
    if pb.get_cursor() != 0 || pb.size() != window.len() || pb.remaining() != window.len() || pb.buf() != window {
        return Err("view-mismatch")
    }
    Ok(pb)
}

fn run(line: &str) -> String {
    let w: Vec<&str> = line.split_whitespace().collect();
    if !w.is_empty() && w[0] == "vw" {
        if w.len() < 7 {
            return "bad-case".to_string()
        }
        return match view_of(w[1], &unhex(w[2]), &unhex(w[6]), &unhex(w[3])) {
            Ok(pb) => run_on(&w[4 ..], pb),
            Err(e) => e.to_string(),
        }
    }
    if w.len() < 3 {
        return "bad-case".to_string()
    }
    let pb = ParseBuffer::new(unhex(w[2]));
    run_on(&w, pb)
}

fn run_on(w: &[&str], mut pb: ParseBuffer) -> String {
    let d: usize = match w[1].parse() {
        Ok(d) => d,
        Err(_) => return "bad-case".to_string(),
    };
    let mut ctxt = PDFObjContext::new(d);
    match parse_pdf_obj(&mut ctxt, &mut pb) {
        Ok(v) => format!("ok {} {} {} {}", v.start(), v.end(), pb.get_cursor(), obj_sexp(v.val())),
        Err(e) => format!("err {}", errk(e.val())),
    }
}

fn main() {
    main_loop(Harness {
        run,
        gen: None,
        extract: None,
    })
}
