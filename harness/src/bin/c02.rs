// C02: parse_pdf_obj on a spelling (+context) with a fresh context of the given depth bound.
use parsley_rust::pcore::parsebuffer::{ParseBuffer, ParseBufferT};
use parsley_rust::pdf_lib::pdf_obj::{parse_pdf_obj, PDFObjContext};
use verif_harness::objfmt::obj_sexp;
use verif_harness::*;

fn run(line: &str) -> String {
    let w: Vec<&str> = line.split_whitespace().collect();
    if w.len() < 3 {
        return "bad-case".to_string()
    }
    let d: usize = match w[1].parse() {
        Ok(d) => d,
        Err(_) => return "bad-case".to_string(),
    };
    let mut pb = ParseBuffer::new(unhex(w[2]));
    let mut ctxt = PDFObjContext::new(d);
    match parse_pdf_obj(&mut ctxt, &mut pb) {
        Ok(v) => format!("ok {} {} {} {}", v.start(), v.end(), pb.get_cursor(), obj_sexp(v.val())),
        Err(e) => format!("err {}", errk(e.val())),
    }
}

fn main() {
    main_loop(Harness {
        run,
        gen: None,
        extract: None,
    })
}
