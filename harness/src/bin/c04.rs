// C04: the real document loader (pdf_traverse_xref::parse_data) on generated files.
#[path = "../loader_common.rs"]
mod loader_common;

fn run(line: &str) -> String { loader_common::load_line(line) }

fn main() {
    verif_harness::main_loop(verif_harness::Harness {
        run,
        gen: None,
        extract: None,
    })
}
