// C05: parse_pdf_indirect_obj on one buffer with one shared PDFObjContext.
//
// case:  <tag> <maxdepth> <bufhex> <offsets> <ids> [<description, ignored here>]
//   offsets  comma-separated cursor positions; one call of parse_pdf_indirect_obj per offset
//            (the cursor is set to the offset before each call, the context is shared)
//   ids      comma-separated `num:gen` looked up in the context after the last call
// output: one segment per call, then one per looked-up id, joined by " | "
//   ok <num> <gen> <start> <end> <cursor> <objstart> <objend> <depth delta> <S-expression>
//   err <kind> <cursor> <depth delta>
//   L <num>:<gen> <objstart> <objend> <S-expression>   |   L <num>:<gen> none
use parsley_rust::pcore::parsebuffer::{ParseBuffer, ParseBufferT};
use parsley_rust::pdf_lib::pdf_obj::{parse_pdf_indirect_obj, PDFObjContext};
use verif_harness::objfmt::obj_sexp;
use verif_harness::*;

fn run(line: &str) -> String {
    let w: Vec<&str> = line.split_whitespace().collect();
    if w.len() < 5 {
        return "bad-case".to_string()
    }
    let d: usize = match w[1].parse() {
        Ok(d) => d,
        Err(_) => return "bad-case".to_string(),
    };
    let bytes = unhex(w[2]);
    let len = bytes.len();
    let mut pb = ParseBuffer::new(bytes);
    let mut ctxt = PDFObjContext::new(d);
    let mut segs: Vec<String> = Vec::new();
    if w[3] != "-" {
        for o in w[3].split(',') {
            let off: usize = match o.parse() {
                Ok(x) => x,
                Err(_) => return "bad-case".to_string(),
            };
            if off > len {
                return "bad-case".to_string()
            }
            pb.set_cursor_unsafe(off);
            let before = ctxt.depth();
            let r = parse_pdf_indirect_obj(&mut ctxt, &mut pb);
            let delta = ctxt.depth() as isize - before as isize;
            segs.push(match r {
                Ok(v) => format!(
                    "ok {} {} {} {} {} {} {} {} {}",
                    v.val().num(),
                    v.val().gen(),
                    v.start(),
                    v.end(),
                    pb.get_cursor(),
                    v.val().obj().start(),
                    v.val().obj().end(),
                    delta,
                    obj_sexp(v.val().obj().val())
                ),
                Err(e) => format!("err {} {} {}", errk(e.val()), pb.get_cursor(), delta),
            });
        }
    }
    if w[4] != "-" {
        for id in w[4].split(',') {
            let p: Vec<&str> = id.split(':').collect();
            if p.len() != 2 {
                return "bad-case".to_string()
            }
            let a: usize = p[0].parse().unwrap_or(0);
            let g: usize = p[1].parse().unwrap_or(0);
            segs.push(match ctxt.lookup_obj((a, g)) {
                Some(o) => format!("L {}:{} {} {} {}", a, g, o.start(), o.end(), obj_sexp(o.val())),
                None => format!("L {}:{} none", a, g),
            });
        }
    }
    segs.join(" | ")
}

fn main() {
    main_loop(Harness {
        run,
        gen: None,
        extract: None,
    })
}
