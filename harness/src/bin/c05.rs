// C05: parse_pdf_indirect_obj on one buffer with one shared PDFObjContext.
//
// case:  <tag> <maxdepth> <bufhex> <offsets> <ids> [<description, ignored here>]
//   offsets  comma-separated cursor positions; one call of parse_pdf_indirect_obj per offset
//            (the cursor is set to the offset before each call, the context is shared)
//   ids      comma-separated `num:gen` looked up in the context after the last call
// output: one segment per call, then one per looked-up id, joined by " | "
//   ok <num> <gen> <start> <end> <cursor> <objstart> <objend> <depth delta> <S-expression>
//   err <kind> <cursor> <depth delta>
//   L <num>:<gen> <objstart> <objend> <S-expression>   |   L <num>:<gen> none
//
// view variant:  vw <steps> <prehex> <sufhex> <case as above>
//   the bytes <prehex> ++ <bufhex> ++ <sufhex> are ONE allocation; <steps> (comma-separated, applied in
//   order, each to the result of the previous one) restrict it to a view:
//     R<start>:<size>  RestrictView::new(start, size)      F<start>  RestrictViewFrom::new(start)
//   the case then runs on the resulting view exactly as on a plain buffer (offsets = cursors of the
//   view).  The steps are meant to select the window <bufhex>; the harness checks that the view it
//   obtained shows exactly those bytes (`view-mismatch` otherwise; `view-error` if a step is refused).
use parsley_rust::pcore::parsebuffer::{ParseBuffer, ParseBufferT};
use parsley_rust::pcore::transforms::{BufferTransformT, RestrictView, RestrictViewFrom};
use parsley_rust::pdf_lib::pdf_obj::{parse_pdf_indirect_obj, PDFObjContext};
use verif_harness::objfmt::obj_sexp;
use verif_harness::*;

fn run(line: &str) -> String {
    let w: Vec<&str> = line.split_whitespace().collect();
    if !w.is_empty() && w[0] == "vw" {
        if w.len() < 9 {
            return "bad-case".to_string()
        }
        let inner = unhex(w[6]);
        let mut all = unhex(w[2]);
        all.extend_from_slice(&inner);
        all.extend_from_slice(&unhex(w[3]));
        let mut pb = ParseBuffer::new(all);
        for st in w[1].split(',') {
            let r = if let Some(t) = st.strip_prefix('R') {
                let p: Vec<&str> = t.split(':').collect();
                if p.len() != 2 {
                    return "bad-case".to_string()
                }
                match (p[0].parse::<usize>(), p[1].parse::<usize>()) {
                    (Ok(a), Ok(b)) => RestrictView::new(a, b).transform(&pb),
                    _ => return "bad-case".to_string(),
                }
            } else if let Some(t) = st.strip_prefix('F') {
                match t.parse::<usize>() {
                    Ok(a) => RestrictViewFrom::new(a).transform(&pb),
                    _ => return "bad-case".to_string(),
                }
            } else {
                return "bad-case".to_string()
            };
            pb = match r {
                Ok(v) => v,
                Err(_) => return "view-error".to_string(),
            };
        }
        if pb.get_cursor() != 0 || pb.size() != inner.len() || pb.buf() != &inner[..] {
            return "view-mismatch".to_string()
        }
        return run_on(&w[4 ..], pb, inner.len())
    }
    if w.len() < 5 {
        return "bad-case".to_string()
    }
    let bytes = unhex(w[2]);
    let len = bytes.len();
    run_on(&w, ParseBuffer::new(bytes), len)
}

fn run_on(w: &[&str], mut pb: ParseBuffer, len: usize) -> String {
    if w.len() < 5 {
        return "bad-case".to_string()
    }
    let d: usize = match w[1].parse() {
        Ok(d) => d,
        Err(_) => return "bad-case".to_string(),
    };
    let mut ctxt = PDFObjContext::new(d);
    let mut segs: Vec<String> = Vec::new();
    if w[3] != "-" {
        for o in w[3].split(',') {
            let off: usize = match o.parse() {
                Ok(x) => x,
                Err(_) => return "bad-case".to_string(),
            };
            if off > len {
                return "bad-case".to_string()
            }
            pb.set_cursor_unsafe(off);
            let before = ctxt.depth();
            let r = parse_pdf_indirect_obj(&mut ctxt, &mut pb);
            let delta = ctxt.depth() as isize - before as isize;
            segs.push(match r {
                Ok(v) => format!(
                    "ok {} {} {} {} {} {} {} {} {}",
                    v.val().num(),
                    v.val().gen(),
                    v.start(),
                    v.end(),
                    pb.get_cursor(),
                    v.val().obj().start(),
                    v.val().obj().end(),
                    delta,
                    obj_sexp(v.val().obj().val())
                ),
                Err(e) => format!("err {} {} {}", errk(e.val()), pb.get_cursor(), delta),
            });
        }
    }
    if w[4] != "-" {
        for id in w[4].split(',') {
            let p: Vec<&str> = id.split(':').collect();
            if p.len() != 2 {
                return "bad-case".to_string()
            }
            let a: usize = p[0].parse().unwrap_or(0);
            let g: usize = p[1].parse().unwrap_or(0);
            segs.push(match ctxt.lookup_obj((a, g)) {
                Some(o) => format!("L {}:{} {} {} {}", a, g, o.start(), o.end(), obj_sexp(o.val())),
                None => format!("L {}:{} none", a, g),
            });
        }
    }
    segs.join(" | ")
}

fn main() {
    main_loop(Harness {
        run,
        gen: None,
        extract: None,
    })
}
