// C06 — runs the REAL decode_stream (StreamT::filters, the filter chain, dictionary pruning)
// on the stream described by a case line and prints the canonical outcome.
//
// case line :  <kind> <meta> <dictser> <contenthex>        (only words 2 and 3 are used here)
// dictser   :  comma separated prefix tokens
//                N | B0 | B1 | I<int> | /<hex> | S<hex> | R<num>.<gen> | A<n> obj*n | D<n> (<hexkey> obj)*n
//                | X (an object the filter code never inspects: built as the real number 3.0)
// output    :  ok <contenthex> <dictser, keys sorted> | err <kind> | panic <msg>
//
// view variant:  vw <steps> <prehex> <sufhex> <headhex> <tailhex> <case as above>
//   The stream OBJECT is written as text - <headhex> (`n g obj <<dictionary>> stream EOL`) ++ <contenthex> ++
//   <tailhex> (`EOL endstream endobj`) - and that text is a WINDOW of the one allocation
//   <prehex> ++ window ++ <sufhex>, selected by <steps> (comma-separated, applied in order, each to the result
//   of the previous one:  R<start>:<size> RestrictView::new(start, size),  F<start> RestrictViewFrom::new(start)).
//   The harness checks that the view it obtained shows exactly the window (`view-mismatch` otherwise;
//   `view-error` if a step is refused), runs parse_pdf_indirect_obj on the view (as the crate does on a file), and
//   hands the StreamT it returns - dictionary and content now come from the view - to decode_stream.
//   output :  <output as above> @ <content start> <content size> <cursor>     (cursors of the view)
//             perr <kind> <cursor>      the object was not accepted   |   notstream <cursor>
//   (<dictser> is not used here: the dictionary is the one parsed from the text; the oracle checks that the text
//   is the rendering of <dictser>.)
//
// `gen` (native generator): payloads compressed by the real zlib (flate2::Compression levels 0-9),
// optionally wrapped in ASCIIHex / ASCII85 layers written by small btoa/xxd-style encoders below.
use parsley_rust::pcore::parsebuffer::{LocatedVal, ParseBuffer, ParseBufferT};
use parsley_rust::pcore::transforms::{BufferTransformT, RestrictView, RestrictViewFrom};
use parsley_rust::pdf_lib::pdf_obj::{
    parse_pdf_indirect_obj, ArrayT, DictKey, DictT, PDFObjContext, PDFObjT, ReferenceT, StreamT,
};
use parsley_rust::pdf_lib::pdf_prim::{IntegerT, NameT, RealT, StreamContentT};
use parsley_rust::pdf_lib::pdf_streams::decode_stream;
use std::collections::BTreeMap;
use std::io::Write;
use std::rc::Rc;
use verif_harness::*;

fn parse_obj(t: &[&str], i: &mut usize) -> Option<PDFObjT> {
    let w = *t.get(*i)?;
    *i += 1;
    let (h, r) = w.split_at(1);
    Some(match h {
        "N" => PDFObjT::Null(()),
        "B" => PDFObjT::Boolean(r == "1"),
        "I" => PDFObjT::Integer(IntegerT::new(r.parse().ok()?)),
        "/" => PDFObjT::Name(NameT::new(unhex(r))),
        "S" => PDFObjT::String(unhex(r)),
        "X" => PDFObjT::Real(RealT::new(30, 10)),
        "R" => {
            let mut p = r.split('.');
            PDFObjT::Reference(ReferenceT::new(p.next()?.parse().ok()?, p.next()?.parse().ok()?))
        },
        "A" => {
            let n: usize = r.parse().ok()?;
            let mut v = Vec::new();
            for _ in 0 .. n {
                v.push(Rc::new(LocatedVal::new(parse_obj(t, i)?, 0, 0)));
            }
            PDFObjT::Array(ArrayT::new(v))
        },
        "D" => {
            let n: usize = r.parse().ok()?;
            let mut m = BTreeMap::new();
            for _ in 0 .. n {
                let k = unhex(t.get(*i)?);
                *i += 1;
                let o = parse_obj(t, i)?;
                m.insert(DictKey::new(k), Rc::new(LocatedVal::new(o, 0, 0)));
            }
            PDFObjT::Dict(DictT::new(m))
        },
        _ => return None,
    })
}

fn show_obj(o: &PDFObjT, out: &mut Vec<String>) {
    match o {
        PDFObjT::Null(_) => out.push("N".into()),
        PDFObjT::Boolean(b) => out.push(if *b { "B1".into() } else { "B0".into() }),
        PDFObjT::Integer(i) => out.push(format!("I{}", i.int_val())),
        PDFObjT::Name(n) => out.push(format!("/{}", hex(n.val()))),
        PDFObjT::String(s) => out.push(format!("S{}", hex(s))),
        PDFObjT::Reference(r) => out.push(format!("R{}.{}", r.num(), r.gen())),
        PDFObjT::Array(a) => {
            out.push(format!("A{}", a.objs().len()));
            for x in a.objs() {
                show_obj(x.val(), out)
            }
        },
        PDFObjT::Dict(d) => show_dict(d, out),
        _ => out.push("X".into()),
    }
}
fn show_dict(d: &DictT, out: &mut Vec<String>) {
    out.push(format!("D{}", d.map().len()));
    for (k, v) in d.map() {
        out.push(hex(k.as_slice()));
        show_obj(v.val(), out)
    }
}

// the view selected by <steps> in pre ++ window ++ suf
fn view_of(steps: &str, pre: &[u8], window: &[u8], suf: &[u8]) -> Result<ParseBuffer, &'static str> {
    let mut all = pre.to_vec();
    all.extend_from_slice(window);
    all.extend_from_slice(suf);
    let mut pb = ParseBuffer::new(all);
    for st in steps.split(',') {
        let r = if let Some(t) = st.strip_prefix('R') {
            let p: Vec<&str> = t.split(':').collect();
            if p.len() != 2 {
                return Err("bad-case")
            }
            match (p[0].parse::<usize>(), p[1].parse::<usize>()) {
                (Ok(a), Ok(b)) => RestrictView::new(a, b).transform(&pb),
                _ => return Err("bad-case"),
            }
        } else if let Some(t) = st.strip_prefix('F') {
            match t.parse::<usize>() {
                Ok(a) => RestrictViewFrom::new(a).transform(&pb),
                _ => return Err("bad-case"),
            }
        } else {
            return Err("bad-case")
        };
        pb = match r {
            Ok(v) => v,
            Err(_) => return Err("view-error"),
        };
    }
    if pb.get_cursor() != 0 || pb.size() != window.len() || pb.remaining() != window.len() || pb.buf() != window {
        return Err("view-mismatch")
    }
    Ok(pb)
}

fn show_decoded(strm: &StreamT) -> String {
    match decode_stream(strm) {
        Ok(s) => {
            let mut out = Vec::new();
            show_dict(s.dict().val(), &mut out);
            format!("ok {} {}", hex(s.content()), out.join(","))
        },
        Err(e) => format!("err {}", errk(e.val())),
    }
}

// vw <steps> <pre> <suf> <head> <tail> <kind> <meta> <dictser> <content>
fn run_view(w: &[&str]) -> String {
    if w.len() != 10 {
        return "bad-case".to_string()
    }
    let mut window = unhex(w[4]);
    window.extend_from_slice(&unhex(w[9]));
    window.extend_from_slice(&unhex(w[5]));
    let mut pb = match view_of(w[1], &unhex(w[2]), &window, &unhex(w[3])) {
        Ok(pb) => pb,
        Err(e) => return e.to_string(),
    };
    let mut ctxt = PDFObjContext::new(50);
    match parse_pdf_indirect_obj(&mut ctxt, &mut pb) {
        Err(e) => format!("perr {} {}", errk(e.val()), pb.get_cursor()),
        Ok(io) => match io.val().obj().val() {
            PDFObjT::Stream(s) => format!(
                "{} @ {} {} {}",
                show_decoded(s),
                s.stream().val().start(),
                s.stream().val().size(),
                pb.get_cursor()
            ),
            _ => format!("notstream {}", pb.get_cursor()),
        },
    }
}

pub fn run(line: &str) -> String {
    let w: Vec<&str> = line.split_whitespace().collect();
    if !w.is_empty() && w[0] == "vw" {
        return run_view(&w)
    }
    if w.len() != 4 {
        return "bad-case".to_string()
    }
    let toks: Vec<&str> = w[2].split(',').collect();
    let mut i = 0;
    let dict = match parse_obj(&toks, &mut i) {
        Some(PDFObjT::Dict(d)) if i == toks.len() => d,
        _ => return "bad-case".to_string(),
    };
    let content = unhex(w[3]);
    let len = content.len();
    let strm = StreamT::new(
        Rc::new(LocatedVal::new(dict, 0, 0)),
        LocatedVal::new(StreamContentT::new(0, len, content), 0, len),
    );
    show_decoded(&strm)
}

// ---------------------------------------------------------------- native generator (real zlib)

fn zlib(data: &[u8], level: u32) -> Vec<u8> {
    let mut e = flate2::write::ZlibEncoder::new(Vec::new(), flate2::Compression::new(level));
    e.write_all(data).unwrap();
    e.finish().unwrap()
}

// the real zlib told to use a window of 2^wbits bytes (deflateInit2, wbits 9..15): it then writes the header
// CINFO = wbits - 8 (first byte 18, 28, ... 78) and keeps its distances inside that window
fn zlib_wb(data: &[u8], level: u32, wbits: u8) -> Vec<u8> {
    let c = flate2::Compress::new_with_window_bits(flate2::Compression::new(level), true, wbits);
    let mut e = flate2::write::ZlibEncoder::new_with_compress(Vec::new(), c);
    e.write_all(data).unwrap();
    e.finish().unwrap()
}

fn payload(r: &mut Rng, n: usize, kind: usize) -> Vec<u8> {
    match kind {
        0 => r.bytes(n),                                         // incompressible
        1 => (0 .. n).map(|i| (i % 7) as u8 * 31).collect(),      // periodic
        2 => vec![0u8; n],                                       // zeros (long matches, `z` groups)
        3 => {
            // text-like: words from a small dictionary
            let ws: [&[u8]; 8] = [b"stream ", b"endobj\n", b"/Type ", b"0 0 1 rg ", b"BT ", b"ET\n", b"(hello) Tj ", b"q Q "];
            let mut v = Vec::new();
            while v.len() < n {
                v.extend_from_slice(ws[r.below(8)]);
            }
            v.truncate(n);
            v
        },
        _ => {
            // runs of random length: mixes literals, short and long matches
            let mut v = Vec::new();
            while v.len() < n {
                let b = r.below(256) as u8;
                let m = if r.below(4) == 0 { 600 } else { 12 };
                let k = 1 + r.below(m);
                for _ in 0 .. k {
                    v.push(b)
                }
            }
            v.truncate(n);
            v
        },
    }
}

const NAMES: [&str; 3] = ["FlateDecode", "ASCIIHexDecode", "ASCII85Decode"];

// ---- the stream object as text, for the view twins of the `rz` cases.  Same spelling as `renderObj` /
// ---- `renderHead` / `renderTail` of lean/Driver/C06.lean (the oracle checks that it is).
fn render_name(n: &[u8], out: &mut Vec<u8>) {
    out.push(b'/');
    for b in n {
        if b.is_ascii_alphanumeric() {
            out.push(*b)
        } else {
            out.extend_from_slice(format!("#{:02x}", b).as_bytes())
        }
    }
}
fn render_obj(o: &PDFObjT, out: &mut Vec<u8>) {
    match o {
        PDFObjT::Null(_) => out.extend_from_slice(b"null"),
        PDFObjT::Boolean(b) => out.extend_from_slice(if *b { b"true" } else { b"false" }),
        PDFObjT::Integer(i) => out.extend_from_slice(format!("{}", i.int_val()).as_bytes()),
        PDFObjT::Name(n) => render_name(n.val(), out),
        PDFObjT::String(s) => {
            out.push(b'<');
            for b in s {
                out.extend_from_slice(format!("{:02x}", b).as_bytes())
            }
            out.push(b'>')
        },
        PDFObjT::Reference(r) => out.extend_from_slice(format!("{} {} R", r.num(), r.gen()).as_bytes()),
        PDFObjT::Array(a) => {
            out.push(b'[');
            for (i, x) in a.objs().iter().enumerate() {
                if i > 0 {
                    out.push(b' ')
                }
                render_obj(x.val(), out)
            }
            out.push(b']')
        },
        PDFObjT::Dict(d) => render_dict(d, out),
        _ => out.extend_from_slice(b"3.0"),
    }
}
fn render_dict(d: &DictT, out: &mut Vec<u8>) {
    out.extend_from_slice(b"<<");
    for (i, (k, v)) in d.map().iter().enumerate() {
        if i > 0 {
            out.push(b' ')
        }
        render_name(k.as_slice(), out);
        out.push(b' ');
        render_obj(v.val(), out)
    }
    out.extend_from_slice(b">>");
}
const HEADS: [(&[u8], &[u8]); 6] = [
    (b"1 0 obj\n", b"\nstream\n"),
    (b"1 0 obj ", b" stream\r\n"),
    (b"12 0 obj", b"stream\n"),
    (b"\n%c\n7 1 obj\n", b"\r\nstream\r\n"),
    (b"1 0 obj", b"stream\n"),
    (b" 3 0 obj ", b"\n\nstream\n"),
];
const TAILS: [&[u8]; 6] = [
    b"\nendstream\nendobj",
    b"\r\nendstream endobj",
    b"\nendstream\rendobj",
    b"\nendstream\n\nendobj",
    b"endstream endobj",
    b"\rendstream\r\nendobj",
];

// the view twin number `c` of an `rz` line
fn view_twin(c: usize, line: &str, dictser: &str, content_len: usize, r: &mut Rng) -> Option<String> {
    let toks: Vec<&str> = dictser.split(',').collect();
    let mut i = 0;
    let d = match parse_obj(&toks, &mut i) {
        Some(PDFObjT::Dict(d)) => d,
        _ => return None,
    };
    let style = c % 6;
    let mut head = HEADS[style].0.to_vec();
    render_dict(&d, &mut head);
    head.extend_from_slice(HEADS[style].1);
    let tail = TAILS[style];
    let n = head.len() + content_len + tail.len();
    let p = [1usize, 7, 11, 1000][(c / 4) % 4];
    let junk = b"%PDF-1.7\n9 0 obj\n<</Length 10 /Filter /ASCIIHexDecode>>\nstream\n48656c6c6f>\nendstream\nendobj\n";
    let pre: Vec<u8> = if c % 2 == 0 { (0 .. p).map(|i| junk[(i + c) % junk.len()]).collect() } else { r.bytes(p) };
    let suf: &[u8] = if c % 3 == 0 { b"\nendstream\nendobj\n" } else { b"\n2 0 obj<</Length 2>>stream\nxx\nendstream endobj\n" };
    let s = suf.len();
    let (p1, s1) = (p / 2, s / 2);
    let steps = match c % 4 {
        0 => format!("R{}:{}", p, n),
        1 => format!("F{},R{}:{}", p1, p - p1, n),
        2 => format!("R{}:{},R{}:{}", p1, (p - p1) + n + s1, p - p1, n),
        _ => format!("R{}:{},F{},R{}:{}", p / 3, (p - p / 3) + n + s1, p / 3, p - 2 * (p / 3), n),
    };
    Some(format!("vw {} {} {} {} {} {}", steps, hex(&pre), hex(suf), hex(&head), hex(tail), line))
}

fn encode_layer(f: usize, data: &[u8], r: &mut Rng) -> Vec<u8> {
    match f {
        0 => zlib(data, r.below(10) as u32),
        1 => {
            // plain lower/upper-case hex, a line break every 40 bytes, EOD
            let up = r.below(2) == 1;
            let mut out = Vec::with_capacity(data.len() * 2 + data.len() / 40 + 2);
            for (i, b) in data.iter().enumerate() {
                let s = if up { format!("{:02X}", b) } else { format!("{:02x}", b) };
                out.extend_from_slice(s.as_bytes());
                if i % 40 == 39 {
                    out.push(b'\n')
                }
            }
            out.push(b'>');
            out
        },
        _ => {
            // btoa-style encoder: `z` for zero groups (optional), line breaks, optional Adobe `<~` prefix
            let usez = r.below(2) == 1;
            let mut out = Vec::new();
            if r.below(4) == 0 {
                out.extend_from_slice(b"<~")
            }
            let mut col = 0;
            for ch in data.chunks(4) {
                let mut g = [0u8; 4];
                g[.. ch.len()].copy_from_slice(ch);
                let mut n = u32::from_be_bytes(g);
                if ch.len() == 4 && n == 0 && usez {
                    out.push(b'z');
                    col += 1;
                } else {
                    let mut d = [0u8; 5];
                    for k in (0 .. 5).rev() {
                        d[k] = (n % 85) as u8 + 33;
                        n /= 85;
                    }
                    out.extend_from_slice(&d[.. ch.len() + 1]);
                    col += ch.len() + 1;
                }
                if col >= 72 {
                    out.push(b'\n');
                    col = 0
                }
            }
            out.extend_from_slice(b"~>");
            out
        },
    }
}

fn gen(seed: u64, n: usize, tier: &str, emit: &mut dyn FnMut(String)) {
    let mut r = Rng::new(seed ^ 0xC06);
    let thorough = tier == "thorough";
    let count = if thorough { n / 40 } else { n / 10 };
    let mut sizes: Vec<usize> = vec![0, 1, 2, 3, 4, 5, 31, 32, 33, 255, 256, 257, 1000, 4096, 32767, 32768, 32769, 33018, 33019, 65535, 65536, 65537, 100_000];
    if thorough {
        sizes.extend_from_slice(&[262_144, 1 << 20, 3 << 20, 4 << 20]);
    } else {
        sizes.push(1 << 20);
    }
    let mut ctr = 0usize;
    // level: Some(l) = every Flate layer at level l % 16, with a window of 2^(l / 16) bytes if l >= 16
    let mut one = |r: &mut Rng, size: usize, kind: usize, chain: Vec<usize>, level: Option<u32>, eol: usize| {
        let p = payload(r, size, kind);
        let mut data = p.clone();
        for f in chain.iter().rev() {
            data = match (*f, level) {
                (0, Some(l)) if l >= 16 => zlib_wb(&data, l % 16, (l / 16) as u8),
                (0, Some(l)) => zlib(&data, l),
                _ => encode_layer(*f, &data, r),
            };
        }
        data.extend_from_slice([&b""[..], b"\n", b"\r\n", b"\r"][eol]);
        let names: Vec<String> = chain.iter().map(|f| format!("/{}", hex(NAMES[*f].as_bytes()))).collect();
        let dict = match (chain.len(), r.below(3)) {
            (1, 0) => format!("D2,{},{},{},I{}", hex(b"Filter"), names[0], hex(b"Length"), data.len()),
            (_, 1) => format!(
                "D3,{},A{},{},{},A{},{},{},I{}",
                hex(b"Filter"),
                chain.len(),
                names.join(","),
                hex(b"DecodeParms"),
                chain.len(),
                vec!["N"; chain.len()].join(","),
                hex(b"Length"),
                data.len()
            )
            .replace(",,", ","),
            _ => format!("D2,{},A{},{},{},I{}", hex(b"Filter"), chain.len(), names.join(","), hex(b"Length"), data.len())
                .replace(",,", ","),
        };
        let line = format!("rz {} {} {}", hex(&p), dict, hex(&data));
        // every case is followed by its view twin (tier budget: of the contents above 2 kB every eighth); the
        // twin's random prefix comes from a generator of its own, so that the cases themselves stay what they were
        let c = ctr;
        ctr += 1;
        let twin = if data.len() <= 2048 || c % 8 == 0 {
            view_twin(c, &line, &dict, data.len(), &mut Rng::new(seed ^ 0xC06 ^ (c as u64 + 1)))
        } else {
            None
        };
        emit(line);
        if let Some(t) = twin {
            emit(t)
        }
    };
    // every boundary size x every level, Flate alone (the 32 KiB truncation lives here)
    for (si, &s) in sizes.iter().enumerate() {
        for level in 0 .. 10u32 {
            if s > 100_000 && level % 3 != 0 {
                continue
            }
            one(&mut r, s, (si + level as usize) % 5, vec![0], Some(level), (si + level as usize) % 4);
        }
    }
    // the encoder's WINDOW varied (zlib headers other than 78 xx): every window 2^9 .. 2^15 x levels {0, 1, 6, 9} (the four
    // FLEVEL values) x sizes below, at and above the window, Flate alone and inside chains
    for wbits in 9 ..= 15u32 {
        for (li, &level) in [0u32, 1, 6, 9].iter().enumerate() {
            let w = 1usize << wbits;
            let szs: [usize; 5] = [5, 300, w - 1, w + 1, 3 * w + 7];
            for (si, &s) in szs.iter().enumerate() {
                if !thorough && s > 40_000 {
                    continue
                }
                let k = wbits as usize + li + si;
                let chain = match k % 4 {
                    0 => vec![1, 0],
                    1 => vec![0, 2],
                    _ => vec![0],
                };
                one(&mut r, s, 1 + k % 4, chain, Some(16 * wbits + level), k % 4);
            }
        }
    }
    // random chains up to length 3
    for _ in 0 .. count {
        let len = 1 + r.below(3);
        let chain: Vec<usize> = (0 .. len).map(|_| r.below(3)).collect();
        let size = match r.below(10) {
            0 => r.below(8),
            1 ..= 6 => r.below(3000),
            7 | 8 => r.below(70_000),
            _ => r.below(if thorough { 400_000 } else { 100_000 }),
        };
        let kind = r.below(5);
        let eol = r.below(4);
        one(&mut r, size, kind, chain, None, eol);
    }
}

fn main() {
    main_loop(Harness {
        run,
        gen: Some(gen),
        extract: None,
    })
}
