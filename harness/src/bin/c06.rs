// C06 — runs the REAL decode_stream (StreamT::filters, the filter chain, dictionary pruning)
// on the stream described by a case line and prints the canonical outcome.
//
// case line :  <kind> <meta> <dictser> <contenthex>        (only words 2 and 3 are used here)
// dictser   :  comma separated prefix tokens
//                N | B0 | B1 | I<int> | /<hex> | S<hex> | R<num>.<gen> | A<n> obj*n | D<n> (<hexkey> obj)*n
//                | X (an object the filter code never inspects: built as the real number 3.0)
// output    :  ok <contenthex> <dictser, keys sorted> | err <kind> | panic <msg>
//
// `gen` (native generator): payloads compressed by the real zlib (flate2::Compression levels 0-9),
// optionally wrapped in ASCIIHex / ASCII85 layers written by small btoa/xxd-style encoders below.
use parsley_rust::pcore::parsebuffer::LocatedVal;
use parsley_rust::pdf_lib::pdf_obj::{ArrayT, DictKey, DictT, PDFObjT, ReferenceT, StreamT};
use parsley_rust::pdf_lib::pdf_prim::{IntegerT, NameT, RealT, StreamContentT};
use parsley_rust::pdf_lib::pdf_streams::decode_stream;
use std::collections::BTreeMap;
use std::io::Write;
use std::rc::Rc;
use verif_harness::*;

fn parse_obj(t: &[&str], i: &mut usize) -> Option<PDFObjT> {
    let w = *t.get(*i)?;
    *i += 1;
    let (h, r) = w.split_at(1);
    Some(match h {
        "N" => PDFObjT::Null(()),
        "B" => PDFObjT::Boolean(r == "1"),
        "I" => PDFObjT::Integer(IntegerT::new(r.parse().ok()?)),
        "/" => PDFObjT::Name(NameT::new(unhex(r))),
        "S" => PDFObjT::String(unhex(r)),
        "X" => PDFObjT::Real(RealT::new(30, 10)),
        "R" => {
            let mut p = r.split('.');
            PDFObjT::Reference(ReferenceT::new(p.next()?.parse().ok()?, p.next()?.parse().ok()?))
        },
        "A" => {
            let n: usize = r.parse().ok()?;
            let mut v = Vec::new();
            for _ in 0 .. n {
                v.push(Rc::new(LocatedVal::new(parse_obj(t, i)?, 0, 0)));
            }
            PDFObjT::Array(ArrayT::new(v))
        },
        "D" => {
            let n: usize = r.parse().ok()?;
            let mut m = BTreeMap::new();
            for _ in 0 .. n {
                let k = unhex(t.get(*i)?);
                *i += 1;
                let o = parse_obj(t, i)?;
                m.insert(DictKey::new(k), Rc::new(LocatedVal::new(o, 0, 0)));
            }
            PDFObjT::Dict(DictT::new(m))
        },
        _ => return None,
    })
}

fn show_obj(o: &PDFObjT, out: &mut Vec<String>) {
    match o {
        PDFObjT::Null(_) => out.push("N".into()),
        PDFObjT::Boolean(b) => out.push(if *b { "B1".into() } else { "B0".into() }),
        PDFObjT::Integer(i) => out.push(format!("I{}", i.int_val())),
        PDFObjT::Name(n) => out.push(format!("/{}", hex(n.val()))),
        PDFObjT::String(s) => out.push(format!("S{}", hex(s))),
        PDFObjT::Reference(r) => out.push(format!("R{}.{}", r.num(), r.gen())),
        PDFObjT::Array(a) => {
            out.push(format!("A{}", a.objs().len()));
            for x in a.objs() {
                show_obj(x.val(), out)
            }
        },
        PDFObjT::Dict(d) => show_dict(d, out),
        _ => out.push("X".into()),
    }
}
fn show_dict(d: &DictT, out: &mut Vec<String>) {
    out.push(format!("D{}", d.map().len()));
    for (k, v) in d.map() {
        out.push(hex(k.as_slice()));
        show_obj(v.val(), out)
    }
}

pub fn run(line: &str) -> String {
    let w: Vec<&str> = line.split_whitespace().collect();
    if w.len() != 4 {
        return "bad-case".to_string()
    }
    let toks: Vec<&str> = w[2].split(',').collect();
    let mut i = 0;
    let dict = match parse_obj(&toks, &mut i) {
        Some(PDFObjT::Dict(d)) if i == toks.len() => d,
        _ => return "bad-case".to_string(),
    };
    let content = unhex(w[3]);
    let len = content.len();
    let strm = StreamT::new(
        Rc::new(LocatedVal::new(dict, 0, 0)),
        LocatedVal::new(StreamContentT::new(0, len, content), 0, len),
    );
    match decode_stream(&strm) {
        Ok(s) => {
            let mut out = Vec::new();
            show_dict(s.dict().val(), &mut out);
            format!("ok {} {}", hex(s.content()), out.join(","))
        },
        Err(e) => format!("err {}", errk(e.val())),
    }
}

// ---------------------------------------------------------------- native generator (real zlib)

fn zlib(data: &[u8], level: u32) -> Vec<u8> {
    let mut e = flate2::write::ZlibEncoder::new(Vec::new(), flate2::Compression::new(level));
    e.write_all(data).unwrap();
    e.finish().unwrap()
}

fn payload(r: &mut Rng, n: usize, kind: usize) -> Vec<u8> {
    match kind {
        0 => r.bytes(n),                                         // incompressible
        1 => (0 .. n).map(|i| (i % 7) as u8 * 31).collect(),      // periodic
        2 => vec![0u8; n],                                       // zeros (long matches, `z` groups)
        3 => {
            // text-like: words from a small dictionary
            let ws: [&[u8]; 8] = [b"stream ", b"endobj\n", b"/Type ", b"0 0 1 rg ", b"BT ", b"ET\n", b"(hello) Tj ", b"q Q "];
            let mut v = Vec::new();
            while v.len() < n {
                v.extend_from_slice(ws[r.below(8)]);
            }
            v.truncate(n);
            v
        },
        _ => {
            // runs of random length: mixes literals, short and long matches
            let mut v = Vec::new();
            while v.len() < n {
                let b = r.below(256) as u8;
                let m = if r.below(4) == 0 { 600 } else { 12 };
                let k = 1 + r.below(m);
                for _ in 0 .. k {
                    v.push(b)
                }
            }
            v.truncate(n);
            v
        },
    }
}

const NAMES: [&str; 3] = ["FlateDecode", "ASCIIHexDecode", "ASCII85Decode"];

fn encode_layer(f: usize, data: &[u8], r: &mut Rng) -> Vec<u8> {
    match f {
        0 => zlib(data, r.below(10) as u32),
        1 => {
            // plain lower/upper-case hex, a line break every 40 bytes, EOD
            let up = r.below(2) == 1;
            let mut out = Vec::with_capacity(data.len() * 2 + data.len() / 40 + 2);
            for (i, b) in data.iter().enumerate() {
                let s = if up { format!("{:02X}", b) } else { format!("{:02x}", b) };
                out.extend_from_slice(s.as_bytes());
                if i % 40 == 39 {
                    out.push(b'\n')
                }
            }
            out.push(b'>');
            out
        },
        _ => {
            // btoa-style encoder: `z` for zero groups (optional), line breaks, optional Adobe `<~` prefix
            let usez = r.below(2) == 1;
            let mut out = Vec::new();
            if r.below(4) == 0 {
                out.extend_from_slice(b"<~")
            }
            let mut col = 0;
            for ch in data.chunks(4) {
                let mut g = [0u8; 4];
                g[.. ch.len()].copy_from_slice(ch);
                let mut n = u32::from_be_bytes(g);
                if ch.len() == 4 && n == 0 && usez {
                    out.push(b'z');
                    col += 1;
                } else {
                    let mut d = [0u8; 5];
                    for k in (0 .. 5).rev() {
                        d[k] = (n % 85) as u8 + 33;
                        n /= 85;
                    }
                    out.extend_from_slice(&d[.. ch.len() + 1]);
                    col += ch.len() + 1;
                }
                if col >= 72 {
                    out.push(b'\n');
                    col = 0
                }
            }
            out.extend_from_slice(b"~>");
            out
        },
    }
}

fn gen(seed: u64, n: usize, tier: &str, emit: &mut dyn FnMut(String)) {
    let mut r = Rng::new(seed ^ 0xC06);
    let thorough = tier == "thorough";
    let count = if thorough { n / 40 } else { n / 10 };
    let mut sizes: Vec<usize> = vec![0, 1, 2, 3, 4, 5, 31, 32, 33, 255, 256, 257, 1000, 4096, 32767, 32768, 32769, 33018, 33019, 65535, 65536, 65537, 100_000];
    if thorough {
        sizes.extend_from_slice(&[262_144, 1 << 20, 3 << 20, 4 << 20]);
    } else {
        sizes.push(1 << 20);
    }
    let mut one = |r: &mut Rng, size: usize, kind: usize, chain: Vec<usize>, level: Option<u32>, eol: usize| {
        let p = payload(r, size, kind);
        let mut data = p.clone();
        for f in chain.iter().rev() {
            data = match (*f, level) {
                (0, Some(l)) => zlib(&data, l),
                _ => encode_layer(*f, &data, r),
            };
        }
        data.extend_from_slice([&b""[..], b"\n", b"\r\n", b"\r"][eol]);
        let names: Vec<String> = chain.iter().map(|f| format!("/{}", hex(NAMES[*f].as_bytes()))).collect();
        let dict = match (chain.len(), r.below(3)) {
            (1, 0) => format!("D2,{},{},{},I{}", hex(b"Filter"), names[0], hex(b"Length"), data.len()),
            (_, 1) => format!(
                "D3,{},A{},{},{},A{},{},{},I{}",
                hex(b"Filter"),
                chain.len(),
                names.join(","),
                hex(b"DecodeParms"),
                chain.len(),
                vec!["N"; chain.len()].join(","),
                hex(b"Length"),
                data.len()
            )
            .replace(",,", ","),
            _ => format!("D2,{},A{},{},{},I{}", hex(b"Filter"), chain.len(), names.join(","), hex(b"Length"), data.len())
                .replace(",,", ","),
        };
        emit(format!("rz {} {} {}", hex(&p), dict, hex(&data)));
    };
    // every boundary size x every level, Flate alone (the 32 KiB truncation lives here)
    for (si, &s) in sizes.iter().enumerate() {
        for level in 0 .. 10u32 {
            if s > 100_000 && level % 3 != 0 {
                continue
            }
            one(&mut r, s, (si + level as usize) % 5, vec![0], Some(level), (si + level as usize) % 4);
        }
    }
    // random chains up to length 3
    for _ in 0 .. count {
        let len = 1 + r.below(3);
        let chain: Vec<usize> = (0 .. len).map(|_| r.below(3)).collect();
        let size = match r.below(10) {
            0 => r.below(8),
            1 ..= 6 => r.below(3000),
            7 | 8 => r.below(70_000),
            _ => r.below(if thorough { 400_000 } else { 100_000 }),
        };
        let kind = r.below(5);
        let eol = r.below(4);
        one(&mut r, size, kind, chain, None, eol);
    }
}

fn main() {
    main_loop(Harness {
        run,
        gen: Some(gen),
        extract: None,
    })
}
