// C07 harness: runs the REAL predictor code of /repo/src/pdf_lib/pdf_filters.rs.
//
// case lines (the optional trailing field <rawhex> is for the oracle only and ignored here):
//   flate <P> <C> <N> <B> <enchex> [<rawhex>]   P,C,N,B = /Predictor /Colors /Columns /BitsPerComponent as
//                                               decimal i64, `_` (key absent) or a non-integer object `~<t><k>`
//                                               (n null, r real k.0, s string (k), m name /k, b true, a array [k],
//                                               f reference k 0 R).  The data is zlib-compressed
//                                               with the real flate2 and sent through the public entry point
//                                               FlateDecode::new(&Some(&parms)).transform(..)  (parameter
//                                               extraction, `as usize` casts, predictor function).
//   pred  <P> <C> <N> <B> <enchex> [<rawhex>]   P,C,N,B decimal u64: direct call of the predictor function
//                                               through the hook verif_predict (no zlib round trip).
//   paeth <a> <b>                               the real paeth(a,b,c) for c = 0..255 (hook verif_paeth)
// output: `ok <hex>` | `err <kind>` | `panic <msg>` (catch_unwind in main_loop)
use parsley_rust::pcore::parsebuffer::{LocatedVal, ParseBuffer, ParseBufferT};
use parsley_rust::pcore::transforms::{BufferTransformT, TransformResult};
use parsley_rust::pdf_lib::pdf_filters::{verif_paeth, verif_predict, FlateDecode};
use parsley_rust::pdf_lib::pdf_obj::{ArrayT, DictKey, DictT, PDFObjT, ReferenceT};
use parsley_rust::pdf_lib::pdf_prim::{IntegerT, NameT, RealT};
use std::collections::BTreeMap;
use std::io::Write;
use std::rc::Rc;
use verif_harness::*;

fn show(r: TransformResult) -> String {
    match r {
        Ok(pb) => format!("ok {}", hex(pb.buf())),
        Err(e) => format!("err {}", errk(e.val())),
    }
}

fn zlib(data: &[u8]) -> Vec<u8> {
    let mut e = flate2::write::ZlibEncoder::new(Vec::new(), flate2::Compression::default());
    e.write_all(data).unwrap();
    e.finish().unwrap()
}

// the object a parameter token denotes (None = key absent)
fn param_obj(tok: &str) -> Result<Option<PDFObjT>, ()> {
    if tok == "_" {
        return Ok(None)
    }
    if let Some(rest) = tok.strip_prefix('~') {
        if rest.is_empty() {
            return Err(())
        }
        let (t, k) = rest.split_at(1);
        let num = || k.parse::<u64>().map_err(|_| ());
        return Ok(Some(match t {
            "n" => PDFObjT::Null(()),
            "r" => PDFObjT::Real(RealT::new(num()? as i128 * 10, 10)),
            "s" => PDFObjT::String(k.as_bytes().to_vec()),
            "m" => PDFObjT::Name(NameT::new(k.as_bytes().to_vec())),
            "b" => PDFObjT::Boolean(true),
            "a" => PDFObjT::Array(ArrayT::new(vec![Rc::new(LocatedVal::new(
                PDFObjT::Integer(IntegerT::new(num()? as i64)),
                0,
                0,
            ))])),
            "f" => PDFObjT::Reference(ReferenceT::new(num()? as usize, 0)),
            _ => return Err(()),
        }))
    }
    match tok.parse::<i64>() {
        Ok(v) => Ok(Some(PDFObjT::Integer(IntegerT::new(v)))),
        Err(_) => Err(()),
    }
}

pub fn run(line: &str) -> String {
    let w: Vec<&str> = line.split_whitespace().collect();
    if w.is_empty() {
        return "bad-case".to_string()
    }
    match w[0] {
        "flate" if w.len() == 6 || w.len() == 7 => {
            let mut map = BTreeMap::new();
            for (key, tok) in [
                (&b"Predictor"[..], w[1]),
                (&b"Colors"[..], w[2]),
                (&b"Columns"[..], w[3]),
                (&b"BitsPerComponent"[..], w[4]),
            ]
            .iter()
            {
                match param_obj(tok) {
                    Ok(Some(o)) => {
                        map.insert(DictKey::new(key.to_vec()), Rc::new(LocatedVal::new(o, 0, 0)));
                    },
                    Ok(None) => {},
                    Err(_) => return "bad-case".to_string(),
                }
            }
            let parms = DictT::new(map);
            let data = unhex(w[5]);
            let pb = ParseBuffer::new(zlib(&data));
            let opt = Some(&parms);
            let mut f = FlateDecode::new(&opt);
            show(f.transform(&pb))
        },
        "pred" if w.len() == 6 || w.len() == 7 => {
            let mut p = [0usize; 4];
            for i in 0 .. 4 {
                p[i] = match w[1 + i].parse::<u64>() {
                    Ok(v) => v as usize,
                    Err(_) => return "bad-case".to_string(),
                };
            }
            show(verif_predict(unhex(w[5]), p[0], p[1], p[2], p[3]))
        },
        "paeth" if w.len() == 3 => {
            let a: u8 = match w[1].parse() {
                Ok(v) => v,
                Err(_) => return "bad-case".to_string(),
            };
            let b: u8 = match w[2].parse() {
                Ok(v) => v,
                Err(_) => return "bad-case".to_string(),
            };
            let v: Vec<u8> = (0 ..= 255u8).map(|c| verif_paeth(a, b, c)).collect();
            format!("ok {}", hex(&v))
        },
        _ => "bad-case".to_string(),
    }
}

fn main() {
    main_loop(Harness {
        run,
        gen: None,
        extract: None,
    })
}
