// C08: runs the REAL parsley_rust::pdf_lib::pdf_type_check::check_type on a case and prints the
// property-level observable: `accept` or `reject <error kind>` (no messages, no locations).
#[path = "../tc_common.rs"]
mod tc_common;
use verif_harness::*;

fn run_direct(line: &str) -> String {
    match tc_common::decode(line) {
        None => "bad-case".to_string(),
        Some(c) => tc_common::run_case(&c).0,
    }
}

// every case runs in a worker process under a watchdog: `hang` / `crash:<rc>` instead of a verdict
pub fn run(line: &str) -> String { tc_common::guarded(line, run_direct) }

fn main() {
    main_loop(Harness {
        run,
        gen: None,
        extract: None,
    })
}
