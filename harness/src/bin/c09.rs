// C09: runs the REAL check_type twice on each case (verdict and step count must repeat), reports
// the work-loop step count from the `verif` hook, and -- for `chain`/`bigchain` cases -- runs the
// check of an n-link reference chain (well-typed, or `dchain`: with an ill-typed last element)
// against a recursive named type in a 256 KiB-stack thread.
//   output: <verdict> steps=<n> rerun=<same|DIFF>
// `achain`/`bigachain` cases: chains / cycles of n alias names (one-option disjunctions of a name),
// also in the small-stack thread.
// `seq ...` lines: a SEQUENCE of check_type calls on ONE TypeCheckContext and one PDFObjContext
// (format: tc_common.rs / lean/Driver/C09Seq.lean); every step is also run ALONE (everything
// decoded afresh, the registrations of the earlier steps performed, none of the earlier checks
// run) and must give the same verdict and work count as inside the sequence.
//   output: <verdict> steps=<n> | <verdict> steps=<n> | ... alone=<same|DIFF:step:verdict:steps>
#[path = "../tc_common.rs"]
mod tc_common;
use verif_harness::*;

/// `chain n kind` / `bigchain n kind`: n indirect objects  i 0 obj << /Next (i+1) 0 R >>  (the last
/// one closes the cycle back to 1 when kind = cyc, or has no /Next when kind = lin), checked from
/// `1 0 R` against  node = dict{ Next : optional named node }.
fn chain_line(n: usize, cyc: bool) -> String {
    let mut s = String::new();
    s.push_str("c09 1 node r - a dict 1 4e657874 o n node - ");
    s.push_str(&format!("{} ", n));
    for i in 1 ..= n {
        if i < n {
            s.push_str(&format!("{} 0 D 1 4e657874 R {} 0 ", i, i + 1));
        } else if cyc {
            s.push_str(&format!("{} 0 D 1 4e657874 R 1 0 ", i));
        } else {
            s.push_str(&format!("{} 0 D 0 ", i));
        }
    }
    s.push_str("n node R 1 0");
    s
}

/// `dchain n shape` / `bigdchain n shape`: the same kind of chain whose LAST element is ill-typed
/// (twin of `dchainCase` in lean/Driver/C09.lean):
///   arr : i 0 obj [ (i+1) 0 R ]          against t = [ t* ]                last: n 0 obj 7
///   dict: i 0 obj << /Next (i+1) 0 R >>  against node = << /Next node? >>  last: << /Next 7 >>
///   dis : i 0 obj [ (i+1) 0 R ]          against t = [ (leaf | t)* ], leaf = Name   last: n 0 obj 7
fn dchain_line(n: usize, shape: &str) -> String {
    let mut s = String::new();
    if shape == "dict" {
        s.push_str("c09 1 node r - a dict 1 4e657874 o n node - ");
        s.push_str(&format!("{} ", n));
        for i in 1 ..= n {
            if i < n {
                s.push_str(&format!("{} 0 D 1 4e657874 R {} 0 ", i, i + 1));
            } else {
                s.push_str(&format!("{} 0 D 1 4e657874 I 7 ", i));
            }
        }
        s.push_str("n node R 1 0");
    } else {
        let elem = if shape == "dis" { "r - a dis 2 n leaf n t" } else { "n t" };
        s.push_str(&format!("c09 2 t r - a arr - {} leaf r - a p n ", elem));
        s.push_str(&format!("{} ", n));
        for i in 1 ..= n {
            if i < n {
                s.push_str(&format!("{} 0 A 1 R {} 0 ", i, i + 1));
            } else {
                s.push_str(&format!("{} 0 I 7 ", i));
            }
        }
        s.push_str("n t R 1 0");
    }
    s
}

/// `achain n kind` / `bigachain n kind`: n alias names a1 = Disjunct[a2], ..., a(n-1) = Disjunct[an]
/// (one-option disjunctions of a name, no predicate, indirect allowed); an = Disjunct[z] with
/// z = Integer (kind int), Disjunct[a1] (cyc) or Disjunct[an] (self); `n a1` checked on the
/// integer 1 (twin of `achainCase` in lean/Driver/C09.lean).
fn achain_line(n: usize, kind: &str) -> String {
    let mut s = format!("c09 {} ", n + 1);
    for i in 1 ..= n {
        let t = if i < n {
            format!("a{}", i + 1)
        } else if kind == "cyc" {
            "a1".to_string()
        } else if kind == "self" {
            format!("a{}", n)
        } else {
            "z".to_string()
        };
        s.push_str(&format!("a{} r - a dis 1 n {} ", i, t));
    }
    s.push_str("z r - a p i 0 n a1 I 1");
    s
}

fn run_twice(line: &str) -> String {
    let c = match tc_common::decode(line) {
        None => return "bad-case".to_string(),
        Some(c) => c,
    };
    let (v1, s1) = tc_common::run_case(&c);
    let (v2, s2) = tc_common::run_case(&c);
    let same = if v1 == v2 && s1 == s2 { "same" } else { "DIFF" };
    format!("{} steps={} rerun={}", v1, s1, same)
}

/// runs the steps of a `seq` line in order on one context; `only` = Some(j): performs the
/// constructions (registrations) of steps 0..=j but runs only the check of step j
fn run_seq(line: &str, only: Option<usize>) -> Option<Vec<(String, u64)>> {
    let mut d = tc_common::Dec::new(line);
    let _seq = d.tok();
    let (mut tctx, ents) = d.ctx_entries();
    let ctxt = d.graph();
    let k = d.num();
    let mut out = Vec::new();
    for i in 0 .. k {
        let chk = d.step_chk(&mut tctx, &ents);
        let obj = d.obj();
        match only {
            None => out.push(tc_common::run_one(&ctxt, &tctx, &obj, &chk)),
            Some(j) if j == i => {
                out.push(tc_common::run_one(&ctxt, &tctx, &obj, &chk));
                return Some(out)
            },
            Some(_) => {},
        }
    }
    if !d.done() {
        return None
    }
    Some(out)
}

fn run_seq_line(line: &str) -> String {
    let seq = match run_seq(line, None) {
        None => return "bad-case".to_string(),
        Some(v) => v,
    };
    let mut alone = "same".to_string();
    for (i, r) in seq.iter().enumerate() {
        let a = run_seq(line, Some(i)).unwrap();
        if a[0] != *r {
            alone = format!("DIFF:{}:{}:{}", i, a[0].0.replace(' ', "_"), a[0].1);
            break
        }
    }
    let steps: Vec<String> = seq.iter().map(|(v, s)| format!("{} steps={}", v, s)).collect();
    format!("{} alone={}", steps.join(" | "), alone)
}

// every case runs in a worker process under a watchdog: `hang` / `crash:<rc>` instead of a verdict
pub fn run(line: &str) -> String { tc_common::guarded(line, run_direct) }

fn run_direct(line: &str) -> String {
    let w: Vec<&str> = line.split_whitespace().collect();
    if w.first() == Some(&"seq") {
        return run_seq_line(line)
    }
    let deep = w.len() == 3 && (w[0] == "dchain" || w[0] == "bigdchain");
    let alias = w.len() == 3 && (w[0] == "achain" || w[0] == "bigachain");
    if deep || alias || (w.len() == 3 && (w[0] == "chain" || w[0] == "bigchain")) {
        let n: usize = w[1].parse().unwrap();
        let l = if deep {
            dchain_line(n, w[2])
        } else if alias {
            achain_line(n, w[2])
        } else {
            chain_line(n, w[2] == "cyc")
        };
        // small stack: a recursive implementation would overflow (and kill the worker => crash:<rc>)
        let h = std::thread::Builder::new()
            .stack_size(256 * 1024)
            .spawn(move || run_twice(&l))
            .unwrap();
        return match h.join() {
            Ok(s) => s,
            Err(_) => "panic in small-stack thread".to_string(),
        }
    }
    run_twice(line)
}

fn main() {
    main_loop(Harness {
        run,
        gen: None,
        extract: None,
    })
}
