// C10: runs the REAL parsley_rust::pdf_lib::pdf_type_check::check_type with the REAL shipped
// specification `catalog::catalog_type(&mut tctx)` on a document catalog and its object graph, and
// prints the property-level observable: `accept` or `reject <error kind>`.
//
//   case line :  <tag> <graph> <obj> [| anything -- the Lean side's structured description, ignored here]
//                graph := k (num gen obj)*k      obj := as in tc_common.rs
//
//   c10 extract CatalogSpec   emits Parsley/Gen/CatalogSpec.lean: the check graph returned by the real
//                catalog_type and every named entry of the TypeCheckContext, as terms of the model's `Chk`.
//                Needs the hooks of C10-00 (Predicate::verif_name / verif_choices,
//                TypeCheckContext::verif_entries) and of C08-00 (DictEntry accessors).
#[path = "../tc_common.rs"]
#[allow(dead_code)]
mod tc_common;
use parsley_rust::pcore::parsebuffer::LocatedVal;
use parsley_rust::pdf_lib::catalog::catalog_type;
use parsley_rust::pdf_lib::pdf_obj::{ArrayT, DictKey, DictT, PDFObjT};
use parsley_rust::pdf_lib::pdf_prim::IntegerT;
use parsley_rust::pdf_lib::pdf_type_check::{
    check_type, DictKeySpec, IndirectSpec, PDFPrimType, PDFType, Predicate, TypeCheck,
    TypeCheckContext, TypeCheckRep,
};
use std::collections::{BTreeMap, HashMap};
use std::rc::Rc;
use verif_harness::*;

fn run_direct(line: &str) -> String {
    let mut d = tc_common::Dec::new(line);
    let _tag = d.tok();
    let ctxt = d.graph();
    let obj = d.obj();
    let mut tctx = TypeCheckContext::new();
    let typ = catalog_type(&mut tctx);
    match check_type(&ctxt, &tctx, obj, typ) {
        None => "accept".to_string(),
        Some(e) => format!("reject {}", tc_common::err_kind(e.val())),
    }
}

// every case runs in a worker process under a watchdog: `hang` / `crash:<rc>` instead of a verdict
pub fn run(line: &str) -> String { tc_common::guarded(line, run_direct) }

// ---------------------------------------------------------------------------------------------
// extract

fn bytes(b: &[u8]) -> String {
    let v: Vec<String> = b.iter().map(|x| format!("0x{:02X}", x)).collect();
    format!("[{}]", v.join(", "))
}

fn printable(b: &[u8]) -> String {
    b.iter()
        .map(|&c| if (0x21 ..= 0x7e).contains(&c) { c as char } else { '?' })
        .collect()
}

// a PDF object as a term of the model's `Obj` (only the scalar forms a ChoicePred can list)
fn obj_term(o: &PDFObjT) -> Option<String> {
    Some(match o {
        PDFObjT::Name(n) => format!(".name {}", bytes(n.val())),
        PDFObjT::String(s) => format!(".str {}", bytes(s)),
        PDFObjT::Integer(i) => format!(".int ({})", i.int_val()),
        PDFObjT::Boolean(b) => format!(".bool {}", b),
        PDFObjT::Null(_) => ".null".to_string(),
        _ => return None,
    })
}

fn lv(o: PDFObjT) -> Rc<LocatedVal<PDFObjT>> { Rc::new(LocatedVal::new(o, 0, 0)) }

fn dict(kvs: Vec<(&str, PDFObjT)>) -> Rc<LocatedVal<PDFObjT>> {
    let mut m = BTreeMap::new();
    for (k, v) in kvs {
        m.insert(DictKey::new(Vec::from(k)), lv(v));
    }
    lv(PDFObjT::Dict(DictT::new(m)))
}

// The text of NumberTreePredicate is modelled by hand (Model/TypeCheck.lean `treePredOK`); which
// dictionary key it reads the leaf array from is PROBED here on two objects, so that the model
// follows the code: << /Nums [] /Names 42 >> and << /Nums 42 /Names [] >>.
fn probe_number_tree(p: &Rc<dyn Predicate>) -> Option<&'static str> {
    let empty = || PDFObjT::Array(ArrayT::new(Vec::new()));
    let n42 = || PDFObjT::Integer(IntegerT::new(42));
    let a = dict(vec![("Nums", empty()), ("Names", n42())]);
    let b = dict(vec![("Nums", n42()), ("Names", empty())]);
    match (p.check(&a).is_none(), p.check(&b).is_none()) {
        (true, false) => Some("kNums"),
        (false, true) => Some("kNames"),
        _ => None,
    }
}

struct Emit {
    defs:    Vec<String>,
    ids:     HashMap<*const TypeCheckRep, String>,
    counter: usize,
    err:     Option<String>,
    pred_ids: HashMap<usize, usize>,
}

impl Emit {
    // predicate objects are numbered by their address: the memo of check_type compares predicates
    // by identity, so two separately built predicates are different keys (model: `Pred.tagged`)
    fn pred(&mut self, p: &Option<Rc<dyn Predicate>>) -> String {
        let p = match p {
            None => return "none".to_string(),
            Some(p) => p,
        };
        let addr = Rc::as_ptr(p) as *const () as usize;
        let n = self.pred_ids.len() + 1;
        let id = *self.pred_ids.entry(addr).or_insert(n);
        match self.pred_body(p) {
            Some(b) => format!("(some (.tagged {} ({})))", id, b),
            None => "none".to_string(),
        }
    }

    fn pred_body(&mut self, p: &Rc<dyn Predicate>) -> Option<String> {
        let name = p.verif_name();
        let short = name.rsplit("::").next().unwrap_or("");
        match short {
            "ChoicePred" => match p.verif_choices() {
                Some(vs) => {
                    let mut items = Vec::new();
                    for v in vs {
                        match obj_term(v) {
                            Some(t) => items.push(t),
                            None => {
                                self.err = Some(format!("unsupported value in a ChoicePred: {:?}", v));
                                items.push(".null".to_string())
                            },
                        }
                    }
                    Some(format!(".choice [{}]", items.join(", ")))
                },
                None => {
                    self.err = Some("ChoicePred without choices".to_string());
                    None
                },
            },
            "NameTreePredicate" => Some(".nameTree".to_string()),
            "NumberTreePredicate" => match probe_number_tree(p) {
                Some(k) => Some(format!(".numTree {}", k)),
                None => {
                    self.err = Some("NumberTreePredicate: probe inconclusive".to_string());
                    None
                },
            },
            "DateStringPredicate" => Some(".date".to_string()),
            "ReferencePredicate" => Some(".refArray".to_string()),
            _ => {
                self.err = Some(format!("predicate type without a model: {}", name));
                None
            },
        }
    }

    fn chk(&mut self, c: &Rc<TypeCheck>, ind: usize) -> String {
        match c.as_ref() {
            TypeCheck::Named(n) => format!("(.named {:?})", n),
            TypeCheck::Rep(r) => self.rep(r, ind),
        }
    }

    fn ents(&mut self, es: &[parsley_rust::pdf_lib::pdf_type_check::DictEntry], ind: usize) -> String {
        let pad = " ".repeat(ind);
        let mut s = String::new();
        for e in es {
            let opt = match e.verif_opt() {
                DictKeySpec::Required => ".required",
                DictKeySpec::Optional => ".optional",
                DictKeySpec::Forbidden => ".forbidden",
            };
            let c = self.chk(e.verif_chk(), ind + 4);
            s.push_str(&format!(
                "\n{}(.cons {} {} -- /{}\n{}    {}",
                pad,
                bytes(e.verif_key()),
                opt,
                printable(e.verif_key()),
                pad,
                c
            ));
        }
        s.push_str(&format!("\n{}.nil{}", pad, ")".repeat(es.len())));
        s
    }

    fn alts(&mut self, cs: &[Rc<TypeCheck>], ind: usize) -> String {
        let pad = " ".repeat(ind);
        let mut s = String::new();
        for c in cs {
            let t = self.chk(c, ind + 4);
            s.push_str(&format!("\n{}(.cons [] .required\n{}    {}", pad, pad, t));
        }
        s.push_str(&format!("\n{}.nil{}", pad, ")".repeat(cs.len())));
        s
    }

    fn body(&mut self, r: &Rc<TypeCheckRep>, ind: usize) -> String {
        let i = match r.indirect() {
            IndirectSpec::Required => ".required",
            IndirectSpec::Allowed => ".allowed",
            IndirectSpec::Forbidden => ".forbidden",
        };
        let a = format!("⟨{}, {}⟩", self.pred(r.pred()), i);
        match r.typ() {
            PDFType::Any => format!(".any {}", a),
            PDFType::PrimType(p) => {
                let p = match p {
                    PDFPrimType::Bool => ".bool",
                    PDFPrimType::String => ".string",
                    PDFPrimType::Name => ".name",
                    PDFPrimType::Null => ".null",
                    PDFPrimType::Integer => ".integer",
                    PDFPrimType::Real => ".real",
                    PDFPrimType::Comment => ".comment",
                };
                format!(".prim {} {}", a, p)
            },
            PDFType::Array { elem, size } => {
                let e = self.chk(elem, ind + 2);
                let sz = match size {
                    Some(n) => format!("(some {})", n),
                    None => "none".to_string(),
                };
                format!(".array {} {} {}", a, e, sz)
            },
            PDFType::HetArray { elems } => format!(".het {} ({})", a, self.alts(elems, ind + 2)),
            PDFType::Dict(es, None) => format!(".dict {} ({})", a, self.ents(es, ind + 2)),
            PDFType::Dict(es, Some(star)) => {
                let so = match star.verif_opt() {
                    DictKeySpec::Required => ".required",
                    DictKeySpec::Optional => ".optional",
                    DictKeySpec::Forbidden => ".forbidden",
                };
                let sc = self.chk(star.verif_chk(), ind + 2);
                format!(".dictStar {} ({}) {} {}", a, self.ents(es, ind + 2), so, sc)
            },
            PDFType::Stream(es) => format!(".stream {} ({})", a, self.ents(es, ind + 2)),
            PDFType::Disjunct(cs) => format!(".disj {} ({})", a, self.alts(cs, ind + 2)),
        }
    }

    // a rep registered under a non-empty name becomes a definition of its own (shared by pointer
    // identity); anonymous reps are written in place
    fn rep(&mut self, r: &Rc<TypeCheckRep>, ind: usize) -> String {
        let p = Rc::as_ptr(r);
        if let Some(n) = self.ids.get(&p) {
            return n.clone()
        }
        if r.name().is_empty() {
            return format!("({})", self.body(r, ind))
        }
        let b = self.body(r, 2);
        self.counter += 1;
        let clean: String = r
            .name()
            .chars()
            .map(|c| if c.is_ascii_alphanumeric() { c } else { '_' })
            .collect();
        let nm = format!("c{}_{}", self.counter, clean);
        self.defs.push(format!(
            "/-- registered as {:?} -/\ndef {} : Chk :=\n  {}\n",
            r.name(),
            nm,
            b
        ));
        self.ids.insert(p, nm.clone());
        nm
    }
}

fn extract(name: &str) -> Option<String> {
    if name != "CatalogSpec" {
        return None
    }
    let mut tctx = TypeCheckContext::new();
    let root = catalog_type(&mut tctx);
    let mut em = Emit {
        defs:    Vec::new(),
        ids:     HashMap::new(),
        counter: 0,
        err:     None,
        pred_ids: HashMap::new(),
    };
    let root_t = em.chk(&root, 2);
    let mut ctx_items = Vec::new();
    for (n, r) in tctx.verif_entries() {
        let t = em.rep(&r, 4);
        ctx_items.push(format!("  ({:?}, {})", n, t));
    }
    if let Some(e) = em.err {
        eprintln!("extract CatalogSpec: {}", e);
        return None
    }
    let mut s = String::new();
    s.push_str("-- GENERATED by `c10 extract CatalogSpec` from the check graph returned by the real\n");
    s.push_str("-- parsley_rust::pdf_lib::catalog::catalog_type(&mut tctx) and the entries of tctx.\n");
    s.push_str("-- Do not edit: ./check C10 rewrites this file from the real crate on every run.\n");
    s.push_str("import Parsley.Model.TypeCheck\n");
    s.push_str("namespace Parsley.Gen.CatalogSpec\nopen Parsley Parsley.TC\n\n");
    for d in &em.defs {
        s.push_str(d);
        s.push('\n');
    }
    s.push_str("/-- the check returned by `catalog_type` -/\n");
    s.push_str(&format!("def catalog : Chk :=\n  {}\n\n", root_t));
    s.push_str("/-- every entry of the TypeCheckContext after `catalog_type` (name, registered check) -/\n");
    s.push_str(&format!("def ctx : Ctx := [\n{}\n]\n\n", ctx_items.join(",\n")));
    s.push_str("end Parsley.Gen.CatalogSpec\n");
    Some(s)
}

fn main() {
    main_loop(Harness {
        run,
        gen: None,
        extract: Some(extract),
    })
}
