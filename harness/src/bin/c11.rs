// C11: runs the REAL to_page_dom on an object graph.
//
// Case line (blank-separated tokens, prefix notation; same grammar as lean/Driver/C11.lean):
//   <tag> <rootnum> <k> (num gen obj)*k          tag: tc (type-correct by construction) | any
//   obj := A k obj*k | D k (keyhex obj)*k | S k (keyhex obj)*k hex | R num gen | B 0|1
//        | Z hex | N hex | U | I int
// The graph is rendered as PDF text (one buffer, `n g obj ... endobj` per object), parsed with the
// real parse_pdf_indirect_obj into a PDFObjContext, and to_page_dom is called on object (root,0).
// For `tc` cases the real check_type(catalog_type) must accept the root (else the output is
// prefixed TCREJECT, which the correspondence flags).
//
// Output:  err <PageDOMError variant>            (err-badloc if the location is not inside the buffer)
//       |  ok R[c=..;r=..;k=..] N<id>[p=..;c=..;r=..;k=..] P<id>[p=..;r=..;s=..] ... FD[ids] FS[ids]
// A self-referential /Kids or /Contents object overflows the stack of the unfixed code: the process
// dies and ./check records crash:<rc> for the case.  A case that does not finish within 4 s kills
// the process with exit code 3 (crash:3).
//
// The library prints diagnostics with println!; file descriptor 1 is therefore redirected to
// /dev/null and the protocol is written to a duplicate of the original stdout.
use parsley_rust::pcore::parsebuffer::{LocatedVal, ParseBuffer};
use parsley_rust::pdf_lib::catalog::catalog_type;
use parsley_rust::pdf_lib::pdf_obj::{parse_pdf_indirect_obj, ObjectId, PDFObjContext, PDFObjT};
use parsley_rust::pdf_lib::pdf_page_dom::{
    to_page_dom, FeaturePresence, FontDictionary, FontEncoding, PageKid, Resources,
};
use parsley_rust::pdf_lib::pdf_type_check::{check_type, TypeCheckContext};
use std::io::{BufRead, Write};
use std::rc::Rc;
use verif_harness::{hex, unhex};

struct Dec<'a> {
    t: Vec<&'a str>,
    i: usize,
}
impl<'a> Dec<'a> {
    fn tok(&mut self) -> Option<&'a str> {
        let s = self.t.get(self.i).copied();
        self.i += 1;
        s
    }
    fn num(&mut self) -> Option<usize> { self.tok()?.parse().ok() }
}

fn render_name(k: &[u8], out: &mut Vec<u8>) {
    out.push(b'/');
    for &b in k {
        // bytes that end a name, '#', and NUL are written as #xx
        if b" \0\t\r\n\x0c()<>[]{}/%#".contains(&b) {
            out.extend_from_slice(format!("#{:02x}", b).as_bytes());
        } else {
            out.push(b);
        }
    }
}

fn render_entries(d: &mut Dec, out: &mut Vec<u8>) -> Option<()> {
    let k = d.num()?;
    for _ in 0 .. k {
        let key = unhex(d.tok()?);
        render_name(&key, out);
        out.push(b' ');
        render(d, out)?;
        out.push(b' ');
    }
    Some(())
}

// canonical printer: tokens -> PDF text
fn render(d: &mut Dec, out: &mut Vec<u8>) -> Option<()> {
    match d.tok()? {
        "A" => {
            let k = d.num()?;
            out.extend_from_slice(b"[ ");
            for _ in 0 .. k {
                render(d, out)?;
                out.push(b' ');
            }
            out.push(b']');
        },
        "D" => {
            out.extend_from_slice(b"<< ");
            render_entries(d, out)?;
            out.extend_from_slice(b">>");
        },
        "S" => {
            out.extend_from_slice(b"<< ");
            render_entries(d, out)?;
            let content = unhex(d.tok()?);
            out.extend_from_slice(format!("/Length {} >>\nstream\n", content.len()).as_bytes());
            out.extend_from_slice(&content);
            out.extend_from_slice(b"\nendstream");
        },
        "R" => {
            let n = d.num()?;
            let g = d.num()?;
            out.extend_from_slice(format!("{} {} R", n, g).as_bytes());
        },
        "B" => out.extend_from_slice(if d.tok()? == "1" { b"true" } else { b"false" }),
        "Z" => {
            let s = unhex(d.tok()?);
            out.push(b'<');
            for b in s {
                out.extend_from_slice(format!("{:02x}", b).as_bytes());
            }
            out.push(b'>');
        },
        "N" => render_name(&unhex(d.tok()?), out),
        "U" => out.extend_from_slice(b"null"),
        "I" => {
            let i: i64 = d.tok()?.parse().ok()?;
            out.extend_from_slice(format!("{}", i).as_bytes());
        },
        _ => return None,
    }
    Some(())
}

fn ids(v: &[ObjectId]) -> String {
    if v.is_empty() {
        return "-".to_string()
    }
    v.iter()
        .map(|(n, g)| format!("{}.{}", n, g))
        .collect::<Vec<_>>()
        .join(",")
}

fn fp(f: FeaturePresence) -> &'static str {
    match f {
        FeaturePresence::True => "T",
        FeaturePresence::False => "F",
        FeaturePresence::Unknown => "U",
    }
}

fn font(k: &[u8], f: &FontDictionary) -> String {
    let enc = match f.encoding() {
        None => "-".to_string(),
        Some(FontEncoding::MacRoman) => "mac".to_string(),
        Some(FontEncoding::MacExpert) => "exp".to_string(),
        Some(FontEncoding::WinAnsi) => "win".to_string(),
        Some(FontEncoding::Unknown(s)) => format!("unk.{}", hex(s.as_bytes())),
        Some(FontEncoding::Dict(_)) => "dict".to_string(),
    };
    format!(
        "{}:{}:{}:{}:{}",
        hex(k),
        hex(f.basefont()),
        fp(f.is_embedded()),
        fp(f.is_symbolic()),
        enc
    )
}

fn res(r: &Resources) -> String {
    let v: Vec<String> = r
        .fonts()
        .iter()
        .map(|(k, f)| font(k.as_slice(), f))
        .collect();
    format!("{{{}}}", v.join(","))
}
fn ores(r: &Option<Rc<Resources>>) -> String {
    match r {
        None => "~".to_string(),
        Some(r) => res(r),
    }
}

// private fields without accessor are read off the derived Debug text
fn dbg_pair_after(s: &str, key: &str) -> String {
    match s.find(key) {
        None => "?".to_string(),
        Some(i) => {
            let t = &s[i + key.len() ..];
            let e = t.find(')').unwrap_or(0);
            let inner: Vec<&str> = t[.. e].split(", ").collect();
            if inner.len() == 2 {
                format!("{}.{}", inner[0], inner[1])
            } else {
                "?".to_string()
            }
        },
    }
}
fn dbg_num_after(s: &str, key: &str, last: bool) -> String {
    let p = if last { s.rfind(key) } else { s.find(key) };
    match p {
        None => "?".to_string(),
        Some(i) => s[i + key.len() ..]
            .chars()
            .take_while(|c| c.is_ascii_digit())
            .collect(),
    }
}
fn dbg_kids_last(s: &str) -> String {
    match s.rfind("kids: [") {
        None => "?".to_string(),
        Some(i) => {
            let t = &s[i + 7 ..];
            let e = t.find(']').unwrap_or(0);
            let body = &t[.. e];
            if body.is_empty() {
                return "-".to_string()
            }
            body.trim_start_matches('(')
                .trim_end_matches(')')
                .split("), (")
                .map(|p| p.replace(", ", "."))
                .collect::<Vec<_>>()
                .join(",")
        },
    }
}

fn run(line: &str) -> String {
    let mut d = Dec {
        t: line.split_whitespace().collect(),
        i: 0,
    };
    let tag = match d.tok() {
        Some(t) => t,
        None => return "bad-case".to_string(),
    };
    let (root, k) = match (d.num(), d.num()) {
        (Some(r), Some(k)) => (r, k),
        _ => return "bad-case".to_string(),
    };
    let mut text: Vec<u8> = Vec::new();
    let mut all: Vec<ObjectId> = Vec::new();
    for _ in 0 .. k {
        let (n, g) = match (d.num(), d.num()) {
            (Some(n), Some(g)) => (n, g),
            _ => return "bad-case".to_string(),
        };
        all.push((n, g));
        text.extend_from_slice(format!("{} {} obj\n", n, g).as_bytes());
        if render(&mut d, &mut text).is_none() {
            return "bad-case".to_string()
        }
        text.extend_from_slice(b"\nendobj\n");
    }
    if d.i != d.t.len() {
        return "bad-case".to_string()
    }
    let size = text.len();
    let mut ctxt = PDFObjContext::new(50);
    let mut pb = ParseBuffer::new(text);
    for _ in 0 .. k {
        if parse_pdf_indirect_obj(&mut ctxt, &mut pb).is_err() {
            return "bad-case unparsable".to_string()
        }
    }
    let root_obj: Rc<LocatedVal<PDFObjT>> = match ctxt.lookup_obj((root, 0)) {
        Some(o) => Rc::clone(o),
        None => return "bad-case noroot".to_string(),
    };
    let mut prefix = "";
    if tag == "tc" {
        let mut tctx = TypeCheckContext::new();
        let typ = catalog_type(&mut tctx);
        if check_type(&ctxt, &tctx, Rc::clone(&root_obj), typ).is_some() {
            prefix = "TCREJECT ";
        }
    }
    match to_page_dom(&ctxt, &root_obj) {
        Err(e) => {
            let dbg = format!("{:?}", e.val());
            let variant: String = dbg
                .chars()
                .take_while(|c| c.is_ascii_alphanumeric())
                .collect();
            if e.start() <= e.end() && e.end() <= size {
                format!("{}err {}", prefix, variant)
            } else {
                format!("{}err-badloc {}", prefix, variant)
            }
        },
        Ok((cat, dom)) => {
            let mut out = String::from(prefix);
            let rp = cat.root_page();
            let rs = format!("{:?}", rp);
            out.push_str(&format!(
                "ok R[c={};r={};k={}]",
                dbg_num_after(&rs, "count: ", false),
                ores(rp.resources()),
                dbg_kids_last(&rs)
            ));
            for (id, pk) in dom.pages().iter() {
                match pk {
                    PageKid::Node(n) => {
                        let s = format!("{:?}", n);
                        out.push_str(&format!(
                            " N{}.{}[p={};c={};r={};k={}]",
                            id.0,
                            id.1,
                            dbg_pair_after(&s, "parent: ("),
                            dbg_num_after(&s, "count: ", true),
                            ores(n.resources()),
                            ids(n.kids())
                        ));
                    },
                    PageKid::Leaf(p) => {
                        let s = format!("{:?}", p);
                        let cs: Vec<String> = p
                            .contents()
                            .iter()
                            .map(|c| {
                                for id in all.iter() {
                                    if let Some(o) = ctxt.lookup_obj(*id) {
                                        if Rc::ptr_eq(o, c) {
                                            return format!("{}.{}", id.0, id.1)
                                        }
                                    }
                                }
                                "inline".to_string()
                            })
                            .collect();
                        out.push_str(&format!(
                            " P{}.{}[p={};r={};s={}]",
                            id.0,
                            id.1,
                            dbg_pair_after(&s, "parent: ("),
                            res(p.resources()),
                            if cs.is_empty() { "-".to_string() } else { cs.join(",") }
                        ));
                    },
                }
            }
            let fd: Vec<ObjectId> = dom.font_dicts().keys().cloned().collect();
            let fs: Vec<ObjectId> = dom.font_descrs().keys().cloned().collect();
            out.push_str(&format!(" FD[{}] FS[{}]", ids(&fd), ids(&fs)));
            out
        },
    }
}

use std::sync::atomic::{AtomicBool, AtomicU64, Ordering};
static CASE_NO: AtomicU64 = AtomicU64::new(0);
static BUSY: AtomicBool = AtomicBool::new(false);

extern "C" {
    fn dup(fd: i32) -> i32;
    fn dup2(a: i32, b: i32) -> i32;
}

fn main() {
    use std::os::unix::io::{AsRawFd, FromRawFd};
    let args: Vec<String> = std::env::args().collect();
    if args.len() < 2 || args[1] != "run" {
        eprintln!("usage: run");
        std::process::exit(2);
    }
    // keep the protocol channel, silence the library's println! diagnostics
    let saved = unsafe { dup(1) };
    let devnull = std::fs::OpenOptions::new()
        .write(true)
        .open("/dev/null")
        .unwrap();
    unsafe { dup2(devnull.as_raw_fd(), 1) };
    let mut out = unsafe { std::fs::File::from_raw_fd(saved) };
    std::panic::set_hook(Box::new(|_| {}));
    // watchdog: a case that runs for more than 4 s (a non-terminating DOM construction) kills the
    // process with exit code 3; ./check records crash:3 for exactly that case and goes on
    std::thread::spawn(|| {
        let mut last = 0u64;
        let mut stuck = 0;
        loop {
            std::thread::sleep(std::time::Duration::from_millis(500));
            let cur = CASE_NO.load(Ordering::SeqCst);
            if BUSY.load(Ordering::SeqCst) && cur == last {
                stuck += 1;
                if stuck >= 8 {
                    std::process::exit(3);
                }
            } else {
                stuck = 0;
                last = cur;
            }
        }
    });
    let stdin = std::io::stdin();
    for line in stdin.lock().lines() {
        let line = line.unwrap();
        CASE_NO.fetch_add(1, Ordering::SeqCst);
        BUSY.store(true, Ordering::SeqCst);
        let r = std::panic::catch_unwind(|| run(&line));
        BUSY.store(false, Ordering::SeqCst);
        let s = match r {
            Ok(s) => s,
            Err(e) => {
                let msg = if let Some(s) = e.downcast_ref::<&str>() {
                    s.to_string()
                } else if let Some(s) = e.downcast_ref::<String>() {
                    s.clone()
                } else {
                    "?".to_string()
                };
                format!("panic {}", msg.replace('\n', " ").replace('\t', " "))
            },
        };
        writeln!(out, "{}", s).unwrap();
        out.flush().unwrap();
    }
}
