// C13: runs the REAL cross-reference decoders on the case lines.
//
//   tab <hex> <pos> [description ...]            XrefSectP.parse on ParseBuffer(hex) at cursor pos
//                                                (output: span, cursor, subsections, entries and each entry's start offset)
//   xs  <enc> <dictspec> <hex> <pos> [...]       XrefStreamP::new(enc, stream).parse on ParseBuffer(hex) at pos
//   xz  <mode> <dictspec> <rowshex> [...]        rows are compressed here (zlib, optional PNG-Up predictor),
//                                                /Filter (+ /DecodeParms) are added to the dictionary
//
//   vw  <steps> <prehex> <sufhex> <tab|xs|xz case as above>
//        the same case on a RESTRICTED VIEW: the bytes the parser is to see (tab: <hex>; xs: <hex>; xz: the
//        compressed content) are the WINDOW; <prehex> ++ window ++ <sufhex> is ONE allocation and <steps>
//        (comma-separated, each applied to the result of the previous one) restrict it to the window:
//          R<start>:<size>  RestrictView::new(start, size)      F<start>  RestrictViewFrom::new(start)
//        <size> is a number, or `n` / `n+<k>` with n = the window's length (used by xz, where only the
//        harness knows the compressed length).  The harness checks that the view it obtained shows
//        exactly the window (`view-mismatch` otherwise; `view-error` if a step is refused); the parser then
//        runs on the view exactly as on a plain buffer: <pos>, every span, cursor and entry offset in the
//        output are cursors of the view.
//
// dictspec (no blanks):  D(key=val,...)   val := atom | A(atom,...)
//                        atom := i<int> | n<name> | d<tag> (a dictionary) | z (null) | o (some other object)
// The stream object is built through the crate's public constructors (DictT::new, ArrayT::new,
// StreamT::new, StreamContentT::new); no parser other than the one under test is involved.
use std::collections::BTreeMap;
use std::io::Write;
use std::rc::Rc;

use parsley_rust::pcore::parsebuffer::{LocatedVal, ParseBuffer, ParseBufferT, ParsleyParser};
use parsley_rust::pcore::transforms::{BufferTransformT, RestrictView, RestrictViewFrom};
use parsley_rust::pdf_lib::pdf_file::XrefSectP;
use parsley_rust::pdf_lib::pdf_obj::{ArrayT, DictKey, DictT, PDFObjT, StreamT};
use parsley_rust::pdf_lib::pdf_prim::{IntegerT, NameT, StreamContentT};
use parsley_rust::pdf_lib::pdf_streams::{XrefEntStatus, XrefEntT, XrefStreamP};
use verif_harness::*;

fn show_ent(e: &XrefEntT) -> String {
    match e.status() {
        XrefEntStatus::Free { next } => format!("{}:{}:f:{}", e.obj(), e.gen(), next),
        XrefEntStatus::InUse { file_ofs } => format!("{}:{}:n:{}", e.obj(), e.gen(), file_ofs),
        XrefEntStatus::InStream {
            stream_obj,
            obj_index,
        } => format!("{}:{}:s:{}:{}", e.obj(), e.gen(), stream_obj, obj_index),
    }
}

fn show_ents(es: &[LocatedVal<XrefEntT>]) -> String {
    if es.is_empty() {
        return "-".to_string()
    }
    es.iter().map(|e| show_ent(e.val())).collect::<Vec<_>>().join(",")
}

// ---- dictspec ------------------------------------------------------------------------------

struct Cur<'a> {
    b: &'a [u8],
    i: usize,
}

impl Cur<'_> {
    fn peek(&self) -> Option<u8> { self.b.get(self.i).copied() }
    fn eat(&mut self, c: u8) -> bool {
        if self.peek() == Some(c) {
            self.i += 1;
            true
        } else {
            false
        }
    }
    fn ident(&mut self) -> Vec<u8> {
        let s = self.i;
        while let Some(c) = self.peek() {
            if c.is_ascii_alphanumeric() {
                self.i += 1
            } else {
                break
            }
        }
        self.b[s .. self.i].to_vec()
    }
    fn int(&mut self) -> Option<i64> {
        let s = self.i;
        if self.peek() == Some(b'-') {
            self.i += 1
        }
        while let Some(c) = self.peek() {
            if c.is_ascii_digit() {
                self.i += 1
            } else {
                break
            }
        }
        std::str::from_utf8(&self.b[s .. self.i]).ok()?.parse::<i64>().ok()
    }
}

fn lv(o: PDFObjT) -> Rc<LocatedVal<PDFObjT>> { Rc::new(LocatedVal::new(o, 0, 0)) }

fn int_obj(i: i64) -> Rc<LocatedVal<PDFObjT>> { lv(PDFObjT::Integer(IntegerT::new(i))) }
fn name_obj(n: &[u8]) -> Rc<LocatedVal<PDFObjT>> { lv(PDFObjT::Name(NameT::new(n.to_vec()))) }

// the dictionary a `d<tag>` atom stands for: 1000+c = << /Predictor 12 /Columns c >>, 1 = << /Predictor 1 >>,
// anything else = << >>
fn tagged_dict(tag: usize) -> DictT {
    let mut m = BTreeMap::new();
    if tag >= 1000 {
        m.insert(DictKey::new(b"Predictor".to_vec()), int_obj(12));
        m.insert(DictKey::new(b"Columns".to_vec()), int_obj((tag - 1000) as i64));
    } else if tag == 1 {
        m.insert(DictKey::new(b"Predictor".to_vec()), int_obj(1));
    }
    DictT::new(m)
}

fn atom(c: &mut Cur) -> Option<Rc<LocatedVal<PDFObjT>>> {
    match c.peek()? {
        b'i' => {
            c.i += 1;
            Some(int_obj(c.int()?))
        },
        b'n' => {
            c.i += 1;
            let n = c.ident();
            Some(name_obj(&n))
        },
        b'd' => {
            c.i += 1;
            let t = c.int()?;
            Some(lv(PDFObjT::Dict(tagged_dict(t as usize))))
        },
        b'z' => {
            c.i += 1;
            Some(lv(PDFObjT::Null(())))
        },
        b'o' => {
            c.i += 1;
            Some(lv(PDFObjT::String(b"x".to_vec())))
        },
        _ => None,
    }
}

fn value(c: &mut Cur) -> Option<Rc<LocatedVal<PDFObjT>>> {
    if c.peek() == Some(b'A') {
        c.i += 1;
        if !c.eat(b'(') {
            return None
        }
        let mut v = Vec::new();
        if !c.eat(b')') {
            loop {
                v.push(atom(c)?);
                if c.eat(b')') {
                    break
                }
                if !c.eat(b',') {
                    return None
                }
            }
        }
        Some(lv(PDFObjT::Array(ArrayT::new(v))))
    } else {
        atom(c)
    }
}

fn dictspec(s: &str) -> Option<BTreeMap<DictKey, Rc<LocatedVal<PDFObjT>>>> {
    let mut c = Cur {
        b: s.as_bytes(),
        i: 0,
    };
    if !(c.eat(b'D') && c.eat(b'(')) {
        return None
    }
    let mut m = BTreeMap::new();
    if !c.eat(b')') {
        loop {
            let k = c.ident();
            if k.is_empty() || !c.eat(b'=') {
                return None
            }
            let v = value(&mut c)?;
            if m.insert(DictKey::new(k), v).is_some() {
                return None // duplicate key: not a DictT
            }
            if c.eat(b')') {
                break
            }
            if !c.eat(b',') {
                return None
            }
        }
    }
    if c.i != s.len() {
        return None
    }
    Some(m)
}

fn mk_stream(m: BTreeMap<DictKey, Rc<LocatedVal<PDFObjT>>>, content: &[u8]) -> StreamT {
    let dict = Rc::new(LocatedVal::new(DictT::new(m), 0, 0));
    let sc = StreamContentT::new(0, content.len(), content.to_vec());
    StreamT::new(dict, LocatedVal::new(sc, 0, content.len()))
}

// ---- restricted views ----------------------------------------------------------------------

// (steps, bytes in front of the window, bytes behind it)
type ViewSpec<'a> = Option<(&'a str, Vec<u8>, Vec<u8>)>;

fn size_term(t: &str, n: usize) -> Option<usize> {
    if t == "n" {
        Some(n)
    } else if let Some(k) = t.strip_prefix("n+") {
        k.parse::<usize>().ok().and_then(|k| k.checked_add(n))
    } else {
        t.parse::<usize>().ok()
    }
}

// the buffer the parser under test is given: a plain ParseBuffer over `win`, or the view selected by
// the steps in the allocation pre ++ win ++ suf
fn make_buffer(vs: &ViewSpec, win: Vec<u8>) -> Result<ParseBuffer, String> {
    let (steps, pre, suf) = match vs {
        None => return Ok(ParseBuffer::new(win)),
        Some(v) => v,
    };
    let mut all = pre.clone();
    all.extend_from_slice(&win);
    all.extend_from_slice(suf);
    let mut pb = ParseBuffer::new(all);
    for st in steps.split(',') {
        let r = if let Some(t) = st.strip_prefix('R') {
            let p: Vec<&str> = t.split(':').collect();
            if p.len() != 2 {
                return Err("bad-case".to_string())
            }
            match (p[0].parse::<usize>(), size_term(p[1], win.len())) {
                (Ok(a), Some(b)) => RestrictView::new(a, b).transform(&pb),
                _ => return Err("bad-case".to_string()),
            }
        } else if let Some(t) = st.strip_prefix('F') {
            match t.parse::<usize>() {
                Ok(a) => RestrictViewFrom::new(a).transform(&pb),
                _ => return Err("bad-case".to_string()),
            }
        } else {
            return Err("bad-case".to_string())
        };
        pb = match r {
            Ok(v) => v,
            Err(_) => return Err("view-error".to_string()),
        };
    }
    if pb.get_cursor() != 0 || pb.size() != win.len() || pb.buf() != &win[..] {
        return Err("view-mismatch".to_string())
    }
    Ok(pb)
}

// ---- cases ---------------------------------------------------------------------------------

fn run_tab(w: &[&str], vs: &ViewSpec) -> String {
    if w.len() < 3 {
        return "bad-case".to_string()
    }
    let buf = unhex(w[1]);
    let pos: usize = match w[2].parse() {
        Ok(p) => p,
        Err(_) => return "bad-case".to_string(),
    };
    let mut pb = match make_buffer(vs, buf) {
        Ok(pb) => pb,
        Err(e) => return e,
    };
    if pb.set_cursor(pos).is_err() {
        return "bad-case".to_string()
    }
    let mut p = XrefSectP;
    match p.parse(&mut pb) {
        Ok(v) => {
            let subs: Vec<String> = v
                .val()
                .sects()
                .iter()
                .map(|s| format!("{}+{}", s.val().start(), s.val().count()))
                .collect();
            let ents = v.val().ents();
            let pos: Vec<String> = ents.iter().map(|e| e.start().to_string()).collect();
            format!(
                "ok {} {} {} subs={} ents={} pos={}",
                v.start(),
                v.end(),
                pb.get_cursor(),
                if subs.is_empty() { "-".to_string() } else { subs.join(",") },
                show_ents(&ents),
                if pos.is_empty() { "-".to_string() } else { pos.join(",") }
            )
        },
        Err(e) => format!("err {} {}", errk(e.val()), pb.get_cursor()),
    }
}

fn run_xs(w: &[&str], vs: &ViewSpec) -> String {
    if w.len() < 5 {
        return "bad-case".to_string()
    }
    let enc = w[1] == "1";
    let m = match dictspec(w[2]) {
        Some(m) => m,
        None => return "bad-case".to_string(),
    };
    let content = unhex(w[3]);
    let pos: usize = match w[4].parse() {
        Ok(p) => p,
        Err(_) => return "bad-case".to_string(),
    };
    let stream = mk_stream(m, &content);
    let mut pb = match make_buffer(vs, content) {
        Ok(pb) => pb,
        Err(e) => return e,
    };
    if pb.set_cursor(pos).is_err() {
        return "bad-case".to_string()
    }
    let mut p = XrefStreamP::new(enc, &stream);
    match p.parse(&mut pb) {
        Ok(v) => format!("ok {} ents={}", v.end(), show_ents(v.val().ents())),
        Err(e) => format!("err {}", errk(e.val())),
    }
}

// mode = <p><l>: p in {0: no DecodeParms, 1: /Predictor 1, u: PNG Up (/Predictor 12 /Columns = row width)},
//                l in {0: stored blocks, 6: default compression,
//                      a..g: default compression with the encoder's WINDOW set to 2^9 .. 2^15 bytes (deflateInit2
//                            windowBits 9..15): the zlib header then reads 18 xx, 28 xx, .. 78 xx (RFC 1950 CINFO 1..7),
//                      h: default compression; if the payload has at most 256 bytes (every distance fits the smallest
//                         window) the header is rewritten to 08 99 (CINFO 0, FLEVEL 2, matching FCHECK)}
fn run_xz(w: &[&str], vs: &ViewSpec) -> String {
    if w.len() < 4 || w[1].len() != 2 {
        return "bad-case".to_string()
    }
    let mut m = match dictspec(w[2]) {
        Some(m) => m,
        None => return "bad-case".to_string(),
    };
    let rows = unhex(w[3]);
    let pm = w[1].as_bytes()[0];
    let lvl = if w[1].as_bytes()[1] == b'0' {
        flate2::Compression::none()
    } else {
        flate2::Compression::default()
    };
    // row width from /W (needed for the predictor); the dictionary itself is still read by the real code
    let mut rw = 0usize;
    if let Some(o) = m.get(&DictKey::new(b"W".to_vec())) {
        if let PDFObjT::Array(a) = o.val() {
            for x in a.objs() {
                if let PDFObjT::Integer(i) = x.val() {
                    if i.int_val() > 0 {
                        rw += i.int_val() as usize
                    }
                }
            }
        }
    }
    let payload = if pm == b'u' {
        if rw == 0 || rows.len() % rw != 0 || rows.is_empty() {
            return "bad-case".to_string()
        }
        let mut out = Vec::new();
        let mut prev = vec![0u8; rw];
        for r in rows.chunks(rw) {
            out.push(2u8);
            for (k, b) in r.iter().enumerate() {
                out.push(b.wrapping_sub(prev[k]));
            }
            prev = r.to_vec();
        }
        out
    } else {
        rows.clone()
    };
    let lc = w[1].as_bytes()[1];
    let mut enc = if (b'a' ..= b'g').contains(&lc) {
        let c = flate2::Compress::new_with_window_bits(lvl, true, 9 + (lc - b'a'));
        flate2::write::ZlibEncoder::new_with_compress(Vec::new(), c)
    } else {
        flate2::write::ZlibEncoder::new(Vec::new(), lvl)
    };
    enc.write_all(&payload).unwrap();
    let mut content = enc.finish().unwrap();
    if lc == b'h' && payload.len() <= 256 && content.len() >= 2 && content[0] == 0x78 && content[1] == 0x9c {
        content[0] = 0x08;
        content[1] = 0x99;
    }
    if m.insert(DictKey::new(b"Filter".to_vec()), name_obj(b"FlateDecode")).is_some() {
        return "bad-case".to_string()
    }
    let parms = match pm {
        b'u' => Some(tagged_dict(1000 + rw)),
        b'1' => Some(tagged_dict(1)),
        _ => None,
    };
    if let Some(d) = parms {
        if m.insert(DictKey::new(b"DecodeParms".to_vec()), lv(PDFObjT::Dict(d))).is_some() {
            return "bad-case".to_string()
        }
    }
    let stream = mk_stream(m, &content);
    let mut pb = match make_buffer(vs, content) {
        Ok(pb) => pb,
        Err(e) => return e,
    };
    let mut p = XrefStreamP::new(false, &stream);
    match p.parse(&mut pb) {
        Ok(v) => format!("ok {} ents={}", v.end(), show_ents(v.val().ents())),
        Err(e) => format!("err {}", errk(e.val())),
    }
}

pub fn run(line: &str) -> String {
    let w: Vec<&str> = line.split_whitespace().collect();
    if w.is_empty() {
        return "bad-case".to_string()
    }
    let (w, vs): (&[&str], ViewSpec) = if w[0] == "vw" {
        if w.len() < 5 {
            return "bad-case".to_string()
        }
        (&w[4 ..], Some((w[1], unhex(w[2]), unhex(w[3]))))
    } else {
        (&w[..], None)
    };
    match w[0] {
        "tab" => run_tab(w, &vs),
        "xs" => run_xs(w, &vs),
        "xz" => run_xz(w, &vs),
        _ => "bad-case".to_string(),
    }
}

fn main() {
    main_loop(Harness {
        run,
        gen: None,
        extract: None,
    })
}
