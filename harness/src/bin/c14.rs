// C14: ObjStreamP::new(ctxt, &stream).parse(view) on the real code.
//
// case:  <kind> <class> <maxdepth> <cur> <predef> <dicthex> <viewhex> <dechex> [=> expected]
// The dictionary is given as text and parsed with the crate's DictP; the view is a ParseBuffer
// over <viewhex> with its cursor set to <cur>; <predef> lists ids registered beforehand
// (bound to the integer 7*(id%1000)+gen%7).  <dechex> is for the model only (the real decoders run here).
//
// view variant:  vw <steps> <prehex> <sufhex> <case as above>
//   the bytes <prehex> ++ <viewhex> ++ <sufhex> are ONE allocation; <steps> (comma-separated, applied in order,
//   each to the result of the previous one) restrict it to a view:
//     R<start>:<size>  RestrictView::new(start, size)      F<start>  RestrictViewFrom::new(start)
//   The steps are meant to select the window <viewhex>: the harness checks that the view it obtained shows
//   exactly those bytes (`view-mismatch` otherwise; `view-error` if a step is refused).  ObjStreamP then runs
//   on that view exactly as on a plain buffer: <cur> and the reported cursor are cursors of the view, member
//   spans are relative to the content part (/First) of the (decoded) data as before.
//
// output: ok [id gen start end sexp]... defs id.gen=sexp|none ... cur <cursor> depth <depth>
//         err
use std::rc::Rc;

use parsley_rust::pcore::parsebuffer::{LocatedVal, ParseBuffer, ParseBufferT, ParsleyParser};
use parsley_rust::pcore::transforms::{BufferTransformT, RestrictView, RestrictViewFrom};
use parsley_rust::pdf_lib::pdf_obj::{DictP, IndirectT, PDFObjContext, PDFObjT, StreamT};
use parsley_rust::pdf_lib::pdf_prim::{IntegerT, StreamContentT};
use parsley_rust::pdf_lib::pdf_streams::ObjStreamP;
use verif_harness::objfmt::obj_sexp;
use verif_harness::*;

fn run(line: &str) -> String {
    let head = match line.find(" => ") {
        Some(p) => &line[.. p],
        None => line,
    };
    let w: Vec<&str> = head.split_whitespace().collect();
    let (w, vs): (&[&str], Option<(&str, Vec<u8>, Vec<u8>)>) = if !w.is_empty() && w[0] == "vw" {
        if w.len() < 5 {
            return "bad-case".to_string()
        }
        (&w[4 ..], Some((w[1], unhex(w[2]), unhex(w[3]))))
    } else {
        (&w[..], None)
    };
    if w.len() != 8 {
        return "bad-case".to_string()
    }
    let maxd: usize = match w[2].parse() {
        Ok(d) => d,
        Err(_) => return "bad-case".to_string(),
    };
    let cur: usize = match w[3].parse() {
        Ok(d) => d,
        Err(_) => return "bad-case".to_string(),
    };
    let mut predef: Vec<(usize, usize)> = Vec::new();
    if w[4] != "-" {
        for t in w[4].split(',') {
            let p: Vec<&str> = t.split('.').collect();
            if p.len() == 2 {
                if let (Ok(a), Ok(b)) = (p[0].parse(), p[1].parse()) {
                    predef.push((a, b));
                }
            }
        }
    }
    let dict_bytes = unhex(w[5]);
    let view = unhex(w[6]);

    // the stream dictionary
    let dlen = dict_bytes.len();
    let mut dbuf = ParseBuffer::new(dict_bytes);
    let mut dctxt = PDFObjContext::new(64);
    let dict = match DictP::new(&mut dctxt).parse(&mut dbuf) {
        Ok(d) => d,
        Err(_) => return "bad-dict".to_string(),
    };
    let dict = Rc::new(LocatedVal::new(dict, 0, dlen));
    let content = StreamContentT::new(0, view.len(), view.clone());
    let stream = StreamT::new(dict, LocatedVal::new(content, 0, view.len()));

    // the context
    let mut ctxt = PDFObjContext::new(maxd);
    for (id, gen) in predef.iter() {
        let v = PDFObjT::Integer(IntegerT::new((7 * (id % 1000) + gen % 7) as i64));
        let ind = IndirectT::new(*id, *gen, Rc::new(LocatedVal::new(v, 0, 0)));
        ctxt.register_obj(&LocatedVal::new(ind, 0, 0));
    }

    let mut pb = match vs {
        None => ParseBuffer::new(view),
        Some((steps, pre, suf)) => match restricted(steps, &pre, &view, &suf) {
            Ok(pb) => pb,
            Err(e) => return e,
        },
    };
    if pb.set_cursor(cur).is_err() {
        return "bad-case".to_string()
    }
    let r = {
        let mut osp = ObjStreamP::new(&mut ctxt, &stream);
        osp.parse(&mut pb)
    };
    match r {
        Err(_) => "err".to_string(),
        Ok(ost) => {
            let mut out = String::from("ok ");
            let mut keys: Vec<(usize, usize)> = Vec::new();
            let mut first = true;
            for m in ost.val().objs() {
                let i = m.val();
                if !first {
                    out.push(' ');
                }
                first = false;
                out.push_str(&format!(
                    "[{} {} {} {} {}]",
                    i.num(),
                    i.gen(),
                    m.start(),
                    m.end(),
                    obj_sexp(i.obj().val())
                ));
                if !keys.contains(&(i.num(), i.gen())) {
                    keys.push((i.num(), i.gen()));
                }
            }
            for k in predef.iter() {
                if !keys.contains(k) {
                    keys.push(*k);
                }
            }
            out.push_str(" defs ");
            let mut first = true;
            for k in keys.iter() {
                if !first {
                    out.push(' ');
                }
                first = false;
                let v = match ctxt.lookup_obj(*k) {
                    Some(o) => obj_sexp(o.val()),
                    None => "none".to_string(),
                };
                out.push_str(&format!("{}.{}={}", k.0, k.1, v));
            }
            out.push_str(&format!(" cur {} depth {}", pb.get_cursor(), ctxt.depth()));
            out
        },
    }
}

// the view selected by the steps in the allocation pre ++ win ++ suf
fn restricted(steps: &str, pre: &[u8], win: &[u8], suf: &[u8]) -> Result<ParseBuffer, String> {
    let mut all = pre.to_vec();
    all.extend_from_slice(win);
    all.extend_from_slice(suf);
    let mut pb = ParseBuffer::new(all);
    for st in steps.split(',') {
        let r = if let Some(t) = st.strip_prefix('R') {
            let p: Vec<&str> = t.split(':').collect();
            if p.len() != 2 {
                return Err("bad-case".to_string())
            }
            match (p[0].parse::<usize>(), p[1].parse::<usize>()) {
                (Ok(a), Ok(b)) => RestrictView::new(a, b).transform(&pb),
                _ => return Err("bad-case".to_string()),
            }
        } else if let Some(t) = st.strip_prefix('F') {
            match t.parse::<usize>() {
                Ok(a) => RestrictViewFrom::new(a).transform(&pb),
                _ => return Err("bad-case".to_string()),
            }
        } else {
            return Err("bad-case".to_string())
        };
        pb = match r {
            Ok(v) => v,
            Err(_) => return Err("view-error".to_string()),
        };
    }
    if pb.get_cursor() != 0 || pb.size() != win.len() || pb.buf() != win {
        return Err("view-mismatch".to_string())
    }
    Ok(pb)
}

fn main() {
    main_loop(Harness {
        run,
        gen: None,
        extract: None,
    })
}
