// C15: run one named parser at a cursor; on success re-run it on the reported span alone.
//
// case: `<frame><parser> <hexbuf> <pos>`
//   frame ""                         the parser runs on ParseBuffer::new(buf)
//   frame "@"                        on a restricted view whose window is exactly `buf` inside a larger
//                                    allocation with fixed surroundings
//   frame "v<a>-<b>[,<a2>-<b2>..]@"  CUT WINDOW: `buf` is the whole underlying storage, the parser runs
//                                    on RestrictView(a, b-a) of it (then on RestrictView(a2, b2-a2) of that
//                                    view, ...); `pos` is relative to the innermost window, whose bytes
//                                    are all the specification sees.  The re-parse runs on the view of the
//                                    SAME storage restricted to the reported span.
use parsley_rust::pcore::parsebuffer::{LocatedVal, ParseBuffer, ParseBufferT, ParseResult, ParsleyParser};
use parsley_rust::pcore::prim_ascii::AsciiChar;
use parsley_rust::pcore::prim_binary::*;
use parsley_rust::pcore::prim_combinators::{Alt, Alternate, Not, Sequence, Star};
use parsley_rust::pcore::transforms::{BufferTransformT, RestrictView};
use parsley_rust::pdf_lib::pdf_content_streams::{CSObjP, CSObjT, TextExtractor, TextToken};
use parsley_rust::pdf_lib::pdf_file::{BodyP, HeaderP, StartXrefP, TrailerP, XrefSectP};
use parsley_rust::pdf_lib::pdf_obj::{
    parse_pdf_obj, ArrayT, DictKey, DictT, IndirectP, IndirectT, PDFObjContext, PDFObjT, StreamT,
};
use parsley_rust::pdf_lib::pdf_prim::*;
use parsley_rust::pdf_lib::pdf_streams::{ObjStreamP, XrefEntStatus, XrefEntT, XrefStreamP};
use parsley_rust::rtps_lib::rtps_packet::PacketP;
use parsley_rust::rtps_lib::rtps_prim as rtps;
use std::collections::BTreeMap;
use std::rc::Rc;
use verif_harness::objfmt::dict_sexp;
use verif_harness::objfmt::obj_sexp;
use verif_harness::*;

struct Out {
    ok:     Option<(usize, usize, String)>, // start, end, value
    err:    Option<&'static str>,
    cursor: usize,
}

fn conv<T: PartialEq>(r: ParseResult<LocatedVal<T>>, pb: &ParseBuffer, f: &dyn Fn(&T) -> String) -> Out {
    match r {
        Ok(v) => Out {
            ok:     Some((v.start(), v.end(), f(v.val()))),
            err:    None,
            cursor: pb.get_cursor(),
        },
        Err(e) => Out {
            ok:     None,
            err:    Some(errk(e.val())),
            cursor: pb.get_cursor(),
        },
    }
}

// canonical text of a combinator value: the nested located values with their spans RELATIVE to the
// start of the outer value (so a faithful re-parse of the span prints the same text)
trait Rel {
    fn rel(&self, base: usize) -> String;
}
impl Rel for char {
    fn rel(&self, _: usize) -> String { (*self as u32).to_string() }
}
impl Rel for bool {
    fn rel(&self, _: usize) -> String { self.to_string() }
}
impl Rel for u8 {
    fn rel(&self, _: usize) -> String { self.to_string() }
}
impl Rel for u16 {
    fn rel(&self, _: usize) -> String { self.to_string() }
}
impl Rel for () {
    fn rel(&self, _: usize) -> String { "u".to_string() }
}
impl Rel for IntegerT {
    fn rel(&self, _: usize) -> String { self.int_val().to_string() }
}
impl<T: Rel + PartialEq> Rel for LocatedVal<T> {
    fn rel(&self, base: usize) -> String {
        format!(
            "{}@{}-{}",
            self.val().rel(base),
            self.start() as i64 - base as i64,
            self.end() as i64 - base as i64
        )
    }
}
impl<A: Rel, B: Rel> Rel for (A, B) {
    fn rel(&self, base: usize) -> String { format!("({},{})", self.0.rel(base), self.1.rel(base)) }
}
impl<A: Rel, B: Rel> Rel for Alt<A, B> {
    fn rel(&self, base: usize) -> String {
        match self {
            Alt::Left(a) => format!("L{}", a.rel(base)),
            Alt::Right(b) => format!("R{}", b.rel(base)),
        }
    }
}
impl<A: Rel> Rel for Vec<A> {
    fn rel(&self, base: usize) -> String {
        format!("[{}]", self.iter().map(|a| a.rel(base)).collect::<Vec<_>>().join(";"))
    }
}

impl Rel for PDFObjT {
    fn rel(&self, _: usize) -> String { obj_sexp(self) }
}

// `parse_pdf_obj` (fresh context of depth bound 3 per call) as a ParsleyParser, so that it can be a
// component of the combinators: a hand-written parser of the crate that does NOT put the cursor back
// when it fails - it makes the restores done by the combinators themselves observable
struct ObjP;
impl ParsleyParser for ObjP {
    type T = LocatedVal<PDFObjT>;

    fn parse(&mut self, buf: &mut dyn ParseBufferT) -> ParseResult<Self::T> {
        let mut ctxt = PDFObjContext::new(3);
        parse_pdf_obj(&mut ctxt, buf)
    }
}

fn conv_rel<T: Rel + PartialEq>(r: ParseResult<LocatedVal<T>>, pb: &ParseBuffer) -> Out {
    match r {
        Ok(v) => Out {
            ok:     Some((v.start(), v.end(), v.val().rel(v.start()))),
            err:    None,
            cursor: pb.get_cursor(),
        },
        Err(e) => Out {
            ok:     None,
            err:    Some(errk(e.val())),
            cursor: pb.get_cursor(),
        },
    }
}

fn chr(c: char) -> AsciiChar { AsciiChar::new_guarded(Box::new(move |x: &char| *x == c)) }

// the composites of prim_combinators.rs::test_combined / test_not, two mixed ones over binary and token
// parsers, and two look-ahead ones (lk...)
fn run_cmb(name: &str, pb: &mut ParseBuffer) -> Option<Out> {
    let (mut a, mut b, mut a2, mut b2) = (chr('A'), chr('B'), chr('A'), chr('B'));
    let o = match name {
        "seqAB" => conv_rel(Sequence::new(&mut a, &mut b).parse(pb), pb),
        "altAB" => conv_rel(Alternate::new(&mut a, &mut b).parse(pb), pb),
        "starA" => conv_rel(Star::new(&mut a).parse(pb), pb),
        "starAny" => {
            let mut any = AsciiChar::new();
            conv_rel(Star::new(&mut any).parse(pb), pb)
        },
        "notAltAB" => {
            let mut ab = Alternate::new(&mut a, &mut b);
            conv_rel(Not::new(&mut ab).parse(pb), pb)
        },
        "starSeqAB" => {
            let mut ab = Sequence::new(&mut a, &mut b);
            conv_rel(Star::new(&mut ab).parse(pb), pb)
        },
        "starAltAB" => {
            let mut ab = Alternate::new(&mut a, &mut b);
            conv_rel(Star::new(&mut ab).parse(pb), pb)
        },
        "seqStarAStarB" => {
            let mut sa = Star::new(&mut a);
            let mut sb = Star::new(&mut b);
            conv_rel(Sequence::new(&mut sa, &mut sb).parse(pb), pb)
        },
        "altStarAStarB" => {
            let mut sa = Star::new(&mut a);
            let mut sb = Star::new(&mut b);
            conv_rel(Alternate::new(&mut sa, &mut sb).parse(pb), pb)
        },
        "altSeqABSeqBA" => {
            let mut ab = Sequence::new(&mut a, &mut b);
            let mut ba = Sequence::new(&mut b2, &mut a2);
            conv_rel(Alternate::new(&mut ab, &mut ba).parse(pb), pb)
        },
        "seqAltABAltBA" => {
            let mut ab = Alternate::new(&mut a, &mut b);
            let mut ba = Alternate::new(&mut b2, &mut a2);
            conv_rel(Sequence::new(&mut ab, &mut ba).parse(pb), pb)
        },
        "starU16Bv2" => {
            let mut u = UInt16P::new(Endian::Big);
            let mut v = ByteVecP::new(2);
            let mut rec = Sequence::new(&mut u, &mut v);
            conv_rel(Star::new(&mut rec).parse(pb), pb)
        },
        "seqIntWsn1" => {
            let mut i = IntegerP;
            let mut w = WhitespaceNoEOL::new(true);
            conv_rel(Sequence::new(&mut i, &mut w).parse(pb), pb)
        },
        "lkAltObjAny" => {
            let mut o = ObjP;
            let mut any = AsciiChar::new();
            conv_rel(Alternate::new(&mut o, &mut any).parse(pb), pb)
        },
        "seqObjA" => {
            let mut o = ObjP;
            conv_rel(Sequence::new(&mut o, &mut a).parse(pb), pb)
        },
        "seqAObj" => {
            let mut o = ObjP;
            conv_rel(Sequence::new(&mut a, &mut o).parse(pb), pb)
        },
        "notObj" => {
            let mut o = ObjP;
            conv_rel(Not::new(&mut o).parse(pb), pb)
        },
        "starObj" => {
            let mut o = ObjP;
            conv_rel(Star::new(&mut o).parse(pb), pb)
        },
        "lkNotNotB" => {
            let mut nb = Not::new(&mut b);
            conv_rel(Not::new(&mut nb).parse(pb), pb)
        },
        "lkAltSeqANotBA" => {
            let mut nb = Not::new(&mut b);
            let mut anb = Sequence::new(&mut a, &mut nb);
            conv_rel(Alternate::new(&mut anb, &mut a2).parse(pb), pb)
        },
        // composites over the tag matcher and the keyword parsers (all built on ParseBuffer::exact)
        "altMabMba" => {
            let mut ab = BinaryMatcher::new(b"AB");
            let mut ba = BinaryMatcher::new(b"BA");
            conv_rel(Alternate::new(&mut ab, &mut ba).parse(pb), pb)
        },
        "seqMabMba" => {
            let mut ab = BinaryMatcher::new(b"AB");
            let mut ba = BinaryMatcher::new(b"BA");
            conv_rel(Sequence::new(&mut ab, &mut ba).parse(pb), pb)
        },
        "notMab" => {
            let mut ab = BinaryMatcher::new(b"AB");
            conv_rel(Not::new(&mut ab).parse(pb), pb)
        },
        "starMab" => {
            let mut ab = BinaryMatcher::new(b"AB");
            conv_rel(Star::new(&mut ab).parse(pb), pb)
        },
        "altBoolNull" => {
            let (mut t, mut n) = (Boolean, Null);
            conv_rel(Alternate::new(&mut t, &mut n).parse(pb), pb)
        },
        "seqBoolNull" => {
            let (mut t, mut n) = (Boolean, Null);
            conv_rel(Sequence::new(&mut t, &mut n).parse(pb), pb)
        },
        "notBool" => {
            let mut t = Boolean;
            conv_rel(Not::new(&mut t).parse(pb), pb)
        },
        "starAltBoolNull" => {
            let (mut t, mut n) = (Boolean, Null);
            let mut tn = Alternate::new(&mut t, &mut n);
            conv_rel(Star::new(&mut tn).parse(pb), pb)
        },
        _ => return None,
    };
    Some(o)
}


// ---------------------------------------------------------------------------------------------
// the remaining ParsleyParser implementors (pdf_file.rs, IndirectP, the stream parsers, the
// content-stream object parser and text extractor, rtps_lib).  Values are printed with their nested
// located parts RE-BASED to the start of the outer value (`<part>@<start-base>-<end-base>`), so that a
// faithful re-parse of the reported span prints the same text.

fn relp(x: usize, base: usize) -> i64 { x as i64 - base as i64 }

// an object whose stream content carries an absolute offset: printed relative to `base`
fn rel_obj(o: &PDFObjT, base: usize) -> String {
    match o {
        PDFObjT::Stream(s) => {
            let mut out = String::from("(stream ");
            dict_sexp(s.dict().val(), &mut out);
            let c = s.stream().val();
            out.push_str(&format!(" {} {} {})", relp(c.start(), base), c.size(), hex(c.content())));
            out
        },
        _ => obj_sexp(o),
    }
}

fn show_ind(v: &LocatedVal<IndirectT>, base: usize) -> String {
    let o = v.val().obj();
    format!(
        "{} {} {}@{}-{}",
        v.val().num(),
        v.val().gen(),
        rel_obj(o.val(), base),
        relp(o.start(), base),
        relp(o.end(), base)
    )
}

fn show_xent(e: &XrefEntT) -> String {
    match e.status() {
        XrefEntStatus::Free { next } => format!("{}:{}:f:{}", e.obj(), e.gen(), next),
        XrefEntStatus::InUse { file_ofs } => format!("{}:{}:n:{}", e.obj(), e.gen(), file_ofs),
        XrefEntStatus::InStream {
            stream_obj,
            obj_index,
        } => format!("{}:{}:s:{}:{}", e.obj(), e.gen(), stream_obj, obj_index),
    }
}

fn show_xents(es: &[LocatedVal<XrefEntT>], base: usize) -> String {
    if es.is_empty() {
        return "-".to_string()
    }
    es.iter()
        .map(|e| format!("{}@{}-{}", show_xent(e.val()), relp(e.start(), base), relp(e.end(), base)))
        .collect::<Vec<_>>()
        .join(",")
}

fn lvo(o: PDFObjT) -> Rc<LocatedVal<PDFObjT>> { Rc::new(LocatedVal::new(o, 0, 0)) }
fn int_obj(i: usize) -> Rc<LocatedVal<PDFObjT>> { lvo(PDFObjT::Integer(IntegerT::new(i as i64))) }
fn name_obj(n: &[u8]) -> Rc<LocatedVal<PDFObjT>> { lvo(PDFObjT::Name(NameT::new(n.to_vec()))) }

// a stream object with the given dictionary, built through the crate's public constructors; its own
// content is not what the stream parsers read (they parse the buffer they are given)
fn mk_stream(m: BTreeMap<DictKey, Rc<LocatedVal<PDFObjT>>>) -> StreamT {
    let dict = Rc::new(LocatedVal::new(DictT::new(m), 0, 0));
    let sc = StreamContentT::new(0, 0, Vec::new());
    StreamT::new(dict, LocatedVal::new(sc, 0, 0))
}

// the numbers and brackets of a derived Debug rendering (the rtps value types keep their fields
// private; field names are dropped): tokens joined by ','
fn dbg_digest(s: &str) -> String {
    let b = s.as_bytes();
    let mut v: Vec<String> = Vec::new();
    let mut i = 0;
    while i < b.len() {
        let c = b[i];
        if c == b'[' || c == b']' {
            v.push((c as char).to_string());
            i += 1
        } else if c.is_ascii_digit() && (i == 0 || !(b[i - 1].is_ascii_alphanumeric() || b[i - 1] == b'_')) {
            let st = i;
            while i < b.len() && b[i].is_ascii_digit() {
                i += 1
            }
            v.push(s[st .. i].to_string())
        } else {
            i += 1
        }
    }
    v.join(",")
}

fn conv_dbg<T: PartialEq + std::fmt::Debug>(r: ParseResult<LocatedVal<T>>, pb: &ParseBuffer) -> Out {
    conv(r, pb, &|v: &T| dbg_digest(&format!("{:?}", v)))
}

fn cs_digest(o: &CSObjT) -> String {
    match o {
        CSObjT::Op(n) => format!("(op {})", hex(n.as_bytes())),
        CSObjT::Array(a) => arr_sexp(a),
        CSObjT::Dict(d) => {
            let mut out = String::new();
            dict_sexp(d, &mut out);
            out
        },
        CSObjT::Boolean(b) => b.to_string(),
        CSObjT::String(v) => format!("(str {})", hex(v)),
        CSObjT::Name(n) => format!("(name {})", hex(n.val())),
        CSObjT::Null(_) => "null".to_string(),
        CSObjT::Comment(c) => format!("(comment {})", hex(c)),
        CSObjT::Integer(i) => format!("(int {})", i.int_val()),
        CSObjT::Real(r) => {
            let s = format!("{:?}", r);
            let inner = s.trim_start_matches("RealT(").trim_end_matches(')').to_string();
            let parts: Vec<&str> = inner.split(", ").collect();
            format!("(real {} {})", parts[0], parts[1])
        },
    }
}

fn arr_sexp(a: &ArrayT) -> String {
    let mut out = String::from("(arr");
    for e in a.objs() {
        out.push(' ');
        out.push_str(&obj_sexp(e.val()));
    }
    out.push(')');
    out
}

// one member of an object stream re-parsed alone: k = equal value consuming the span, d = differs,
// p = partial, f = fails, r = span outside the content
fn member_flag(content: &[u8], s: usize, e: usize, d: usize, want: &str) -> char {
    if !(s <= e && e <= content.len()) {
        return 'r'
    }
    let mut pb = ParseBuffer::new(content[s .. e].to_vec());
    let mut ctxt = PDFObjContext::new(d);
    match parse_pdf_obj(&mut ctxt, &mut pb) {
        Ok(v) => {
            if v.start() != 0 || v.end() != e - s || pb.get_cursor() != e - s {
                'p'
            } else if obj_sexp(v.val()) != want {
                'd'
            } else {
                'k'
            }
        },
        Err(_) => 'f',
    }
}

fn run_file_parser(parts: &[&str], pb: &mut ParseBuffer, window: &[u8]) -> Option<Out> {
    let usz = |k: usize| -> Option<usize> { parts.get(k)?.parse().ok() };
    let o = match parts[0] {
        // pdf_file.rs
        "fhdr" => {
            let r = HeaderP.parse(pb);
            match r {
                Ok(v) => {
                    let b = v.start();
                    let ver = v.val().version();
                    let bin = match v.val().binary() {
                        Some(x) => format!("{}@{}-{}", hex(x.val()), relp(x.start(), b), relp(x.end(), b)),
                        None => "none".to_string(),
                    };
                    let val = format!("{}@{}-{} {}", hex(ver.val()), relp(ver.start(), b), relp(ver.end(), b), bin);
                    Out { ok: Some((v.start(), v.end(), val)), err: None, cursor: pb.get_cursor() }
                },
                Err(e) => Out { ok: None, err: Some(errk(e.val())), cursor: pb.get_cursor() },
            }
        },
        "sxref" => {
            let r = StartXrefP.parse(pb);
            match r {
                Ok(v) => Out { ok: Some((v.start(), v.end(), v.val().offset().to_string())), err: None, cursor: pb.get_cursor() },
                Err(e) => Out { ok: None, err: Some(errk(e.val())), cursor: pb.get_cursor() },
            }
        },
        "trailer" => {
            let mut ctxt = PDFObjContext::new(usz(1)?);
            let r = TrailerP::new(&mut ctxt).parse(pb);
            match r {
                Ok(v) => {
                    let mut val = String::new();
                    dict_sexp(v.val().dict(), &mut val);
                    Out { ok: Some((v.start(), v.end(), val)), err: None, cursor: pb.get_cursor() }
                },
                Err(e) => Out { ok: None, err: Some(errk(e.val())), cursor: pb.get_cursor() },
            }
        },
        "xsect" => {
            let r = XrefSectP.parse(pb);
            match r {
                Ok(v) => {
                    let b = v.start();
                    let subs: Vec<String> = v
                        .val()
                        .sects()
                        .iter()
                        .map(|s| {
                            format!(
                                "{}+{}@{}-{}[{}]",
                                s.val().start(),
                                s.val().count(),
                                relp(s.start(), b),
                                relp(s.end(), b),
                                show_xents(s.val().ents(), b)
                            )
                        })
                        .collect();
                    let val = if subs.is_empty() { "-".to_string() } else { subs.join(";") };
                    Out { ok: Some((v.start(), v.end(), val)), err: None, cursor: pb.get_cursor() }
                },
                Err(e) => Out { ok: None, err: Some(errk(e.val())), cursor: pb.get_cursor() },
            }
        },
        "ind" => {
            let mut ctxt = PDFObjContext::new(usz(1)?);
            let r = IndirectP::new(&mut ctxt).parse(pb);
            match r {
                Ok(v) => Out { ok: Some((v.start(), v.end(), show_ind(&v, v.start()))), err: None, cursor: pb.get_cursor() },
                Err(e) => Out { ok: None, err: Some(errk(e.val())), cursor: pb.get_cursor() },
            }
        },
        "body" => {
            let mut ctxt = PDFObjContext::new(usz(1)?);
            let r = BodyP::new(&mut ctxt).parse(pb);
            match r {
                Ok(v) => {
                    let b = v.start();
                    let objs: Vec<String> = v
                        .val()
                        .objs()
                        .iter()
                        .map(|o| format!("{{{}}}@{}-{}", show_ind(o, b), relp(o.start(), b), relp(o.end(), b)))
                        .collect();
                    let val = if objs.is_empty() { "-".to_string() } else { objs.join(" ") };
                    Out { ok: Some((v.start(), v.end(), val)), err: None, cursor: pb.get_cursor() }
                },
                Err(e) => Out { ok: None, err: Some(errk(e.val())), cursor: pb.get_cursor() },
            }
        },
        // pdf_streams.rs: the buffer is the decoded stream content (no /Filter in the dictionary)
        "os" => {
            let (d, n, first) = (usz(1)?, usz(2)?, usz(3)?);
            let mut m = BTreeMap::new();
            m.insert(DictKey::new(b"Type".to_vec()), name_obj(b"ObjStm"));
            m.insert(DictKey::new(b"N".to_vec()), int_obj(n));
            m.insert(DictKey::new(b"First".to_vec()), int_obj(first));
            let stream = mk_stream(m);
            let mut ctxt = PDFObjContext::new(d);
            let r = ObjStreamP::new(&mut ctxt, &stream).parse(pb);
            match r {
                Ok(v) => {
                    let content: &[u8] = if first <= window.len() { &window[first ..] } else { &[] };
                    let mut flags = String::new();
                    let mut ms: Vec<String> = Vec::new();
                    for mbr in v.val().objs() {
                        let sx = obj_sexp(mbr.val().obj().val());
                        flags.push(member_flag(content, mbr.start(), mbr.end(), d, &sx));
                        ms.push(format!("{{{} {}}}@{}-{}", mbr.val().num(), sx, mbr.start(), mbr.end()));
                    }
                    let val = format!(
                        "{} parts={}",
                        if ms.is_empty() { "-".to_string() } else { ms.join(" ") },
                        if flags.is_empty() { "-".to_string() } else { flags }
                    );
                    Out { ok: Some((v.start(), v.end(), val)), err: None, cursor: pb.get_cursor() }
                },
                Err(e) => Out { ok: None, err: Some(errk(e.val())), cursor: pb.get_cursor() },
            }
        },
        // `xsh`: the same behind /Filter /ASCIIHexDecode - the buffer is the ENCODED content; the entries are
        // located in the decoded buffer (printed with base 0)
        "xs" | "xsh" => {
            let hexf = parts[0] == "xsh";
            let (w0, w1, w2, size) = (usz(1)?, usz(2)?, usz(3)?, usz(4)?);
            let mut m = BTreeMap::new();
            m.insert(DictKey::new(b"Type".to_vec()), name_obj(b"XRef"));
            m.insert(DictKey::new(b"Size".to_vec()), int_obj(size));
            let w = vec![int_obj(w0), int_obj(w1), int_obj(w2)];
            m.insert(DictKey::new(b"W".to_vec()), lvo(PDFObjT::Array(ArrayT::new(w))));
            if let Some(ix) = parts.get(5) {
                let ix = ix.strip_prefix('I')?;
                let mut v = Vec::new();
                for t in ix.split('.') {
                    v.push(int_obj(t.parse().ok()?));
                }
                m.insert(DictKey::new(b"Index".to_vec()), lvo(PDFObjT::Array(ArrayT::new(v))));
            }
            if hexf {
                m.insert(DictKey::new(b"Filter".to_vec()), name_obj(b"ASCIIHexDecode"));
            }
            let stream = mk_stream(m);
            let r = XrefStreamP::new(false, &stream).parse(pb);
            match r {
                Ok(v) => {
                    let base = if hexf { 0 } else { v.start() };
                    Out { ok: Some((v.start(), v.end(), show_xents(v.val().ents(), base))), err: None, cursor: pb.get_cursor() }
                },
                Err(e) => Out { ok: None, err: Some(errk(e.val())), cursor: pb.get_cursor() },
            }
        },
        // pdf_content_streams.rs
        "cs" => {
            let mut ctxt = PDFObjContext::new(usz(1)?);
            let r = CSObjP::new(&mut ctxt).parse(pb);
            conv(r, pb, &|o: &CSObjT| cs_digest(o))
        },
        "te" => {
            let mut ctxt = PDFObjContext::new(usz(1)?);
            let r = TextExtractor::new(&mut ctxt, &(0, 0)).parse(pb);
            conv(r, pb, &|ts: &Vec<TextToken>| {
                if ts.is_empty() {
                    return "-".to_string()
                }
                ts.iter()
                    .map(|t| match t {
                        TextToken::Space => "S".to_string(),
                        TextToken::RawText(v) => format!("T{}", hex(v)),
                    })
                    .collect::<Vec<_>>()
                    .join(",")
            })
        },
        // rtps_lib
        "rpv" => conv_dbg(rtps::ProtocolVersionP.parse(pb), pb),
        "rvid" => conv_dbg(rtps::VendorIdP.parse(pb), pb),
        "rgp" => conv_dbg(rtps::GuidPrefixP.parse(pb), pb),
        "rhdr" => conv_dbg(rtps::HeaderP.parse(pb), pb),
        "rsmh" => conv_dbg(rtps::SubMessageHeaderP.parse(pb), pb),
        "rsm" => conv_dbg(rtps::SubMessageP.parse(pb), pb),
        "rpkt" => conv_dbg(PacketP.parse(pb), pb),
        _ => return None,
    };
    Some(o)
}

const FILE_PARSERS: [&str; 18] = [
    "fhdr", "sxref", "trailer", "xsect", "ind", "body", "os", "xs", "xsh", "cs", "te", "rpv", "rvid", "rgp", "rhdr", "rsmh",
    "rsm", "rpkt",
];

fn endian(p: &str) -> Endian { if p.ends_with("le") { Endian::Little } else { Endian::Big } }

// where the parser runs
enum Frame {
    Whole,                     // ParseBuffer::new(bytes)
    Framed,                    // fixed surroundings, window = bytes
    Win(Vec<(usize, usize)>),  // nested windows (start, end) of the storage `bytes`, each relative to the previous
}

// `<frame><parser>` -> (frame, bare parser name)
fn split_frame(p: &str) -> Option<(Frame, &str)> {
    match p.find('@') {
        None => Some((Frame::Whole, p)),
        Some(0) => Some((Frame::Framed, &p[1 ..])),
        Some(k) => {
            let spec = p[.. k].strip_prefix('v')?;
            let mut ws = Vec::new();
            for w in spec.split(',') {
                let (a, b) = w.split_once('-')?;
                ws.push((a.parse().ok()?, b.parse().ok()?));
            }
            Some((Frame::Win(ws), &p[k + 1 ..]))
        },
    }
}

// absolute (start, end) of the innermost window in the storage; None = not a chain of windows
fn innermost(ws: &[(usize, usize)], size: usize) -> Option<(usize, usize)> {
    let (mut lo, mut hi) = (0, size);
    for &(a, b) in ws {
        if !(a <= b && b <= hi - lo) {
            return None
        }
        hi = lo + b;
        lo += a;
    }
    Some((lo, hi))
}

fn make_buffer(frame: &Frame, buf: &[u8]) -> Option<ParseBuffer> {
    match frame {
        Frame::Whole => Some(ParseBuffer::new(buf.to_vec())),
        // a RESTRICTED VIEW whose window is exactly `buf` inside a larger allocation (by C17 a view
        // behaves like a copy of its window: same expected output)
        Frame::Framed => {
            let mut big = vec![0x28u8, 0x25, 0x3c, 0x31];
            big.extend_from_slice(buf);
            big.extend_from_slice(&[0x39, 0x29, 0x3e]);
            let parent = ParseBuffer::new(big);
            RestrictView::new(4, buf.len()).transform(&parent).ok()
        },
        // views of views of the storage, built the way the crate builds them
        Frame::Win(ws) => {
            innermost(ws, buf.len())?;
            let mut pb = ParseBuffer::new(buf.to_vec());
            for &(a, b) in ws {
                pb = RestrictView::new(a, b - a).transform(&pb).ok()?;
            }
            Some(pb)
        },
    }
}

fn run_parser(p: &str, frame: &Frame, buf: &[u8], pos: usize) -> Option<Out> {
    let mut pb = make_buffer(frame, buf)?;
    let window: Vec<u8> = pb.buf().to_vec(); // cursor 0: all bytes of the (innermost) window
    if pb.set_cursor(pos).is_err() {
        return None
    }
    let unit = |_: &()| "unit".to_string();
    let hx = |v: &Vec<u8>| hex(v);
    let parts: Vec<&str> = p.split(':').collect();
    if FILE_PARSERS.contains(&parts[0]) {
        return run_file_parser(&parts, &mut pb, &window)
    }
    let o = match parts[0] {
        "wsn0" => conv(WhitespaceNoEOL::new(false).parse(&mut pb), &pb, &unit),
        "wsn1" => conv(WhitespaceNoEOL::new(true).parse(&mut pb), &pb, &unit),
        "wse0" => conv(WhitespaceEOL::new(false).parse(&mut pb), &pb, &unit),
        "wse1" => conv(WhitespaceEOL::new(true).parse(&mut pb), &pb, &unit),
        "comment" => conv(Comment.parse(&mut pb), &pb, &hx),
        "bool" => conv(Boolean.parse(&mut pb), &pb, &|b: &bool| b.to_string()),
        "null" => conv(Null.parse(&mut pb), &pb, &unit),
        "int" => conv(IntegerP.parse(&mut pb), &pb, &|i: &IntegerT| i.int_val().to_string()),
        "real" => conv(RealP.parse(&mut pb), &pb, &|r: &RealT| {
            let s = format!("{:?}", r);
            let inner = s.trim_start_matches("RealT(").trim_end_matches(')').to_string();
            let parts: Vec<&str> = inner.split(", ").collect();
            format!("{}/{}", parts[0], parts[1])
        }),
        "hex" => conv(HexString.parse(&mut pb), &pb, &hx),
        "lit" => conv(RawLiteralString.parse(&mut pb), &pb, &hx),
        "name" => conv(NameP.parse(&mut pb), &pb, &|n: &NameT| hex(n.val())),
        "op" => conv(OperatorP.parse(&mut pb), &pb, &|o: &OperatorT| hex(o.name().as_bytes())),
        "sc" => {
            let len: usize = parts[1].parse().ok()?;
            conv(
                StreamContentP::new(len, parts[2] == "1").parse(&mut pb),
                &pb,
                &|c: &StreamContentT| format!("{} {} {}", c.start(), c.size(), hex(c.content())),
            )
        },
        "obj" => {
            let d: usize = parts[1].parse().ok()?;
            let mut ctxt = PDFObjContext::new(d);
            let r = parse_pdf_obj(&mut ctxt, &mut pb);
            conv(r, &pb, &|o| obj_sexp(o))
        },
        "u8" => conv(UInt8P.parse(&mut pb), &pb, &|v: &u8| v.to_string()),
        "u16be" | "u16le" => conv(UInt16P::new(endian(p)).parse(&mut pb), &pb, &|v: &u16| v.to_string()),
        "u32be" | "u32le" => conv(UInt32P::new(endian(p)).parse(&mut pb), &pb, &|v: &u32| v.to_string()),
        "u64be" | "u64le" => conv(UInt64P::new(endian(p)).parse(&mut pb), &pb, &|v: &u64| v.to_string()),
        "i8" => conv(Int8P.parse(&mut pb), &pb, &|v: &i8| v.to_string()),
        "i32be" | "i32le" => conv(Int32P::new(endian(p)).parse(&mut pb), &pb, &|v: &i32| v.to_string()),
        "chr" => {
            let mut c = if parts[1] == "A" { chr('A') } else { AsciiChar::new() };
            conv_rel(c.parse(&mut pb), &pb)
        },
        "cmb" => return run_cmb(parts[1], &mut pb),
        "i16be" | "i16le" => conv(Int16P::new(endian(p)).parse(&mut pb), &pb, &|v: &i16| v.to_string()),
        "i64be" | "i64le" => conv(Int64P::new(endian(p)).parse(&mut pb), &pb, &|v: &i64| v.to_string()),
        "bv" => {
            let n: usize = parts[1].parse().ok()?;
            conv(ByteVecP::new(n).parse(&mut pb), &pb, &hx)
        },
        "match" => conv(BinaryMatcher::new(&unhex(parts[1])).parse(&mut pb), &pb, &|b: &bool| b.to_string()),
        "scan" => conv(BinaryScanner::new(&unhex(parts[1])).parse(&mut pb), &pb, &|n: &usize| n.to_string()),
        _ => return None,
    };
    Some(o)
}

fn show(p: &str, o: &Out) -> String {
    match (&o.ok, o.err) {
        (Some((s, e, v)), _) => format!("ok {} {} {} {}", s, e, o.cursor, v),
        (None, Some(k)) => {
            if p.starts_with("obj:") || p.starts_with("os:") || p.starts_with("te:") || p.starts_with("xsh:") {
                format!("err {}", k)
            } else {
                format!("err {} {}", k, o.cursor)
            }
        },
        _ => "bad".to_string(),
    }
}

fn run(line: &str) -> String {
    let w: Vec<&str> = line.split_whitespace().collect();
    if w.len() != 3 {
        return "bad-case".to_string()
    }
    let buf = unhex(w[1]);
    let pos: usize = match w[2].parse() {
        Ok(p) => p,
        Err(_) => return "bad-case".to_string(),
    };
    let (frame, p) = match split_frame(w[0]) {
        Some(x) => x,
        None => return "bad-case".to_string(),
    };
    // the bytes the specification sees, as (lo, hi) in `buf`
    let (lo, hi) = match &frame {
        Frame::Win(ws) => match innermost(ws, buf.len()) {
            Some(x) => x,
            None => return "bad-case".to_string(),
        },
        _ => (0, buf.len()),
    };
    let o = match run_parser(p, &frame, &buf, pos) {
        Some(o) => o,
        None => return "bad-case".to_string(),
    };
    let first = show(p, &o);
    if let Some((s, e, _)) = &o.ok {
        if *s <= *e && *e <= hi - lo {
            let re = match &frame {
                // cut window: the span as a view of the same storage (what follows it stays behind the view)
                Frame::Win(_) => {
                    let f = Frame::Win(vec![(lo + *s, lo + *e)]);
                    std::panic::catch_unwind(|| run_parser(p, &f, &buf, 0))
                },
                _ => {
                    let span = &buf[*s .. *e];
                    std::panic::catch_unwind(|| run_parser(p, &frame, span, 0))
                },
            };
            let re = match re {
                Ok(Some(o2)) => show(p, &o2),
                Ok(None) => return "bad-case".to_string(),
                Err(_) => "panic reparse".to_string(),
            };
            return format!("{} | re {}", first, re)
        }
    }
    first
}

fn main() {
    main_loop(Harness {
        run,
        gen: None,
        extract: None,
    })
}
