// C16: parse_pdf_obj under a depth bound; reports the context's depth after the call, from a fresh context, from a
// context whose depth is already k0 (`at`), and over several parses on one context (`seq`).  `ind` cases / steps wrap
// the input as the body of an indirect object and run parse_pdf_indirect_obj on the same context instead.
// `ctx` / `cseq`: SEVERAL contexts alive on the case's thread (or one on another thread), see run_ctx / run_cseq.
// Every case runs on a thread with a FIXED 1 MiB stack (what a worker thread of a user of the crate would
// have), so that the verdict on wide / long inputs does not depend on the 8 MiB of the main thread: stack use
// that grows with the WIDTH or LENGTH of the input (instead of the nesting bound d) overflows it and kills
// the process (`crash:<rc>` in ./check).
use parsley_rust::pcore::parsebuffer::{ParseBuffer, ParseBufferT};
use parsley_rust::pdf_lib::pdf_obj::{parse_pdf_indirect_obj, parse_pdf_obj, DictT, PDFObjContext, PDFObjT};
use verif_harness::objfmt::obj_sexp;
use verif_harness::*;

const STACK: usize = 1 << 20;
const M: u64 = 1_000_000_007;

// ---- digest of a value: must equal Dg / dgObj of lean/Driver/C16.lean
struct Dg {
    nodes: u64,
    depth: u64,
    width: u64,
    chk:   u64,
}
fn kh(bs: &[u8]) -> u64 {
    let mut h = (bs.len() as u64) % M;
    for b in bs {
        h = (h * 31 + *b as u64) % M;
    }
    h
}
fn scalar(c: u64) -> Dg { Dg { nodes: 1, depth: 1, width: 0, chk: c % M } }
fn abs_mod(s: &str) -> u64 {
    // |n| mod M of a decimal i128 literal
    let v: i128 = s.trim().parse().unwrap();
    (v.unsigned_abs() % (M as u128)) as u64
}
fn digest_dict(d: &DictT) -> Dg {
    let (mut n, mut k, mut w, mut h, mut c) = (0u64, 0u64, 0u64, 29u64, 0u64);
    for (key, v) in d.map().iter() {
        let x = digest(v.val());
        n += x.nodes;
        k = k.max(x.depth);
        w = w.max(x.width);
        h = (((h * 31 + kh(key.as_slice())) % M) * 31 + x.chk) % M;
        c += 1;
    }
    Dg { nodes: 1 + n, depth: 1 + k, width: w.max(c), chk: h }
}
fn digest(o: &PDFObjT) -> Dg {
    match o {
        PDFObjT::Null(_) => scalar(1),
        PDFObjT::Boolean(b) => scalar(if *b { 3 } else { 2 }),
        PDFObjT::Integer(i) => scalar(5 + (i.int_val().unsigned_abs() % M)),
        PDFObjT::Real(r) => {
            // RealT's fields are private: its derived Debug prints `RealT(n, d)`
            let s = format!("{:?}", r);
            let inner = s.trim_start_matches("RealT(").trim_end_matches(')');
            let parts: Vec<&str> = inner.split(", ").collect();
            scalar(7 + abs_mod(parts[0]) + 3 * abs_mod(parts[1]))
        },
        PDFObjT::String(v) => scalar(11 + kh(v)),
        PDFObjT::Name(n) => scalar(13 + kh(n.val())),
        PDFObjT::Reference(r) => scalar(17 + (r.num() as u64 % M) + 3 * (r.gen() as u64 % M)),
        PDFObjT::Comment(c) => scalar(19 + kh(c)),
        PDFObjT::Array(a) => {
            let (mut n, mut k, mut w, mut h, mut c) = (0u64, 0u64, 0u64, 23u64, 0u64);
            for e in a.objs() {
                let x = digest(e.val());
                n += x.nodes;
                k = k.max(x.depth);
                w = w.max(x.width);
                h = (h * 31 + x.chk) % M;
                c += 1;
            }
            Dg { nodes: 1 + n, depth: 1 + k, width: w.max(c), chk: h }
        },
        PDFObjT::Dict(d) => digest_dict(d),
        PDFObjT::Stream(_) => scalar(31),
    }
}

// ---- the texts of the `wide` / `run` profiles: must equal wideLeaf / runLeaf / Big.bytes of lean/Driver/C16.lean
fn rep(out: &mut Vec<u8>, n: usize, u: &[u8]) {
    out.reserve(n * u.len());
    for _ in 0 .. n {
        out.extend_from_slice(u);
    }
}
fn elem_text(e: &str) -> Option<&'static [u8]> {
    Some(match e {
        "int" => b"7",
        "null" => b"null",
        "bool" => b"true",
        "real" => b"1.5",
        "name" => b"/N",
        "str" => b"(a)",
        "hex" => b"<41>",
        "ref" => b"1 0 R",
        "earr" => b"[]",
        "edict" => b"<<>>",
        "arr1" => b"[7]",
        "dict1" => b"<</K 7>>",
        _ => return None,
    })
}
fn wide_leaf(out: &mut Vec<u8>, n: usize, shape: &str, elem: &str, tail: &str) -> Option<()> {
    let et = elem_text(elem)?;
    match shape {
        "arr" => {
            out.push(b'[');
            let mut u = et.to_vec();
            u.push(b' ');
            rep(out, n, &u);
            if tail == "deep" {
                out.extend_from_slice(b"[7] ");
            }
            out.push(b']');
        },
        "dict" => {
            out.extend_from_slice(b"<<");
            for j in 0 .. n {
                out.extend_from_slice(format!("/K{:07} ", j % 10_000_000).as_bytes());
                out.extend_from_slice(et);
                out.push(b' ');
            }
            if tail == "deep" {
                out.extend_from_slice(b"/Z [7] ");
            }
            out.extend_from_slice(b">>");
        },
        _ => return None,
    }
    Some(())
}
fn run_leaf(out: &mut Vec<u8>, n: usize, kind: &str) -> Option<()> {
    match kind {
        "str" => { out.push(b'('); rep(out, n, b"A"); out.push(b')') },
        "strp" => { out.push(b'('); rep(out, n, b"("); rep(out, n, b")"); out.push(b')') },
        "stre" => { out.push(b'('); rep(out, n, b"\\)"); out.push(b')') },
        "name" => { out.push(b'/'); rep(out, n, b"A") },
        "namex" => { out.push(b'/'); rep(out, n, b"#41") },
        "hex" => { out.push(b'<'); rep(out, n, b"41"); out.push(b'>') },
        "hexws" => { out.push(b'<'); rep(out, n, b"4 1\n"); out.push(b'>') },
        "zeros" => { rep(out, n, b"0"); out.push(b'7') },
        "nines" if n >= 40 => rep(out, n, b"9"),
        "frac" if n >= 40 => { out.extend_from_slice(b"1."); rep(out, n, b"0"); out.push(b'5') },
        "ws" => { rep(out, n, b" "); out.push(b'7') },
        "crlf" => { rep(out, n, b"\r\n"); out.push(b'7') },
        "cmt" => { rep(out, n, b"%c\n"); out.push(b'7') },
        "cmt1" => { out.push(b'%'); rep(out, n, b"c"); out.extend_from_slice(b"\n7") },
        "arrws" => { out.push(b'['); rep(out, n, b" "); out.push(b']') },
        "arrcmt" => { out.push(b'['); rep(out, n, b"%\n"); out.push(b']') },
        "dictws" => { out.extend_from_slice(b"<<"); rep(out, n, b"\n"); out.extend_from_slice(b">>") },
        "kvws" if n >= 1 => { out.extend_from_slice(b"<</K"); rep(out, n, b" "); out.push(b'7'); rep(out, n, b" "); out.extend_from_slice(b">>") },
        "refws" if n >= 1 => { out.push(b'1'); rep(out, n, b" "); out.push(b'0'); rep(out, n, b"\n"); out.push(b'R') },
        "bigkey" => { out.extend_from_slice(b"<</"); rep(out, n, b"A"); out.extend_from_slice(b" 7>>") },
        _ => return None,
    }
    Some(())
}
fn wrap_kind(j: usize, wrap: &str) -> usize {
    match wrap {
        "a" => 0,
        "d" => 1,
        _ => j % 3,
    }
}
// `wide <d> <N> <shape> <elem> <p> <wrap> <tail>` / `run <d> <N> <kind> <p> <wrap>`
fn big_bytes(w: &[&str]) -> Option<Vec<u8>> {
    let n: usize = w[2].parse().ok()?;
    let (p, wrap): (usize, &str) = if w[0] == "wide" {
        if w.len() != 8 { return None }
        (w[5].parse().ok()?, w[6])
    } else {
        if w.len() != 6 { return None }
        (w[4].parse().ok()?, w[5])
    };
    let mut out = Vec::new();
    for j in 0 .. p {
        out.extend_from_slice(match wrap_kind(j, wrap) { 0 => &b"["[..], 1 => &b"<</K "[..], _ => &b"[1 "[..] });
    }
    if w[0] == "wide" { wide_leaf(&mut out, n, w[3], w[4], w[7])? } else { run_leaf(&mut out, n, w[3])? }
    for j in (0 .. p).rev() {
        out.extend_from_slice(match wrap_kind(j, wrap) { 0 => &b"]"[..], 1 => &b">>"[..], _ => &b" /N]"[..] });
    }
    Some(out)
}

// the input described by `w` (a `nest` / `cut` / `deep` / `wide` / `run` case WITH its bound word)
fn case_bytes(w: &[&str]) -> Option<Vec<u8>> {
    if w.len() < 3 {
        return None
    }
    if w[0] == "wide" || w[0] == "run" {
        big_bytes(w)
    } else if w[0] == "deep" {
        // `deep` cases carry a nesting profile instead of bytes: <n> copies of an opener
        let n: usize = w[2].parse().ok()?;
        let opener: &[u8] = if w.len() > 3 && w[3] == "dict" { b"<</K " } else { b"[" };
        let mut v = Vec::with_capacity(n * opener.len());
        for _ in 0 .. n {
            v.extend_from_slice(opener);
        }
        Some(v)
    } else if w[0] == "nest" || w[0] == "cut" {
        Some(unhex(w[2]))
    } else {
        None
    }
}

// `ind <d> <form> <num> <case without its bound word>`: the text of the indirect object around the body; must equal
// indHead / indOpen / indClose of lean/Driver/C16.lean
fn ind_bytes(form: &str, num: &str, body: &[u8]) -> Option<Vec<u8>> {
    let (open, close): (&[u8], &[u8]) = match form {
        "p" | "k" => (b"", b" endobj"),
        "e" => (b"", b" endobx"),
        "s" => (b"<</Length 3/K ", b">>\nstream\nabc\nendstream\nendobj"),
        "t" => (b"<</Length 30/K ", b">>\nstream\nabc\nendstream\nendobj"),
        "l" => (b"<</K ", b">>\nstream\nabc\nendstream\nendobj"),
        _ => return None,
    };
    let _: usize = num.parse().ok()?;
    let mut out = Vec::with_capacity(body.len() + 64);
    out.extend_from_slice(num.as_bytes());
    out.extend_from_slice(if form == "k" { b" 0 ob " } else { b" 0 obj " });
    out.extend_from_slice(open);
    out.extend_from_slice(body);
    out.extend_from_slice(close);
    Some(out)
}

// one parse_pdf_indirect_obj on the given context, whatever its current depth and definitions:
// `ok <start> <end> <cursor> <depth delta> <num> <gen> <objstart> <objend> <value>` / `err <kind> <depth delta> <cursor>`
fn ind_step(ctxt: &mut PDFObjContext, w: &[&str]) -> String {
    if w.len() < 6 {
        return "bad-case".to_string()
    }
    // the body's case with the bound word
    let mut inner: Vec<&str> = vec![w[4], w[1]];
    inner.extend_from_slice(&w[5 ..]);
    let big = inner[0] == "wide" || inner[0] == "run";
    let bytes = match case_bytes(&inner).and_then(|b| ind_bytes(w[2], w[3], &b)) {
        Some(b) => b,
        None => return "bad-case".to_string(),
    };
    let mut pb = ParseBuffer::new(bytes);
    let before = ctxt.depth();
    let r = parse_pdf_indirect_obj(ctxt, &mut pb);
    let delta = ctxt.depth() as isize - before as isize;
    match r {
        Ok(v) => {
            let o = v.val().obj();
            let shown = if big {
                match o.val() {
                    PDFObjT::Stream(s) => {
                        let g = digest_dict(s.dict().val());
                        let c = s.stream().val();
                        format!("dg n={} k={} w={} h={} st {} {}", g.nodes, g.depth, g.width, g.chk, c.start(), c.size())
                    },
                    ov => {
                        let g = digest(ov);
                        format!("dg n={} k={} w={} h={}", g.nodes, g.depth, g.width, g.chk)
                    },
                }
            } else {
                obj_sexp(o.val())
            };
            format!(
                "ok {} {} {} {} {} {} {} {} {}",
                v.start(),
                v.end(),
                pb.get_cursor(),
                delta,
                v.val().num(),
                v.val().gen(),
                o.start(),
                o.end(),
                shown
            )
        },
        Err(e) => format!("err {} {} {}", errk(e.val()), delta, pb.get_cursor()),
    }
}

// one parse of the input described by `w` (a `nest` / `cut` / `deep` / `wide` / `run` case WITH its bound word) on the
// given context, whatever its current depth: result, span, cursor, depth after - depth before, value
fn step(ctxt: &mut PDFObjContext, w: &[&str]) -> String {
    if w.len() < 3 {
        return "bad-case".to_string()
    }
    if w[0] == "ind" {
        return ind_step(ctxt, w)
    }
    let big = w[0] == "wide" || w[0] == "run";
    let bytes = match case_bytes(w) {
        Some(b) => b,
        None => return "bad-case".to_string(),
    };
    let mut pb = ParseBuffer::new(bytes);
    let before = ctxt.depth();
    let r = parse_pdf_obj(ctxt, &mut pb);
    let after = ctxt.depth();
    match r {
        Ok(v) => {
            let shown = if big {
                let g = digest(v.val());
                format!("dg n={} k={} w={} h={}", g.nodes, g.depth, g.width, g.chk)
            } else {
                obj_sexp(v.val())
            };
            format!("ok {} {} {} {} {}", v.start(), v.end(), pb.get_cursor(), after as isize - before as isize, shown)
        },
        Err(e) => format!("err {} {}", errk(e.val()), after as isize - before as isize),
    }
}

// a context with bound d whose current depth is k0: what a client that embeds the object parser inside its own nesting
// gets by k0 calls of the public enter_obj().  Also returned: the depth the context reports right after `new` (before any
// enter_obj).  Err: (that depth when a context was made, the line to print) - `bad-case` for k0 > d, `enter-refused` when
// an enter_obj() below the bound returned false
fn context_at(d: usize, k0: usize) -> Result<(PDFObjContext, usize), (Option<usize>, String)> {
    if k0 > d {
        return Err((None, "bad-case".to_string()))
    }
    let mut ctxt = PDFObjContext::new(d);
    let b0 = ctxt.depth();
    for _ in 0 .. k0 {
        if !ctxt.enter_obj() {
            return Err((Some(b0), "enter-refused".to_string()))
        }
    }
    Ok((ctxt, b0))
}
// the client's matching leave_obj() calls; never more than the context's depth allows (the harness must not trip
// leave_obj's assert itself when the code under test has lost a level)
fn unwind(ctxt: &mut PDFObjContext, k0: usize) {
    for _ in 0 .. k0 {
        if ctxt.depth() == 0 {
            break
        }
        ctxt.leave_obj();
    }
}

fn show_depth(d: Option<usize>) -> String {
    match d {
        Some(n) => n.to_string(),
        None => "-".to_string(),
    }
}

// `<case>`                                   one parse on a fresh context
// `at <k0> <case>`                           one parse on a context whose depth is already k0
// `seq <d> <k0> ; <step> ; <step> ...`       several parses on ONE context (a step is a case without its bound word)
// returns (the depth the case's context reported right after `new`, the case's line)
fn run_single(w: &[&str]) -> (Option<usize>, String) {
    if w.len() < 3 {
        return (None, "bad-case".to_string())
    }
    if w[0] == "seq" {
        let (d, k0): (usize, usize) = match (w[1].parse(), w[2].parse()) {
            (Ok(d), Ok(k)) => (d, k),
            _ => return (None, "bad-case".to_string()),
        };
        let (mut ctxt, b0) = match context_at(d, k0) {
            Ok(c) => c,
            Err(e) => return e,
        };
        let mut outs: Vec<String> = Vec::new();
        for st in w[3 ..].split(|x| *x == ";") {
            if st.is_empty() {
                continue
            }
            let mut sw: Vec<&str> = vec![st[0], w[1]];
            sw.extend_from_slice(&st[1 ..]);
            outs.push(step(&mut ctxt, &sw));
        }
        unwind(&mut ctxt, k0);
        return (Some(b0), outs.join(" ; "))
    }
    let (k0, cw): (usize, &[&str]) = if w[0] == "at" {
        match w[1].parse() {
            Ok(k) => (k, &w[2 ..]),
            Err(_) => return (None, "bad-case".to_string()),
        }
    } else {
        (0, &w[..])
    };
    if cw.len() < 3 {
        return (None, "bad-case".to_string())
    }
    let d: usize = match cw[1].parse() {
        Ok(d) => d,
        Err(_) => return (None, "bad-case".to_string()),
    };
    let (mut ctxt, b0) = match context_at(d, k0) {
        Ok(c) => c,
        Err(e) => return e,
    };
    let out = step(&mut ctxt, cw);
    unwind(&mut ctxt, k0);
    (Some(b0), out)
}

// SEVERAL CONTEXTS (after missed seed C16_9: the depth in a thread-local shared by all contexts of a thread).
// `ctx <dA> <jA> keep|drop|leave|thread <case>`: on the case's thread make context A = new(dA) and call its enter_obj() jA
// times (all must succeed); then keep A alive as it is / drop it without leaving / leave jA times and keep it; `thread`: A is
// made, entered and kept alive on ANOTHER thread instead.  Then the inner case (any of the kinds of run_single) runs on its
// own new context B.  Output: `ctx <B.depth() right after new> <A.depth() after B's case | -> <the inner case's line>`
fn run_ctx(w: &[&str]) -> String {
    if w.len() < 7 || w[4] == "ctx" || w[4] == "cseq" {
        return "bad-case".to_string()
    }
    let (da, ja): (usize, usize) = match (w[1].parse(), w[2].parse()) {
        (Ok(d), Ok(j)) => (d, j),
        _ => return "bad-case".to_string(),
    };
    let inner = &w[4 ..];
    if w[3] == "thread" {
        use std::sync::mpsc::channel;
        let (tx_ready, rx_ready) = channel::<bool>();
        let (tx_done, rx_done) = channel::<()>();
        let h = std::thread::spawn(move || {
            let mut a = PDFObjContext::new(da);
            for _ in 0 .. ja {
                if !a.enter_obj() {
                    let _ = tx_ready.send(false);
                    return 0
                }
            }
            let _ = tx_ready.send(true);
            let _ = rx_done.recv();
            a.depth()
        });
        if !rx_ready.recv().unwrap_or(false) {
            let _ = h.join();
            return "enter-refused A".to_string()
        }
        let (b0, out) = run_single(inner);
        let _ = tx_done.send(());
        let a_after = h.join().ok();
        return format!("ctx {} {} {}", show_depth(b0), show_depth(a_after), out)
    }
    let mut a = PDFObjContext::new(da);
    for _ in 0 .. ja {
        if !a.enter_obj() {
            return "enter-refused A".to_string()
        }
    }
    let mut a = Some(a);
    match w[3] {
        "keep" => {},
        "drop" => a = None,
        "leave" => unwind(a.as_mut().unwrap(), ja),
        _ => return "bad-case".to_string(),
    }
    let (b0, out) = run_single(inner);
    let a_after = a.as_ref().map(|c| c.depth());
    format!("ctx {} {} {}", show_depth(b0), show_depth(a_after), out)
}

// `cseq <n> <d_0> <k_0> ... <d_n-1> <k_n-1> ; <i> <step> ; <i> <step> ...`: n contexts on ONE thread, made in order (context
// i: bound d_i, then k_i enter_obj() calls), then the steps, each on the context of its index: a parse step of `seq` (the
// bound word is d_i), or the client's own `enter` / `leave` (public enter_obj / leave_obj; leave is skipped at depth 0), or
// `drop` (the context is dropped as it is).  Output: `new <depth right after new, per context>` ; per step `<depth of ITS
// context before the step> <line | entered | refused | left | left-at-zero | dropped>` ; `end <final depth per context | ->`
fn run_cseq(w: &[&str]) -> String {
    let n: usize = match w.get(1).and_then(|x| x.parse().ok()) {
        Some(n) if n >= 1 && n <= 8 => n,
        _ => return "bad-case".to_string(),
    };
    if w.len() < 2 + 2 * n + 1 || w[2 + 2 * n] != ";" {
        return "bad-case".to_string()
    }
    let mut dk: Vec<(usize, usize)> = Vec::new();
    for i in 0 .. n {
        match (w[2 + 2 * i].parse(), w[3 + 2 * i].parse()) {
            (Ok(d), Ok(k)) if k <= d => dk.push((d, k)),
            _ => return "bad-case".to_string(),
        }
    }
    let mut ctxs: Vec<Option<PDFObjContext>> = Vec::new();
    let mut news: Vec<String> = Vec::new();
    for (i, (d, k)) in dk.iter().enumerate() {
        match context_at(*d, *k) {
            Ok((c, b0)) => {
                news.push(b0.to_string());
                ctxs.push(Some(c));
            },
            Err((b0, msg)) => {
                news.push(show_depth(b0));
                return format!("new {} ; {} {}", news.join(" "), msg, i)
            },
        }
    }
    let mut outs: Vec<String> = vec![format!("new {}", news.join(" "))];
    for st in w[3 + 2 * n ..].split(|x| *x == ";") {
        if st.is_empty() {
            continue
        }
        let i: usize = match st[0].parse() {
            Ok(i) if i < n && st.len() >= 2 => i,
            _ => {
                outs.push("bad-step".to_string());
                continue
            },
        };
        let c = match ctxs[i].as_mut() {
            Some(c) => c,
            None => {
                outs.push("bad-step".to_string());
                continue
            },
        };
        let before = c.depth();
        let line = match st[1] {
            "enter" => (if c.enter_obj() { "entered" } else { "refused" }).to_string(),
            "leave" => {
                if before == 0 {
                    "left-at-zero".to_string()
                } else {
                    c.leave_obj();
                    "left".to_string()
                }
            },
            "drop" => {
                ctxs[i] = None;
                "dropped".to_string()
            },
            _ => {
                let ds = dk[i].0.to_string();
                let mut sw: Vec<&str> = vec![st[1], &ds];
                sw.extend_from_slice(&st[2 ..]);
                step(c, &sw)
            },
        };
        outs.push(format!("{} {}", before, line));
    }
    let ends: Vec<String> = ctxs.iter().map(|c| show_depth(c.as_ref().map(|c| c.depth()))).collect();
    outs.push(format!("end {}", ends.join(" ")));
    outs.join(" ; ")
}

fn run_case(line: &str) -> String {
    let w: Vec<&str> = line.split_whitespace().collect();
    match w.first() {
        Some(&"ctx") => run_ctx(&w),
        Some(&"cseq") => run_cseq(&w),
        _ => run_single(&w).1,
    }
}

fn run(line: &str) -> String {
    let line = line.to_string();
    let h = std::thread::Builder::new()
        .stack_size(STACK)
        .spawn(move || run_case(&line))
        .expect("spawn");
    match h.join() {
        Ok(s) => s,
        Err(e) => std::panic::resume_unwind(e),
    }
}

fn main() {
    main_loop(Harness {
        run,
        gen: None,
        extract: None,
    })
}
