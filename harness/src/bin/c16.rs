// C16: parse_pdf_obj under a depth bound; reports the context's depth after the call.
use parsley_rust::pcore::parsebuffer::{ParseBuffer, ParseBufferT};
use parsley_rust::pdf_lib::pdf_obj::{parse_pdf_obj, PDFObjContext};
use verif_harness::objfmt::obj_sexp;
use verif_harness::*;

fn run(line: &str) -> String {
    let w: Vec<&str> = line.split_whitespace().collect();
    if w.len() < 3 {
        return "bad-case".to_string()
    }
    let d: usize = match w[1].parse() {
        Ok(d) => d,
        Err(_) => return "bad-case".to_string(),
    };
    // `deep` cases carry a nesting profile instead of bytes: <n> copies of an opener
    let bytes = if w[0] == "deep" {
        let n: usize = w[2].parse().unwrap();
        let opener: &[u8] = if w.len() > 3 && w[3] == "dict" { b"<</K " } else { b"[" };
        let mut v = Vec::with_capacity(n * opener.len());
        for _ in 0 .. n {
            v.extend_from_slice(opener);
        }
        v
    } else {
        unhex(w[2])
    };
    let mut pb = ParseBuffer::new(bytes);
    let mut ctxt = PDFObjContext::new(d);
    let before = ctxt.depth();
    let r = parse_pdf_obj(&mut ctxt, &mut pb);
    let after = ctxt.depth();
    match r {
        Ok(v) => format!(
            "ok {} {} {} {} {}",
            v.start(),
            v.end(),
            pb.get_cursor(),
            after as isize - before as isize,
            obj_sexp(v.val())
        ),
        Err(e) => format!("err {} {}", errk(e.val()), after as isize - before as isize),
    }
}

fn main() {
    main_loop(Harness {
        run,
        gen: None,
        extract: None,
    })
}
