// C17 correspondence harness: runs an operation sequence on REAL ParseBuffers.
//
// case line:   ops <hexbuf> <op> <op> ...          (tag `oops` is treated identically: it only
//                                                   selects the pre-fix model on the Lean side)
//   slot 0 = ParseBuffer::new(hexbuf); view/viewFrom/new push a slot (None when the transform fails)
//   ops:  new.<hex>  v.<i>.<s>.<n>  vf.<i>.<s>  rel.<i>  dr.<i>.<n>  ap.<i>.<hex>
//         sz.<i> rem.<i> cur.<i> pk.<i> buf.<i> sc.<i>.<k> inc.<i> dec.<i> cc.<i>.<k>
//         scu.<i>.<k> incu.<i> decu.<i> cp.<i>.<hex> al.<i>.<hex> un.<i>.<hex>
//         scan.<i>.<hex> bscan.<i>.<hex> ex.<i>.<hex> xt.<i>.<n>
// output: a summary token (see `run`), then one token per op  `<result>|<cursor>,<size>,<hex of buf()>`  (probe of the slot operated on,
//         or of the slot just created), then for every live slot j `F<j>:<cursor>,<hex of whole view>`.
//         A panic (caught per operation) prints `panic` and ends the line.
use parsley_rust::pcore::parsebuffer::{ParseBuffer, ParseBufferT, StreamBufferT};
use parsley_rust::pcore::transforms::{BufferTransformT, RestrictView, RestrictViewFrom};
use std::panic::{catch_unwind, AssertUnwindSafe};
use verif_harness::*;

type Slots = Vec<Option<ParseBuffer>>;

fn num(s: &str) -> usize { s.parse::<usize>().expect("bad number") }

fn res_unit(r: Result<(), parsley_rust::pcore::parsebuffer::LocatedVal<parsley_rust::pcore::parsebuffer::ErrorKind>>) -> String {
    match r {
        Ok(()) => "u".to_string(),
        Err(e) => format!("e:{}", errk(e.val())),
    }
}

// Executes one op; returns (result token, slot to probe)
fn exec(slots: &mut Slots, op: &str) -> (String, Option<usize>) {
    let f: Vec<&str> = op.split('.').collect();
    let name = f[0];
    if name == "new" {
        slots.push(Some(ParseBuffer::new(unhex(f[1]))));
        return ("new".to_string(), Some(slots.len() - 1))
    }
    let i = num(f[1]);
    if i >= slots.len() || slots[i].is_none() {
        return ("noslot".to_string(), None)
    }
    match name {
        "v" | "vf" => {
            let r = {
                let pb = slots[i].as_ref().unwrap();
                if name == "v" {
                    RestrictView::new(num(f[2]), num(f[3])).transform(pb)
                } else {
                    RestrictViewFrom::new(num(f[2])).transform(pb)
                }
            };
            match r {
                Ok(v) => {
                    slots.push(Some(v));
                    ("new".to_string(), Some(slots.len() - 1))
                },
                Err(e) => {
                    slots.push(None);
                    (format!("e:{}", errk(e.val())), None)
                },
            }
        },
        "rel" => {
            slots[i] = None;
            ("u".to_string(), None)
        },
        _ => {
            let pb = slots[i].as_mut().unwrap();
            let r = match name {
                "sz" => format!("n:{}", pb.size()),
                "rem" => format!("n:{}", pb.remaining()),
                "cur" => format!("n:{}", pb.get_cursor()),
                "pk" => match pb.peek() {
                    Some(b) => format!("some:{:02x}", b),
                    None => "none".to_string(),
                },
                "buf" => format!("b:{}", hex(pb.buf())),
                "sc" => res_unit(pb.set_cursor(num(f[2]))),
                "inc" => res_unit(pb.incr_cursor()),
                "dec" => res_unit(pb.decr_cursor()),
                "cc" => format!("{}", if pb.check_cursor(num(f[2])) { "t" } else { "f" }),
                "scu" => {
                    pb.set_cursor_unsafe(num(f[2]));
                    "u".to_string()
                },
                "incu" => {
                    pb.incr_cursor_unsafe();
                    "u".to_string()
                },
                "decu" => {
                    pb.decr_cursor_unsafe();
                    "u".to_string()
                },
                "cp" => match pb.check_prefix(&unhex(f[2])) {
                    Ok(b) => (if b { "t" } else { "f" }).to_string(),
                    Err(e) => format!("e:{}", errk(e.val())),
                },
                "al" => match pb.parse_allowed_bytes(&unhex(f[2])) {
                    Ok(v) => format!("b:{}", hex(&v)),
                    Err(e) => format!("e:{}", errk(e.val())),
                },
                "un" => match pb.parse_bytes_until(&unhex(f[2])) {
                    Ok(v) => format!("b:{}", hex(&v)),
                    Err(e) => format!("e:{}", errk(e.val())),
                },
                "scan" => match pb.scan(&unhex(f[2])) {
                    Ok(n) => format!("n:{}", n),
                    Err(e) => format!("e:{}", errk(e.val())),
                },
                "bscan" => match pb.backward_scan(&unhex(f[2])) {
                    Ok(n) => format!("n:{}", n),
                    Err(e) => format!("e:{}", errk(e.val())),
                },
                "ex" => match pb.exact(&unhex(f[2])) {
                    Ok(b) => (if b { "t" } else { "f" }).to_string(),
                    Err(e) => format!("e:{}", errk(e.val())),
                },
                "xt" => match pb.extract(num(f[2])) {
                    Ok(v) => format!("b:{}", hex(v)),
                    Err(e) => format!("e:{}", errk(e.val())),
                },
                "dr" => (if pb.drop(num(f[2])) { "t" } else { "f" }).to_string(),
                "ap" => (if pb.append(&unhex(f[2])) { "t" } else { "f" }).to_string(),
                _ => panic!("bad op"),
            };
            (r, Some(i))
        },
    }
}

fn run_ops(line: &str) -> String {
    let w: Vec<&str> = line.split_whitespace().collect();
    if w.len() < 2 || (w[0] != "ops" && w[0] != "oops") {
        return "bad-case".to_string()
    }
    let mut slots: Slots = vec![Some(ParseBuffer::new(unhex(w[1])))];
    let mut out: Vec<String> = Vec::new();
    for op in &w[2 ..] {
        let r = catch_unwind(AssertUnwindSafe(|| exec(&mut slots, op)));
        let (tok, probe) = match r {
            Ok(x) => x,
            Err(_) => {
                out.push("panic".to_string());
                return out.join(" ")
            },
        };
        let mut tok = tok;
        if let Some(j) = probe {
            let r = catch_unwind(AssertUnwindSafe(|| {
                let pb = slots[j].as_ref().unwrap();
                format!("{},{},{}", pb.get_cursor(), pb.size(), hex(pb.buf()))
            }));
            match r {
                Ok(s) => {
                    tok.push('|');
                    tok.push_str(&s);
                },
                Err(_) => {
                    out.push(tok);
                    out.push("panic".to_string());
                    return out.join(" ")
                },
            }
        }
        out.push(tok);
    }
    // final dump of every live slot: cursor, then the whole view from offset 0
    for j in 0 .. slots.len() {
        if slots[j].is_none() {
            continue
        }
        let r = catch_unwind(AssertUnwindSafe(|| {
            let pb = slots[j].as_mut().unwrap();
            let c = pb.get_cursor();
            let sc = res_unit(pb.set_cursor(0));
            format!("F{}:{},{},{}", j, c, sc, hex(pb.buf()))
        }));
        match r {
            Ok(s) => out.push(s),
            Err(_) => {
                out.push("panic".to_string());
                return out.join(" ")
            },
        }
    }
    out.join(" ")
}

// first token: outcome summary `clean:0` | `errs:<number of Err results>` | `panic:<index of the panicking op>`
pub fn run(line: &str) -> String {
    let body = run_ops(line);
    if body == "bad-case" {
        return body
    }
    let toks: Vec<&str> = body.split(' ').filter(|t| !t.is_empty()).collect();
    let summary = if toks.last() == Some(&"panic") {
        format!("panic:{}", toks.len() - 1)
    } else {
        let n = toks.iter().filter(|t| t.starts_with("e:")).count();
        if n == 0 {
            "clean:0".to_string()
        } else {
            format!("errs:{}", n)
        }
    };
    if body.is_empty() {
        summary
    } else {
        format!("{} {}", summary, body)
    }
}

fn main() {
    main_loop(Harness {
        run,
        gen: None,
        extract: None,
    })
}
