// C18 correspondence harness: builds the REAL AsciiChar / Sequence / Alternate / Star / Not
// values recursively from an expression tree and runs them on the case's buffer.
//
//   case   : <tag> <expr> <hexbuf> <pos> [<hexbuf> <pos>]*   (hexbuf may be `<n>*<hex>` segments joined by `+`:
//            long runs; several steps: the SAME parser object
//            is applied to each buffer/cursor in turn; step outputs are joined by " ; ")
//            expr (prefix, no blanks):  .XY seq   |XY alt   *X star   !X not
//                                       U any-ascii   =hh byte==hh   ~hh byte!=hh   [llhh ll<=byte<=hh
//                                       ^G raw operand with guard G (see RawChar below)
//   output : ok <tree> <cursor> | err <kind> <cursor> | skip
//            tree: (c hh s e) (p A B s e) (l A s e) (r A s e) (s A1 .. An s e) (u s e)
//
// `Node` is the type-erased parser: it implements ParsleyParser with the uniform value type
// LocatedVal<Tree>; a combinator node HOLDS the crate's generic combinator over two `Node`
// children (`Sequence::new(&mut a, &mut b)` ...), built once per case, calls its `parse`, and
// re-wraps the typed result (tuple / Alt / Vec / ()) as a `Tree` carrying the spans the combinator
// reported.  The wrapper itself never touches the cursor.
use parsley_rust::pcore::parsebuffer::{
    LocatedVal, ParseBuffer, ParseBufferT, ParseResult, ParsleyParser,
};
use parsley_rust::pcore::parsebuffer::{locate_value, parse_prim, ErrorKind};
use parsley_rust::pcore::prim_ascii::{AsciiChar, AsciiCharPrimitive};
use parsley_rust::pcore::prim_combinators::{Alt, Alternate, Not, Sequence, Star};
use verif_harness::*;

#[derive(Clone, Debug)]
enum Guard {
    Any,
    Eq(u8),
    Ne(u8),
    Range(u8, u8),
}

#[derive(Clone, Debug)]
enum Expr {
    Chr(Guard),
    Raw(Guard),
    Seq(Box<Expr>, Box<Expr>),
    Alt(Box<Expr>, Box<Expr>),
    Star(Box<Expr>),
    Not(Box<Expr>),
}

#[derive(PartialEq, Debug)]
enum Tree {
    Ch(char),
    Pair(Box<LocatedVal<Tree>>, Box<LocatedVal<Tree>>),
    Left(Box<LocatedVal<Tree>>),
    Right(Box<LocatedVal<Tree>>),
    List(Vec<LocatedVal<Tree>>),
    Unit,
}
type LV = LocatedVal<Tree>;

fn holds(g: &Guard, c: char) -> bool {
    match g {
        Guard::Any => true,
        Guard::Eq(b) => c == *b as char,
        Guard::Ne(b) => c != *b as char,
        Guard::Range(lo, hi) => *lo as char <= c && c <= *hi as char,
    }
}

// A *raw* operand: a single-byte parser written in the style of the crate's hand-written parsers
// that do not put the cursor back when they fail (it is NOT part of the crate).  It consumes the
// byte with the crate's parse_prim and then applies the guard.  Used as an operand of the real
// combinators so that the restores the combinators perform themselves are observable.
struct RawChar {
    g: Guard,
}
impl ParsleyParser for RawChar {
    type T = LocatedVal<char>;

    fn parse(&mut self, buf: &mut dyn ParseBufferT) -> ParseResult<Self::T> {
        let start = buf.get_cursor();
        let c = parse_prim::<AsciiCharPrimitive>(buf)?;
        if !holds(&self.g, c) {
            let end = buf.get_cursor();
            return Err(locate_value(ErrorKind::GuardError("raw".to_string()), start, end))
        }
        let end = buf.get_cursor();
        Ok(LocatedVal::new(c, start, end))
    }
}

// The parser OBJECTS are built ONCE per case (`Arena::build`) and then reused: a combinator under
// a Star is the same object in every iteration, and a multi-step case applies the same top-level
// object to every (buffer, cursor) of the case in turn.  The crate's combinators borrow their
// operands (`&'a mut P`), so the tree is allocated node by node on the heap, children first, and
// the borrows are handed out with the lifetime of the arena (raw pointers; all nodes are freed,
// parents first, when the arena is dropped at the end of the case).  State that a combinator
// object keeps between calls is therefore observable, exactly as for a caller that builds
// `Star::new(&mut alt)` once.
enum Node {
    Chr(AsciiChar),
    Raw(RawChar),
    Seq(Sequence<'static, Node, Node>),
    Alt(Alternate<'static, Node, Node>),
    Star(Star<'static, Node>),
    Not(Not<'static, Node>),
}

impl ParsleyParser for Node {
    type T = LV;

    fn parse(&mut self, buf: &mut dyn ParseBufferT) -> ParseResult<LV> {
        match self {
            Node::Chr(p) => {
                let v = p.parse(buf)?;
                Ok(LocatedVal::new(Tree::Ch(*v.val()), v.start(), v.end()))
            },
            Node::Raw(p) => {
                let v = p.parse(buf)?;
                Ok(LocatedVal::new(Tree::Ch(*v.val()), v.start(), v.end()))
            },
            Node::Seq(c) => {
                let v = c.parse(buf)?;
                let (s, e) = (v.start(), v.end());
                let (x, y) = v.unwrap();
                Ok(LocatedVal::new(Tree::Pair(Box::new(x), Box::new(y)), s, e))
            },
            Node::Alt(c) => {
                let v = c.parse(buf)?;
                let (s, e) = (v.start(), v.end());
                let t = match v.unwrap() {
                    Alt::Left(x) => Tree::Left(Box::new(x)),
                    Alt::Right(y) => Tree::Right(Box::new(y)),
                };
                Ok(LocatedVal::new(t, s, e))
            },
            Node::Star(c) => {
                let v = c.parse(buf)?;
                let (s, e) = (v.start(), v.end());
                Ok(LocatedVal::new(Tree::List(v.unwrap()), s, e))
            },
            Node::Not(c) => {
                let v = c.parse(buf)?;
                Ok(LocatedVal::new(Tree::Unit, v.start(), v.end()))
            },
        }
    }
}

struct Arena {
    nodes: Vec<*mut Node>,
}

impl Arena {
    fn alloc(&mut self, n: Node) -> &'static mut Node {
        let p = Box::into_raw(Box::new(n));
        self.nodes.push(p);
        // valid until the arena is dropped; every node is referenced by exactly one parent
        unsafe { &mut *p }
    }

    fn build(&mut self, e: &Expr) -> &'static mut Node {
        let n = match e {
            Expr::Chr(g) => Node::Chr(match g.clone() {
                Guard::Any => AsciiChar::new(),
                Guard::Eq(b) => AsciiChar::new_guarded(Box::new(move |c: &char| *c == b as char)),
                Guard::Ne(b) => AsciiChar::new_guarded(Box::new(move |c: &char| *c != b as char)),
                Guard::Range(lo, hi) => AsciiChar::new_guarded(Box::new(move |c: &char| {
                    lo as char <= *c && *c <= hi as char
                })),
            }),
            Expr::Raw(g) => Node::Raw(RawChar { g: g.clone() }),
            Expr::Seq(a, b) => {
                let pa = self.build(a);
                let pb = self.build(b);
                Node::Seq(Sequence::new(pa, pb))
            },
            Expr::Alt(a, b) => {
                let pa = self.build(a);
                let pb = self.build(b);
                Node::Alt(Alternate::new(pa, pb))
            },
            Expr::Star(a) => {
                let pa = self.build(a);
                Node::Star(Star::new(pa))
            },
            Expr::Not(a) => {
                let pa = self.build(a);
                Node::Not(Not::new(pa))
            },
        };
        self.alloc(n)
    }
}

impl Drop for Arena {
    fn drop(&mut self) {
        // parents were allocated after their children: free them first
        while let Some(p) = self.nodes.pop() {
            unsafe { drop(Box::from_raw(p)) }
        }
    }
}

fn hv(c: u8) -> Option<u8> {
    match c {
        b'0' ..= b'9' => Some(c - b'0'),
        b'a' ..= b'f' => Some(c - b'a' + 10),
        b'A' ..= b'F' => Some(c - b'A' + 10),
        _ => None,
    }
}

fn byte_at(b: &[u8], i: usize) -> Option<u8> {
    if i + 1 >= b.len() {
        return None
    }
    Some(hv(b[i])? * 16 + hv(b[i + 1])?)
}

fn parse_expr(b: &[u8], i: &mut usize, depth: usize) -> Option<Expr> {
    if *i >= b.len() || depth > 200 {
        return None
    }
    let c = b[*i];
    *i += 1;
    match c {
        b'U' => Some(Expr::Chr(Guard::Any)),
        b'=' | b'~' => {
            let v = byte_at(b, *i)?;
            *i += 2;
            Some(Expr::Chr(if c == b'=' { Guard::Eq(v) } else { Guard::Ne(v) }))
        },
        b'[' => {
            let lo = byte_at(b, *i)?;
            let hi = byte_at(b, *i + 2)?;
            *i += 4;
            Some(Expr::Chr(Guard::Range(lo, hi)))
        },
        b'.' | b'|' => {
            let x = parse_expr(b, i, depth + 1)?;
            let y = parse_expr(b, i, depth + 1)?;
            Some(if c == b'.' {
                Expr::Seq(Box::new(x), Box::new(y))
            } else {
                Expr::Alt(Box::new(x), Box::new(y))
            })
        },
        b'^' => match parse_expr(b, i, depth + 1)? {
            Expr::Chr(g) => Some(Expr::Raw(g)),
            _ => None,
        },
        b'*' => Some(Expr::Star(Box::new(parse_expr(b, i, depth + 1)?))),
        b'!' => Some(Expr::Not(Box::new(parse_expr(b, i, depth + 1)?))),
        _ => None,
    }
}

// The domain of the property (and the only expressions on which Star::parse terminates):
// every star body syntactically consumes.  Same definition as Spec/Peg.lean.
fn consumes(e: &Expr) -> bool {
    match e {
        Expr::Chr(_) | Expr::Raw(_) => true,
        Expr::Seq(a, b) => consumes(a) || consumes(b),
        Expr::Alt(a, b) => consumes(a) && consumes(b),
        Expr::Star(_) | Expr::Not(_) => false,
    }
}
fn star_bodies_consume(e: &Expr) -> bool {
    match e {
        Expr::Chr(_) | Expr::Raw(_) => true,
        Expr::Seq(a, b) | Expr::Alt(a, b) => star_bodies_consume(a) && star_bodies_consume(b),
        Expr::Star(a) => consumes(a) && star_bodies_consume(a),
        Expr::Not(a) => star_bodies_consume(a),
    }
}

fn show(t: &LV, out: &mut String) {
    let (s, e) = (t.start(), t.end());
    match t.val() {
        Tree::Ch(c) => out.push_str(&format!("(c {:02x} {} {})", *c as u32, s, e)),
        Tree::Pair(a, b) => {
            out.push_str("(p ");
            show(a, out);
            out.push(' ');
            show(b, out);
            out.push_str(&format!(" {} {})", s, e));
        },
        Tree::Left(a) | Tree::Right(a) => {
            out.push_str(if let Tree::Left(_) = t.val() { "(l " } else { "(r " });
            show(a, out);
            out.push_str(&format!(" {} {})", s, e));
        },
        Tree::List(l) => {
            out.push_str("(s ");
            for x in l {
                show(x, out);
                out.push(' ');
            }
            out.push_str(&format!("{} {})", s, e));
        },
        Tree::Unit => out.push_str(&format!("(u {} {})", s, e)),
    }
}

// buffer word: <hex> | - | segments joined by `+`, a segment being <hex> or <n>*<hex> (repeated n times)
fn expand(d: &str) -> Option<Vec<u8>> {
    if !d.contains('+') && !d.contains('*') {
        return Some(unhex(d))
    }
    let mut out = Vec::new();
    for seg in d.split('+') {
        match seg.split_once('*') {
            Some((n, h)) => {
                let k: usize = n.parse().ok()?;
                let b = unhex(h);
                for _ in 0 .. k {
                    out.extend_from_slice(&b)
                }
            },
            None => out.extend_from_slice(&unhex(seg)),
        }
    }
    Some(out)
}

// One step: the (reused) parser object on a fresh buffer at the given cursor.
fn step(p: &mut Node, hex: &str, pos: &str) -> Option<String> {
    let buf = expand(hex)?;
    let pos: usize = pos.parse().ok()?;
    let mut pb = ParseBuffer::new(buf);
    if pb.set_cursor(pos).is_err() {
        return None
    }
    Some(match p.parse(&mut pb) {
        Ok(v) => {
            let mut s = String::from("ok ");
            show(&v, &mut s);
            s.push_str(&format!(" {}", pb.get_cursor()));
            s
        },
        Err(err) => format!("err {} {}", errk(err.val()), pb.get_cursor()),
    })
}

pub fn run(line: &str) -> String {
    let w: Vec<&str> = line.split_whitespace().collect();
    // <tag> <expr> (<hexbuf> <pos>)+ : one parser object, applied to every (buffer, cursor) in turn
    if w.len() < 4 || w.len() % 2 != 0 {
        return "bad-case".to_string()
    }
    let mut i = 0;
    let eb = w[1].as_bytes();
    let e = match parse_expr(eb, &mut i, 0) {
        Some(e) if i == eb.len() => e,
        _ => return "bad-case".to_string(),
    };
    if !star_bodies_consume(&e) {
        return "skip".to_string()
    }
    let mut arena = Arena { nodes: Vec::new() };
    let p = arena.build(&e);
    let mut outs: Vec<String> = Vec::new();
    for k in (2 .. w.len()).step_by(2) {
        match step(p, w[k], w[k + 1]) {
            Some(s) => outs.push(s),
            None => return "bad-case".to_string(),
        }
    }
    outs.join(" ; ")
}

fn main() {
    main_loop(Harness {
        run,
        gen: None,
        extract: None,
    })
}
