use verif_harness::*;
use parsley_rust::pcore::parsebuffer::{ParseBuffer, ParseBufferT, ParsleyParser};
use parsley_rust::pcore::prim_binary::*;
use parsley_rust::pcore::transforms::{BufferTransformT, RestrictView};

fn show<T: ToString + PartialEq>(
    r: parsley_rust::pcore::parsebuffer::ParseResult<parsley_rust::pcore::parsebuffer::LocatedVal<T>>,
    pb: &ParseBuffer,
) -> String {
    match r {
        Ok(v) => format!("ok {} {} {} {}", v.val().to_string(), v.start(), v.end(), pb.get_cursor()),
        Err(e) => format!("err {} {}", errk(e.val()), pb.get_cursor()),
    }
}

pub fn run(line: &str) -> String {
    let w: Vec<&str> = line.split_whitespace().collect();
    if w.len() != 4 {
        return "bad-case".to_string()
    }
    let buf = unhex(w[2]);
    let pos: usize = w[3].parse().unwrap();
    // A kind prefixed with 'v' runs the same parser on a RESTRICTED VIEW whose window is exactly
    // `buf` inside a larger allocation (3 bytes before, 2 after): by C17 a view behaves like a
    // copy of its window, so the expected output is the same as on the plain buffer.
    let (kind, mut pb) = if w[0].starts_with('v') {
        let mut big = vec![0xEEu8, 0x11, 0xEE];
        let n = buf.len();
        big.extend_from_slice(&buf);
        big.extend_from_slice(&[0x77, 0x88]);
        let parent = ParseBuffer::new(big);
        let view = match RestrictView::new(3, n).transform(&parent) {
            Ok(v) => v,
            Err(_) => return "bad-case".to_string(),
        };
        (&w[0][1 ..], view)
    } else {
        (w[0], ParseBuffer::new(buf))
    };
    if pb.set_cursor(pos).is_err() {
        return "bad-case".to_string()
    }
    if kind == "bv" {
        let len: usize = w[1].parse().unwrap();
        let r = ByteVecP::new(len).parse(&mut pb);
        return match r {
            Ok(v) => format!("ok {} {} {} {}", hex(v.val()), v.start(), v.end(), pb.get_cursor()),
            Err(e) => format!("err {} {}", errk(e.val()), pb.get_cursor()),
        }
    }
    let e = match w[1] {
        "be" => Endian::Big,
        "le" => Endian::Little,
        _ => return "bad-case".to_string(),
    };
    match kind {
        "u8" => show(UInt8P.parse(&mut pb), &pb),
        "u16" => show(UInt16P::new(e).parse(&mut pb), &pb),
        "u32" => show(UInt32P::new(e).parse(&mut pb), &pb),
        "u64" => show(UInt64P::new(e).parse(&mut pb), &pb),
        "i8" => show(Int8P.parse(&mut pb), &pb),
        "i16" => show(Int16P::new(e).parse(&mut pb), &pb),
        "i32" => show(Int32P::new(e).parse(&mut pb), &pb),
        "i64" => show(Int64P::new(e).parse(&mut pb), &pb),
        _ => "bad-case".to_string(),
    }
}

fn main() {
    main_loop(Harness {
        run,
        gen: None,
        extract: None,
    })
}
