use verif_harness::*;
use parsley_rust::pcore::parsebuffer::{ParseBuffer, ParseBufferT, ParsleyParser};
use parsley_rust::pcore::prim_binary::*;

fn show<T: ToString + PartialEq>(
    r: parsley_rust::pcore::parsebuffer::ParseResult<parsley_rust::pcore::parsebuffer::LocatedVal<T>>,
    pb: &ParseBuffer,
) -> String {
    match r {
        Ok(v) => format!("ok {} {} {} {}", v.val().to_string(), v.start(), v.end(), pb.get_cursor()),
        Err(e) => format!("err {} {}", errk(e.val()), pb.get_cursor()),
    }
}

pub fn run(line: &str) -> String {
    let w: Vec<&str> = line.split_whitespace().collect();
    if w.len() != 4 {
        return "bad-case".to_string()
    }
    let buf = unhex(w[2]);
    let pos: usize = w[3].parse().unwrap();
    let mut pb = ParseBuffer::new(buf);
    if pb.set_cursor(pos).is_err() {
        return "bad-case".to_string()
    }
    if w[0] == "bv" {
        let len: usize = w[1].parse().unwrap();
        let r = ByteVecP::new(len).parse(&mut pb);
        return match r {
            Ok(v) => format!("ok {} {} {} {}", hex(v.val()), v.start(), v.end(), pb.get_cursor()),
            Err(e) => format!("err {} {}", errk(e.val()), pb.get_cursor()),
        }
    }
    let e = match w[1] {
        "be" => Endian::Big,
        "le" => Endian::Little,
        _ => return "bad-case".to_string(),
    };
    match w[0] {
        "u8" => show(UInt8P.parse(&mut pb), &pb),
        "u16" => show(UInt16P::new(e).parse(&mut pb), &pb),
        "u32" => show(UInt32P::new(e).parse(&mut pb), &pb),
        "u64" => show(UInt64P::new(e).parse(&mut pb), &pb),
        "i8" => show(Int8P.parse(&mut pb), &pb),
        "i16" => show(Int16P::new(e).parse(&mut pb), &pb),
        "i32" => show(Int32P::new(e).parse(&mut pb), &pb),
        "i64" => show(Int64P::new(e).parse(&mut pb), &pb),
        _ => "bad-case".to_string(),
    }
}

fn main() {
    main_loop(Harness {
        run,
        gen: None,
        extract: None,
    })
}
