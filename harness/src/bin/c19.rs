use verif_harness::*;
use parsley_rust::pcore::parsebuffer::{ParseBuffer, ParseBufferT, ParsleyParser};
use parsley_rust::pcore::prim_binary::*;
use parsley_rust::pcore::transforms::{BufferTransformT, RestrictView};

fn show<T: ToString + PartialEq>(
    r: parsley_rust::pcore::parsebuffer::ParseResult<parsley_rust::pcore::parsebuffer::LocatedVal<T>>,
    pb: &ParseBuffer,
) -> String {
    match r {
        Ok(v) => format!("ok {} {} {} {}", v.val().to_string(), v.start(), v.end(), pb.get_cursor()),
        Err(e) => format!("err {} {}", errk(e.val()), pb.get_cursor()),
    }
}

// `l1.t1/l2.t2/...` (outermost first): a chain of nested RestrictViews; view j cuts l_j bytes before and
// t_j bytes after its window out of view j-1 (view 0 = the whole allocation).
fn parse_chain(spec: &str) -> Option<Vec<(usize, usize)>> {
    let mut chain: Vec<(usize, usize)> = Vec::new();
    for p in spec.split('/') {
        let lt: Vec<&str> = p.split('.').collect();
        if lt.len() != 2 {
            return None
        }
        match (lt[0].parse::<usize>(), lt[1].parse::<usize>()) {
            (Ok(l), Ok(t)) if l < 4096 && t < 4096 => chain.push((l, t)),
            _ => return None,
        }
    }
    Some(chain)
}

// the innermost view of a chain of nested RestrictViews whose window is exactly `buf`
fn chain_buffer(buf: &[u8], chain: &[(usize, usize)]) -> Option<ParseBuffer> {
    let mut big: Vec<u8> = Vec::new();
    for (j, (l, _)) in chain.iter().enumerate() {
        big.extend((0 .. *l).map(|i| 0xE0u8 ^ (j as u8) ^ ((i as u8) << 1)));
    }
    big.extend_from_slice(buf);
    for (j, (_, t)) in chain.iter().enumerate().rev() {
        big.extend((0 .. *t).map(|i| 0x70u8 ^ (j as u8) ^ ((i as u8) << 1)));
    }
    // window size of view j = everything inside it
    let mut sizes = vec![buf.len(); chain.len()];
    for j in (0 .. chain.len() - 1).rev() {
        sizes[j] = chain[j + 1].0 + sizes[j + 1] + chain[j + 1].1;
    }
    let mut cur = ParseBuffer::new(big);
    for (j, (l, _)) in chain.iter().enumerate() {
        cur = RestrictView::new(*l, sizes[j]).transform(&cur).ok()?;
    }
    Some(cur)
}

// Buffer word of a case: lower-case hex (`-` = empty) or the descriptor `#N` = the N-byte PATTERN buffer whose
// byte number i is (7*i + 3 + i/256) mod 256: neighbouring positions differ, and so do positions 256 apart, so a
// window read at a wrong offset shows in the value (N up to 2^25; keeps the lines of the remaining-length
// sweep short: buffers of 2^16 and 2^24 bytes).
const PAT_MAX: usize = 1 << 25;

fn pat_byte(i: usize) -> u8 { (7 * i + 3 + (i >> 8)) as u8 }

fn buf_of(w: &str) -> Option<Vec<u8>> {
    match w.strip_prefix('#') {
        Some(n) => {
            if n.is_empty() || !n.bytes().all(|c| c.is_ascii_digit()) {
                return None
            }
            let n: usize = n.parse().ok()?;
            if n > PAT_MAX {
                return None
            }
            Some((0 .. n).map(pat_byte).collect())
        },
        None => Some(unhex(w)),
    }
}

// ONE parser object, owned by the returned closure: every call of the closure is a parse() on that same
// object.  `arg` is the byte order (integer parsers) or the decimal length (ByteVecP).
fn mk_parser(kind: &str, arg: &str) -> Option<Box<dyn FnMut(&mut ParseBuffer) -> String>> {
    if kind == "bv" {
        let len: usize = arg.parse().ok()?;
        let mut p = ByteVecP::new(len);
        return Some(Box::new(move |pb| match p.parse(pb) {
            Ok(v) => format!("ok {} {} {} {}", hex(v.val()), v.start(), v.end(), pb.get_cursor()),
            Err(e) => format!("err {} {}", errk(e.val()), pb.get_cursor()),
        }))
    }
    let e = match arg {
        "be" => Endian::Big,
        "le" => Endian::Little,
        _ => return None,
    };
    macro_rules! boxed {
        ($p:expr) => {{
            let mut p = $p;
            Some(Box::new(move |pb: &mut ParseBuffer| {
                let r = p.parse(pb);
                show(r, pb)
            }))
        }};
    }
    match kind {
        "u8" => boxed!(UInt8P),
        "u16" => boxed!(UInt16P::new(e)),
        "u32" => boxed!(UInt32P::new(e)),
        "u64" => boxed!(UInt64P::new(e)),
        "i8" => boxed!(Int8P),
        "i16" => boxed!(Int16P::new(e)),
        "i32" => boxed!(Int32P::new(e)),
        "i64" => boxed!(Int64P::new(e)),
        _ => None,
    }
}

// `seq <kind> <be|le|len> <buf>[,<buf>...] <step>[,<step>...]`: REUSE of one parser object.
// <buf> = `hex` or `hex@l1.t1/l2.t2/...` (the window of a chain of nested views); each buffer is built once and
// keeps its cursor between steps.  <step> = `b:p`: apply the parser object to buffer number b, after
// set_cursor(p) if p is a number, at the cursor the buffer has if p is `=`.  Output: the step results joined by `;`.
fn run_seq(w: &[&str]) -> Option<String> {
    if w.len() != 5 {
        return None
    }
    let mut parser = mk_parser(w[1], w[2])?;
    let mut bufs: Vec<ParseBuffer> = Vec::new();
    for b in w[3].split(',') {
        let (hx, chain) = match b.split_once('@') {
            Some((h, c)) => (h, parse_chain(c)?),
            None => (b, Vec::new()),
        };
        let bytes = buf_of(hx)?;
        bufs.push(if chain.is_empty() { ParseBuffer::new(bytes) } else { chain_buffer(&bytes, &chain)? });
    }
    let mut outs: Vec<String> = Vec::new();
    for s in w[4].split(',') {
        let (b, p) = s.split_once(':')?;
        let b: usize = b.parse().ok()?;
        if b >= bufs.len() {
            return None
        }
        if p != "=" {
            let p: usize = p.parse().ok()?;
            if bufs[b].set_cursor(p).is_err() {
                return None
            }
        }
        outs.push(parser(&mut bufs[b]));
    }
    if outs.is_empty() {
        return None
    }
    Some(outs.join(";"))
}

pub fn run(line: &str) -> String {
    let w: Vec<&str> = line.split_whitespace().collect();
    if !w.is_empty() && w[0] == "seq" {
        return run_seq(&w).unwrap_or_else(|| "bad-case".to_string())
    }
    if w.len() != 4 && w.len() != 5 {
        return "bad-case".to_string()
    }
    let buf = match buf_of(w[2]) {
        Some(b) => b,
        None => return "bad-case".to_string(),
    };
    let pos: usize = match w[3].parse() {
        Ok(p) => p,
        Err(_) => return "bad-case".to_string(),
    };
    // Optional fifth word `@l1.t1/l2.t2/...` (outermost first): the parser runs on the innermost of a chain
    // of nested RestrictViews whose window is exactly `buf`.
    let mut chain: Vec<(usize, usize)> = Vec::new();
    if w.len() == 5 {
        chain = match w[4].strip_prefix('@').and_then(parse_chain) {
            Some(c) => c,
            None => return "bad-case".to_string(),
        };
    }
    // A kind prefixed with 'v' runs the same parser on a RESTRICTED VIEW whose window is exactly
    // `buf` inside a larger allocation (3 bytes before, 2 after): by C17 a view behaves like a
    // copy of its window, so the expected output is the same as on the plain buffer.
    let (kind, mut pb) = if !chain.is_empty() {
        let kind = if w[0].starts_with('v') { &w[0][1 ..] } else { w[0] };
        match chain_buffer(&buf, &chain) {
            Some(cur) => (kind, cur),
            None => return "bad-case".to_string(),
        }
    } else if w[0].starts_with('v') {
        let mut big = vec![0xEEu8, 0x11, 0xEE];
        let n = buf.len();
        big.extend_from_slice(&buf);
        big.extend_from_slice(&[0x77, 0x88]);
        let parent = ParseBuffer::new(big);
        let view = match RestrictView::new(3, n).transform(&parent) {
            Ok(v) => v,
            Err(_) => return "bad-case".to_string(),
        };
        (&w[0][1 ..], view)
    } else {
        (w[0], ParseBuffer::new(buf))
    };
    if pb.set_cursor(pos).is_err() {
        return "bad-case".to_string()
    }
    // a fresh parser object, used once
    match mk_parser(kind, w[1]) {
        Some(mut p) => p(&mut pb),
        None => "bad-case".to_string(),
    }
}

fn main() {
    main_loop(Harness {
        run,
        gen: None,
        extract: None,
    })
}
