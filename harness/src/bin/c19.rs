use verif_harness::*;
use parsley_rust::pcore::parsebuffer::{ParseBuffer, ParseBufferT, ParsleyParser};
use parsley_rust::pcore::prim_binary::*;
use parsley_rust::pcore::transforms::{BufferTransformT, RestrictView};

fn show<T: ToString + PartialEq>(
    r: parsley_rust::pcore::parsebuffer::ParseResult<parsley_rust::pcore::parsebuffer::LocatedVal<T>>,
    pb: &ParseBuffer,
) -> String {
    match r {
        Ok(v) => format!("ok {} {} {} {}", v.val().to_string(), v.start(), v.end(), pb.get_cursor()),
        Err(e) => format!("err {} {}", errk(e.val()), pb.get_cursor()),
    }
}

pub fn run(line: &str) -> String {
    let w: Vec<&str> = line.split_whitespace().collect();
    if w.len() != 4 && w.len() != 5 {
        return "bad-case".to_string()
    }
    let buf = unhex(w[2]);
    let pos: usize = match w[3].parse() {
        Ok(p) => p,
        Err(_) => return "bad-case".to_string(),
    };
    // Optional fifth word `@l1.t1/l2.t2/...` (outermost first): the parser runs on the innermost of a chain
    // of nested RestrictViews whose window is exactly `buf`; view j cuts l_j bytes before and t_j bytes after
    // its window out of view j-1 (view 0 = the whole allocation).
    let mut chain: Vec<(usize, usize)> = Vec::new();
    if w.len() == 5 {
        let spec = match w[4].strip_prefix('@') {
            Some(s) => s,
            None => return "bad-case".to_string(),
        };
        for p in spec.split('/') {
            let lt: Vec<&str> = p.split('.').collect();
            if lt.len() != 2 {
                return "bad-case".to_string()
            }
            match (lt[0].parse::<usize>(), lt[1].parse::<usize>()) {
                (Ok(l), Ok(t)) if l < 4096 && t < 4096 => chain.push((l, t)),
                _ => return "bad-case".to_string(),
            }
        }
    }
    // A kind prefixed with 'v' runs the same parser on a RESTRICTED VIEW whose window is exactly
    // `buf` inside a larger allocation (3 bytes before, 2 after): by C17 a view behaves like a
    // copy of its window, so the expected output is the same as on the plain buffer.
    let (kind, mut pb) = if !chain.is_empty() {
        let kind = if w[0].starts_with('v') { &w[0][1 ..] } else { w[0] };
        let mut big: Vec<u8> = Vec::new();
        for (j, (l, _)) in chain.iter().enumerate() {
            big.extend((0 .. *l).map(|i| 0xE0u8 ^ (j as u8) ^ ((i as u8) << 1)));
        }
        big.extend_from_slice(&buf);
        for (j, (_, t)) in chain.iter().enumerate().rev() {
            big.extend((0 .. *t).map(|i| 0x70u8 ^ (j as u8) ^ ((i as u8) << 1)));
        }
        // window size of view j = everything inside it
        let mut sizes = vec![buf.len(); chain.len()];
        for j in (0 .. chain.len() - 1).rev() {
            sizes[j] = chain[j + 1].0 + sizes[j + 1] + chain[j + 1].1;
        }
        let mut cur = ParseBuffer::new(big);
        for (j, (l, _)) in chain.iter().enumerate() {
            cur = match RestrictView::new(*l, sizes[j]).transform(&cur) {
                Ok(v) => v,
                Err(_) => return "bad-case".to_string(),
            };
        }
        (kind, cur)
    } else if w[0].starts_with('v') {
        let mut big = vec![0xEEu8, 0x11, 0xEE];
        let n = buf.len();
        big.extend_from_slice(&buf);
        big.extend_from_slice(&[0x77, 0x88]);
        let parent = ParseBuffer::new(big);
        let view = match RestrictView::new(3, n).transform(&parent) {
            Ok(v) => v,
            Err(_) => return "bad-case".to_string(),
        };
        (&w[0][1 ..], view)
    } else {
        (w[0], ParseBuffer::new(buf))
    };
    if pb.set_cursor(pos).is_err() {
        return "bad-case".to_string()
    }
    if kind == "bv" {
        let len: usize = match w[1].parse() {
            Ok(l) => l,
            Err(_) => return "bad-case".to_string(),
        };
        let r = ByteVecP::new(len).parse(&mut pb);
        return match r {
            Ok(v) => format!("ok {} {} {} {}", hex(v.val()), v.start(), v.end(), pb.get_cursor()),
            Err(e) => format!("err {} {}", errk(e.val()), pb.get_cursor()),
        }
    }
    let e = match w[1] {
        "be" => Endian::Big,
        "le" => Endian::Little,
        _ => return "bad-case".to_string(),
    };
    match kind {
        "u8" => show(UInt8P.parse(&mut pb), &pb),
        "u16" => show(UInt16P::new(e).parse(&mut pb), &pb),
        "u32" => show(UInt32P::new(e).parse(&mut pb), &pb),
        "u64" => show(UInt64P::new(e).parse(&mut pb), &pb),
        "i8" => show(Int8P.parse(&mut pb), &pb),
        "i16" => show(Int16P::new(e).parse(&mut pb), &pb),
        "i32" => show(Int32P::new(e).parse(&mut pb), &pb),
        "i64" => show(Int64P::new(e).parse(&mut pb), &pb),
        _ => "bad-case".to_string(),
    }
}

fn main() {
    main_loop(Harness {
        run,
        gen: None,
        extract: None,
    })
}
