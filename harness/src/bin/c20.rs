// C20: runs the REAL RTPS packet reader (parsley_rust::rtps_lib) on the datagram of each case.
//
//   case    raw <hex> | enc <hex> <packet...>        (only the datagram is used here)
//   output  ok <cursor> <version> <vendor> <prefix-hex> <n> { <id> <flags> <length> <payload-hex> }^n
//           err
//           panic <msg>                               (from catch_unwind in main_loop)
//
// <hex> may be written in descriptor form (datagrams with tens of thousands of sub-messages, 64 KiB
// payloads): segments joined by `+`, each segment `<hex>` or `<n>*<hex>` (= n copies of <hex>), e.g.
// `52545053…+65537*15010100aa+0702000000`.  `expand` below and `bytesOfDesc` in lean/Driver/C20.lean
// turn it into the same bytes; a word without `+`/`*` is plain hex as before.
//
// view variant:  vw <steps> <prehex> <sufhex> <case as above>
//   the bytes <prehex> ++ <datagram> ++ <sufhex> are ONE allocation (a capture buffer); <steps>
//   (comma-separated, applied in order, each to the result of the previous one) restrict it to a view:
//     R<start>:<size>  RestrictView::new(start, size)      F<start>  RestrictViewFrom::new(start)
//   PacketP then runs on the resulting view exactly as on a plain buffer; <cursor> is the cursor of the
//   view.  The steps are meant to select the window <datagram>; the harness checks that the view it
//   obtained shows exactly those bytes (`view-mismatch` otherwise; `view-error` if a step is refused).
//
// Observation of the returned value.  `Packet`, `Header`, `SubMessage`… keep their fields private
// and expose no accessor for version, vendor, flags or payload; what they do expose is
// `#[derive(Debug, PartialEq)]` and public constructors.  So the field values are read off the
// derived `Debug` rendering (structure: numbers and brackets only – field names are ignored), the
// packet is REBUILT from them through the public constructors, and the rebuilt packet must be `==`
// to the one the parser returned; only then is the value reported.  Where accessors exist
// (`msgs().len()`, `SubMessage::kind()`, `hdr()`), they are cross-checked as well.  If any of this
// fails the line is `ok <cursor> unobservable …`, which the oracle rejects.
use parsley_rust::pcore::parsebuffer::{ParseBuffer, ParseBufferT, ParsleyParser};
use parsley_rust::pcore::transforms::{BufferTransformT, RestrictView, RestrictViewFrom};
use parsley_rust::rtps_lib::rtps_packet::{Packet, PacketP};
use parsley_rust::rtps_lib::rtps_prim::{
    GuidPrefix, Header, ProtocolVersion, SubMessage, SubMessageHeader, VendorId,
};
use verif_harness::*;

#[derive(Debug, Clone, PartialEq)]
enum Tok {
    Num(u64),
    Open,
    Close,
}

fn tokens(s: &str) -> Vec<Tok> {
    let mut v = Vec::new();
    let b = s.as_bytes();
    let mut i = 0;
    while i < b.len() {
        let c = b[i];
        if c == b'[' {
            v.push(Tok::Open);
            i += 1
        } else if c == b']' {
            v.push(Tok::Close);
            i += 1
        } else if c.is_ascii_digit() && (i == 0 || !(b[i - 1].is_ascii_alphanumeric() || b[i - 1] == b'_')) {
            let mut n: u64 = 0;
            while i < b.len() && b[i].is_ascii_digit() {
                n = n.saturating_mul(10).saturating_add((b[i] - b'0') as u64);
                i += 1
            }
            v.push(Tok::Num(n))
        } else {
            i += 1
        }
    }
    v
}

struct Obs {
    version: u16,
    vendor:  u16,
    prefix:  Vec<u8>,
    subs:    Vec<(u8, u8, u16, Vec<u8>)>,
}

struct Cur<'a> {
    t: &'a [Tok],
    i: usize,
}
impl<'a> Cur<'a> {
    fn num(&mut self, max: u64) -> Option<u64> {
        match self.t.get(self.i) {
            Some(Tok::Num(n)) if *n <= max => {
                self.i += 1;
                Some(*n)
            },
            _ => None,
        }
    }
    fn tok(&mut self, t: Tok) -> Option<()> {
        if self.t.get(self.i) == Some(&t) {
            self.i += 1;
            Some(())
        } else {
            None
        }
    }
    fn bytes(&mut self) -> Option<Vec<u8>> {
        self.tok(Tok::Open)?;
        let mut v = Vec::new();
        while let Some(Tok::Num(_)) = self.t.get(self.i) {
            v.push(self.num(255)? as u8)
        }
        self.tok(Tok::Close)?;
        Some(v)
    }
}

// Packet { hdr: Header { version: .. { id: N }, vendorid: .. { id: N }, guid_prefix: .. { id: [..12] } },
//          msgs: [SubMessage { header: .. { sub_msg_id: N, flags: N, length: N }, payload: [..] }, ..] }
fn observe(dbg: &str) -> Option<Obs> {
    let t = tokens(dbg);
    let mut c = Cur { t: &t, i: 0 };
    let version = c.num(65535)? as u16;
    let vendor = c.num(65535)? as u16;
    let prefix = c.bytes()?;
    c.tok(Tok::Open)?;
    let mut subs = Vec::new();
    while let Some(Tok::Num(_)) = c.t.get(c.i) {
        let id = c.num(255)? as u8;
        let fl = c.num(255)? as u8;
        let len = c.num(65535)? as u16;
        let pl = c.bytes()?;
        subs.push((id, fl, len, pl))
    }
    c.tok(Tok::Close)?;
    if c.i != t.len() {
        return None
    }
    Some(Obs { version, vendor, prefix, subs })
}

fn rebuild(o: &Obs) -> Option<Packet> {
    if o.prefix.len() != 12 {
        return None
    }
    let mut g = [0u8; 12];
    g.copy_from_slice(&o.prefix);
    let hdr = Header::new(ProtocolVersion::new(o.version), VendorId::new(o.vendor), GuidPrefix::new(g));
    let msgs = o
        .subs
        .iter()
        .map(|(id, fl, len, pl)| SubMessage::new(SubMessageHeader::new(*id, *fl, *len), pl.clone()))
        .collect();
    Some(Packet::new(hdr, msgs))
}

fn show(p: &Packet) -> String {
    let dbg = format!("{:?}", p);
    let o = match observe(&dbg) {
        Some(o) => o,
        None => return "unobservable debug-rendering-not-understood".to_string(),
    };
    let q = match rebuild(&o) {
        Some(q) => q,
        None => return "unobservable prefix-not-12-bytes".to_string(),
    };
    if q != *p || q.hdr() != p.hdr() || q.msgs().len() != p.msgs().len() {
        return "unobservable rebuilt-packet-differs".to_string()
    }
    for (a, b) in q.msgs().iter().zip(p.msgs().iter()) {
        if a.kind() != b.kind() {
            return "unobservable rebuilt-kind-differs".to_string()
        }
    }
    let mut s = format!("{} {} {} {}", o.version, o.vendor, hex(&o.prefix), o.subs.len());
    for (id, fl, len, pl) in &o.subs {
        s.push_str(&format!(" {} {} {} {}", id, fl, len, hex(pl)));
    }
    s
}

// the datagram word: plain hex, or the descriptor form `<seg>+<seg>+…`, <seg> = <hex> | <n>*<hex>
fn expand(w: &str) -> Option<Vec<u8>> {
    let mut v = Vec::new();
    for seg in w.split('+') {
        match seg.split_once('*') {
            Some((n, h)) => {
                let n: usize = n.parse().ok()?;
                let u = unhex(h);
                v.reserve(n.checked_mul(u.len())?);
                for _ in 0 .. n {
                    v.extend_from_slice(&u)
                }
            },
            None => v.extend_from_slice(&unhex(seg)),
        }
    }
    Some(v)
}

// the view selected by <steps> in pre ++ window ++ suf
fn view_of(steps: &str, pre: &[u8], window: &[u8], suf: &[u8]) -> Result<ParseBuffer, &'static str> {
    let mut all = pre.to_vec();
    all.extend_from_slice(window);
    all.extend_from_slice(suf);
    let mut pb = ParseBuffer::new(all);
    for st in steps.split(',') {
        let r = if let Some(t) = st.strip_prefix('R') {
            let p: Vec<&str> = t.split(':').collect();
            if p.len() != 2 {
                return Err("bad-case")
            }
            match (p[0].parse::<usize>(), p[1].parse::<usize>()) {
                (Ok(a), Ok(b)) => RestrictView::new(a, b).transform(&pb),
                _ => return Err("bad-case"),
            }
        } else if let Some(t) = st.strip_prefix('F') {
            match t.parse::<usize>() {
                Ok(a) => RestrictViewFrom::new(a).transform(&pb),
                _ => return Err("bad-case"),
            }
        } else {
            return Err("bad-case")
        };
        pb = match r {
            Ok(v) => v,
            Err(_) => return Err("view-error"),
        };
    }
    if pb.get_cursor() != 0 || pb.size() != window.len() || pb.remaining() != window.len() || pb.buf() != window {
        return Err("view-mismatch")
    }
    Ok(pb)
}

pub fn run(line: &str) -> String {
    let w: Vec<&str> = line.split_whitespace().collect();
    if !w.is_empty() && w[0] == "vw" {
        if w.len() < 6 || (w[4] != "raw" && w[4] != "enc") {
            return "bad-case".to_string()
        }
        let win = match expand(w[5]) {
            Some(b) => b,
            None => return "bad-case".to_string(),
        };
        return match view_of(w[1], &unhex(w[2]), &win, &unhex(w[3])) {
            Ok(pb) => run_on(pb),
            Err(e) => e.to_string(),
        }
    }
    if w.len() < 2 || (w[0] != "raw" && w[0] != "enc") {
        return "bad-case".to_string()
    }
    match expand(w[1]) {
        Some(b) => run_on(ParseBuffer::new(b)),
        None => "bad-case".to_string(),
    }
}

fn run_on(mut pb: ParseBuffer) -> String {
    let mut pp = PacketP;
    match pp.parse(&mut pb) {
        Ok(p) => format!("ok {} {}", pb.get_cursor(), show(p.val())),
        Err(_) => "err".to_string(),
    }
}

fn main() {
    main_loop(Harness {
        run,
        gen: None,
        extract: None,
    })
}
