// Shared part of the correspondence harness: hex codecs, ErrorKind names, and the
// line-protocol main loop.  Each property has its own binary (src/bin/cXX.rs) so that
// a change in /repo that stops one property's harness from compiling cannot silence
// the others.
//
//   cXX run            < cases > out     one canonical output line per case; every case runs
//                                        under catch_unwind (a Rust panic is reported as `panic`).
//                                        Hard crashes (stack overflow, abort) kill the process:
//                                        ./check restarts after the offending case and records
//                                        `crash:<rc>` for it.
//   cXX gen <seed> <n> <tier>            optional native case generator
//   cXX extract <name>                   optional: emit Parsley/Gen/<name>.lean from the real crate
pub mod objfmt;
use std::io::{BufRead, Write};
use std::panic;

pub struct Harness {
    pub run:     fn(&str) -> String,
    pub gen:     Option<fn(u64, usize, &str, &mut dyn FnMut(String))>,
    pub extract: Option<fn(&str) -> Option<String>>,
}

pub fn main_loop(h: Harness) {
    let args: Vec<String> = std::env::args().collect();
    if args.len() < 2 {
        eprintln!("usage: run | gen <seed> <n> <tier> | extract <name>");
        std::process::exit(2);
    }
    let stdout = std::io::stdout();
    let mut out = std::io::BufWriter::new(stdout.lock());
    match args[1].as_str() {
        "run" => {
            panic::set_hook(Box::new(|_| {}));
            let stdin = std::io::stdin();
            let f = h.run;
            for line in stdin.lock().lines() {
                let line = line.unwrap();
                let r = panic::catch_unwind(|| f(&line));
                let s = match r {
                    Ok(s) => s,
                    Err(e) => {
                        let msg = if let Some(s) = e.downcast_ref::<&str>() {
                            s.to_string()
                        } else if let Some(s) = e.downcast_ref::<String>() {
                            s.clone()
                        } else {
                            "?".to_string()
                        };
                        format!("panic {}", msg.replace('\n', " ").replace('\t', " "))
                    },
                };
                writeln!(out, "{}", s).unwrap();
                out.flush().unwrap();
            }
        },
        "gen" => match h.gen {
            Some(g) if args.len() == 5 => {
                let seed: u64 = args[2].parse().unwrap();
                let n: usize = args[3].parse().unwrap();
                g(seed, n, &args[4], &mut |s| writeln!(out, "{}", s).unwrap());
            },
            _ => std::process::exit(2),
        },
        "extract" => match h.extract {
            Some(x) if args.len() == 3 => match x(&args[2]) {
                Some(s) => write!(out, "{}", s).unwrap(),
                None => std::process::exit(2),
            },
            _ => std::process::exit(2),
        },
        _ => std::process::exit(2),
    }
}

/// xorshift64* (same generator as the Lean side; used by native generators)
pub struct Rng(pub u64);
impl Rng {
    pub fn new(seed: u64) -> Rng {
        let z = seed.wrapping_mul(2654435761).wrapping_add(88172645463325252);
        Rng(if z == 0 { 88172645463325252 } else { z })
    }
    pub fn next(&mut self) -> u64 {
        let mut x = self.0;
        x ^= x >> 12;
        x ^= x << 25;
        x ^= x >> 27;
        self.0 = x;
        x.wrapping_mul(2685821657736338717)
    }
    pub fn below(&mut self, n: usize) -> usize { if n == 0 { 0 } else { ((self.next() >> 11) as usize) % n } }
    pub fn bytes(&mut self, n: usize) -> Vec<u8> { (0 .. n).map(|_| self.below(256) as u8).collect() }
}

use parsley_rust::pcore::parsebuffer::ErrorKind;

pub fn unhex(s: &str) -> Vec<u8> {
    if s == "-" {
        return Vec::new()
    }
    let b = s.as_bytes();
    let mut v = Vec::with_capacity(b.len() / 2);
    let hv = |c: u8| -> u8 {
        match c {
            b'0' ..= b'9' => c - b'0',
            b'a' ..= b'f' => c - b'a' + 10,
            b'A' ..= b'F' => c - b'A' + 10,
            _ => panic!("bad hex"),
        }
    };
    let mut i = 0;
    while i + 1 < b.len() {
        v.push(hv(b[i]) * 16 + hv(b[i + 1]));
        i += 2;
    }
    v
}

pub fn hex(b: &[u8]) -> String {
    if b.is_empty() {
        return "-".to_string()
    }
    let mut s = String::with_capacity(b.len() * 2);
    for x in b {
        s.push_str(&format!("{:02x}", x));
    }
    s
}

pub fn errk(e: &ErrorKind) -> &'static str {
    match e {
        ErrorKind::EndOfBuffer => "eob",
        ErrorKind::InsufficientContext => "ctx",
        ErrorKind::BoundsError => "bounds",
        ErrorKind::PrimitiveError(_) => "prim",
        ErrorKind::GuardError(_) => "guard",
        ErrorKind::TransformError(_) => "transform",
    }
}
