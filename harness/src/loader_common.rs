// Shared by the C03 and C04 harness binaries (included with #[path]).
// Runs the REAL loader (parse_data) in-process on the bytes of a case.  A rejection
// (exit_log!) unwinds with a VerifExit payload under feature `verif` and is printed as
// `rejected`; any other unwinding is a genuine panic.
//
// case line:   <tag> <hex of the file> [<anything the oracle needs> ...]
// output:      rejected
//            | ok <root num> <root gen> | <num> <gen> <value sexp> | ...      (defined ids in map order)
//            | panic <message>
use parsley_rust::pdf_lib::pdf_traverse_xref::{parse_data, VerifExit};
use std::panic::{catch_unwind, AssertUnwindSafe};
use std::path::Path;
use verif_harness::objfmt::obj_sexp;
use verif_harness::unhex;

pub fn load_line(line: &str) -> String {
    let w: Vec<&str> = line.split(' ').filter(|x| !x.is_empty()).collect();
    if w.len() < 2 {
        return "bad-case".to_string()
    }
    let data = unhex(w[1]);
    let r = catch_unwind(AssertUnwindSafe(|| {
        let (_fi, ctxt, root) = parse_data(Path::new("case.pdf"), &data);
        let mut out = format!("ok {} {}", root.0, root.1);
        for id in ctxt.verif_ids() {
            let o = ctxt.lookup_obj(id).unwrap();
            out.push_str(&format!(" | {} {} {}", id.0, id.1, obj_sexp(o.val())));
        }
        out
    }));
    match r {
        Ok(s) => s,
        Err(e) => {
            if e.downcast_ref::<VerifExit>().is_some() {
                "rejected".to_string()
            } else {
                let msg = if let Some(s) = e.downcast_ref::<&str>() {
                    s.to_string()
                } else if let Some(s) = e.downcast_ref::<String>() {
                    s.clone()
                } else {
                    "?".to_string()
                };
                format!("panic {}", msg.replace('\n', " ").replace('\t', " "))
            }
        },
    }
}
