// Shared by the C03 and C04 harness binaries (included with #[path]).
// Runs the REAL loader (parse_data) in-process on the bytes of a case.  A rejection
// (exit_log!) unwinds with a VerifExit payload under feature `verif` and is printed as
// `rejected`; any other unwinding is a genuine panic.
//
// case line:   <tag> <hex of the file> [<anything the oracle needs> ...]
//              garb|garh <hex of the document> <seed> <variant> <lk> <ll> <gk> <gl> <tk> <tl> [o]
//                 size-sweep cases: the file is the document with filler (kind, length) before the header, in the gap
//                 before the last `startxref` and after the last %%EOF; expanded by `case_bytes` exactly as
//                 Driver/C03.lean `garbFile` does (see there for the kinds)
// output:      rejected
//            | ok <root num> <root gen> | <num> <gen> <value sexp> | ...      (defined ids in map order)
//              (garb / garh cases: followed by ` @<file offset of the header as reported by FileInfo>`)
//            | panic <message>
use parsley_rust::pdf_lib::pdf_traverse_xref::{parse_data, VerifExit};
use std::panic::{catch_unwind, AssertUnwindSafe};
use std::path::Path;
use verif_harness::objfmt::obj_sexp;
use verif_harness::unhex;

const PAT2: &[u8] = b"%PDF 1.4\n%PDF_1.7 %PDF\n%%EOF\nstartxref\n0\n%%EOF\nxref\n0 1\n0000000000 65535 f \ntrailer\n<< /Size 1 /Root 1 0 R >>\n";
const PAT3: &[u8] = b"1.4\n1 0 obj\n<< /Type /Catalog /Pages 2 0 R >>\nendobj\n2 0 obj\n<< /Type /Pages /Kids [] /Count 0 >>\nendobj\nxref\n0 3\n0000000000 65535 f \n0000000004 00000 n \n0000000053 00000 n \ntrailer\n<< /Size 3 /Root 1 0 R >>\nstartxref\n109\n%%EOF\n";
const PAT4: &[u8] = b"%%EO\n%EOF\nstartxref\n7\n%%E0F %%EOf\n%PDF-1.7\ntrailer\n<< /Size 9 >>\nstartxre\n";
const PAT5: &[u8] = b" \n\r\n\t % padding\n  ";

/// filler bytes: a pure function of (kind, length, salt); mirrors `Driver.C03.fill`
fn fill(kind: u64, len: usize, salt: u64) -> Vec<u8> {
    let mut v = Vec::with_capacity(len);
    match kind {
        0 => v.resize(len, 0u8),
        1 => {
            let mut s: u64 = salt % 2147483648;
            for _ in 0 .. len {
                s = (s * 1103515245 + 12345) % 2147483648;
                let b = ((s / 65536) % 256) as u8;
                v.push(if b == 37 { 36 } else { b });
            }
        },
        k => {
            let p = match k {
                2 => PAT2,
                3 => PAT3,
                4 => PAT4,
                _ => PAT5,
            };
            for i in 0 .. len {
                v.push(p[((salt as usize) + i) % p.len()]);
            }
        },
    }
    v
}

/// the file of a case: word 2, or (garb / garh) the document of word 2 with its three fillers
pub fn case_bytes(w: &[&str]) -> Vec<u8> {
    let doc = unhex(w[1]);
    if !(w[0] == "garb" || w[0] == "garh") || w.len() < 10 {
        return doc
    }
    let n = |i: usize| -> u64 { w[i].parse::<u64>().unwrap_or(0) };
    let seed = n(2);
    let tag = b"startxref";
    let mut gp = doc.len();
    if doc.len() >= tag.len() {
        for i in (0 ..= doc.len() - tag.len()).rev() {
            if &doc[i .. i + tag.len()] == tag {
                gp = i;
                break
            }
        }
    }
    let mut out = fill(n(4), n(5) as usize, seed);
    out.extend_from_slice(&doc[.. gp]);
    out.extend_from_slice(&fill(n(6), n(7) as usize, seed + 1));
    out.extend_from_slice(&doc[gp ..]);
    out.extend_from_slice(&fill(n(8), n(9) as usize, seed + 2));
    out
}

pub fn load_line(line: &str) -> String {
    let w: Vec<&str> = line.split(' ').filter(|x| !x.is_empty()).collect();
    if w.len() < 2 {
        return "bad-case".to_string()
    }
    let data = case_bytes(&w);
    let with_hdr = w[0] == "garb" || w[0] == "garh";
    let r = catch_unwind(AssertUnwindSafe(|| {
        let (fi, ctxt, root) = parse_data(Path::new("case.pdf"), &data);
        let mut out = format!("ok {} {}", root.0, root.1);
        for id in ctxt.verif_ids() {
            let o = ctxt.lookup_obj(id).unwrap();
            out.push_str(&format!(" | {} {} {}", id.0, id.1, obj_sexp(o.val())));
        }
        if with_hdr {
            out.push_str(&format!(" @{}", fi.file_offset(0)));
        }
        out
    }));
    match r {
        Ok(s) => s,
        Err(e) => {
            if e.downcast_ref::<VerifExit>().is_some() {
                "rejected".to_string()
            } else {
                let msg = if let Some(s) = e.downcast_ref::<&str>() {
                    s.to_string()
                } else if let Some(s) = e.downcast_ref::<String>() {
                    s.clone()
                } else {
                    "?".to_string()
                };
                format!("panic {}", msg.replace('\n', " ").replace('\t', " "))
            }
        },
    }
}
