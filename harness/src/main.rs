// Correspondence harness: runs the real parsley-rust code on the cases of the
// line protocol (one case per input line, one canonical output line per case).
// Every case runs under catch_unwind; a Rust panic is reported as `panic`.
// Hard crashes (stack overflow, abort) kill the process: the runner restarts
// after the offending case and records `crash:<signal>` for it.
use std::io::{BufRead, Write};
use std::panic;

mod util;
mod c19;

fn dispatch(prop: &str) -> Option<fn(&str) -> String> {
    match prop {
        "C19" => Some(c19::run),
        _ => None,
    }
}

fn main() {
    let args: Vec<String> = std::env::args().collect();
    if args.len() < 3 || args[1] != "run" {
        eprintln!("usage: corr run <prop> < cases > out");
        std::process::exit(2);
    }
    let f = match dispatch(&args[2]) {
        Some(f) => f,
        None => {
            eprintln!("unknown property {}", args[2]);
            std::process::exit(2);
        },
    };
    panic::set_hook(Box::new(|_| {}));
    let stdin = std::io::stdin();
    let stdout = std::io::stdout();
    let mut out = stdout.lock();
    for line in stdin.lock().lines() {
        let line = line.unwrap();
        let r = panic::catch_unwind(|| f(&line));
        let s = match r {
            Ok(s) => s,
            Err(e) => {
                let msg = if let Some(s) = e.downcast_ref::<&str>() {
                    s.to_string()
                } else if let Some(s) = e.downcast_ref::<String>() {
                    s.clone()
                } else {
                    "?".to_string()
                };
                format!("panic {}", msg.replace('\n', " ").replace('\t', " "))
            },
        };
        writeln!(out, "{}", s).unwrap();
        out.flush().unwrap();
    }
}
