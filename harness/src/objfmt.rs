// Canonical S-expression of a PDFObjT (locations dropped; dictionary keys in BTreeMap order).
// Must print exactly what lean/Driver/ObjFmt.lean prints for the model's `Obj`.
use crate::hex;
use parsley_rust::pdf_lib::pdf_obj::{DictT, PDFObjT};

pub fn dict_sexp(d: &DictT, out: &mut String) {
    out.push_str("(dict");
    for (k, v) in d.map().iter() {
        out.push_str(" (");
        out.push_str(&hex(k.as_slice()));
        out.push(' ');
        obj_sexp_into(v.val(), out);
        out.push(')');
    }
    out.push(')');
}

pub fn obj_sexp_into(o: &PDFObjT, out: &mut String) {
    match o {
        PDFObjT::Null(_) => out.push_str("null"),
        PDFObjT::Boolean(b) => out.push_str(if *b { "true" } else { "false" }),
        PDFObjT::Integer(i) => out.push_str(&format!("(int {})", i.int_val())),
        PDFObjT::Real(r) => {
            // RealT's fields are private: its derived Debug prints `RealT(n, d)`
            let s = format!("{:?}", r);
            let inner = s.trim_start_matches("RealT(").trim_end_matches(')');
            let parts: Vec<&str> = inner.split(", ").collect();
            out.push_str(&format!("(real {} {})", parts[0], parts[1]))
        },
        PDFObjT::String(v) => out.push_str(&format!("(str {})", hex(v))),
        PDFObjT::Name(n) => out.push_str(&format!("(name {})", hex(n.val()))),
        PDFObjT::Reference(r) => out.push_str(&format!("(ref {} {})", r.num(), r.gen())),
        PDFObjT::Comment(c) => out.push_str(&format!("(comment {})", hex(c))),
        PDFObjT::Array(a) => {
            out.push_str("(arr");
            for e in a.objs() {
                out.push(' ');
                obj_sexp_into(e.val(), out);
            }
            out.push(')');
        },
        PDFObjT::Dict(d) => dict_sexp(d, out),
        PDFObjT::Stream(s) => {
            out.push_str("(stream ");
            dict_sexp(s.dict().val(), out);
            let c = s.stream().val();
            out.push_str(&format!(" {} {} {})", c.start(), c.size(), hex(c.content())));
        },
    }
}

pub fn obj_sexp(o: &PDFObjT) -> String {
    let mut s = String::new();
    obj_sexp_into(o, &mut s);
    s
}
