// Shared by the C08 and C09 harness binaries (included with #[path]): decoder of the
// type-check case format into REAL parsley-rust values (objects, object context,
// type-check context, checks built through the `verif` constructors) and the call of the
// real `check_type`.
//
// Case line (prefix notation, blank-separated tokens; see lean/Driver/TypeCheckCodec.lean):
//   <tag> <ctx> <graph> <chk> <obj>
//   ctx   := k (name rep)*k             reps registered under `name`, in order (later wins)
//   graph := k (num gen obj)*k          indirect objects
//   chk   := n name | rep
//   rep   := r pred ind typ
//   pred  := - | pt | pf | pr | pc k obj*k
//   ind   := q (required) | a (allowed) | f (forbidden)
//   typ   := any | p prim | arr size|- chk | het k chk*k | dict k (keyhex opt chk)*k (- | * opt chk)
//          | strm k (keyhex opt chk)*k | dis k chk*k
//   prim  := b s n u i f c ;  opt := q (required) | o (optional) | f (forbidden)
//   obj   := A k obj*k | D k (keyhex obj)*k | S k (keyhex obj)*k start hex | R num gen | B 0|1
//          | Z hex | N hex | U | C hex | I int | F num den
// Sequence line (C09; see lean/Driver/C09Seq.lean): several checks on ONE context
//   seq <ctx> <graph> k (stepchk obj)*k
//   stepchk := n name | rep | m name rep | e i | ea i | eg i | eb i | et i rep | g name rep
use parsley_rust::pcore::parsebuffer::LocatedVal;
use parsley_rust::pdf_lib::pdf_obj::{
    ArrayT, DictKey, DictT, IndirectT, PDFObjContext, PDFObjT, ReferenceT, StreamT,
};
use parsley_rust::pdf_lib::pdf_prim::{IntegerT, NameT, RealT, StreamContentT};
use parsley_rust::pdf_lib::pdf_type_check::{
    check_type, verif_reset_steps, verif_steps, ChoicePred, DictEntry, DictKeySpec, DictStarEntry,
    IndirectSpec, PDFPrimType, PDFType, Predicate, TypeCheck, TypeCheckContext, TypeCheckError,
    TypeCheckRep,
};
use std::collections::{BTreeMap, HashMap};
use std::rc::Rc;

pub fn unhex(s: &str) -> Vec<u8> {
    if s == "-" {
        return Vec::new()
    }
    let b = s.as_bytes();
    let hv = |c: u8| -> u8 {
        match c {
            b'0' ..= b'9' => c - b'0',
            b'a' ..= b'f' => c - b'a' + 10,
            b'A' ..= b'F' => c - b'A' + 10,
            _ => panic!("bad hex"),
        }
    };
    let mut v = Vec::new();
    let mut i = 0;
    while i + 1 < b.len() {
        v.push(hv(b[i]) * 16 + hv(b[i + 1]));
        i += 2;
    }
    v
}

pub type Obj = Rc<LocatedVal<PDFObjT>>;

struct TruePred;
impl Predicate for TruePred {
    fn check(&self, _obj: &Obj) -> Option<LocatedVal<TypeCheckError>> { None }
}
struct FailPred;
impl Predicate for FailPred {
    fn check(&self, obj: &Obj) -> Option<LocatedVal<TypeCheckError>> {
        Some(obj.place(TypeCheckError::PredicateError("never".to_string())))
    }
}
// same text as the (private) ReferencePredicate of common_data_structures.rs / page_tree.rs
struct RefArrPred;
impl Predicate for RefArrPred {
    fn check(&self, obj: &Obj) -> Option<LocatedVal<TypeCheckError>> {
        if let PDFObjT::Array(ref s) = obj.val() {
            for c in s.objs() {
                if let PDFObjT::Reference(ref _s2) = c.val() {
                } else {
                    return Some(obj.place(TypeCheckError::PredicateError(
                        "Reference expected".to_string(),
                    )))
                }
            }
            None
        } else {
            Some(obj.place(TypeCheckError::PredicateError(
                "Reference wasn't an Array".to_string(),
            )))
        }
    }
}

pub struct Dec<'a> {
    t:       Vec<&'a str>,
    i:       usize,
    scratch: TypeCheckContext,
    // predicates are interned by their token text, so that pointer identity of the
    // Rc<dyn Predicate> coincides with structural equality of the model's Pred values
    preds:   HashMap<String, Rc<dyn Predicate>>,
}

impl<'a> Dec<'a> {
    pub fn new(line: &'a str) -> Dec<'a> {
        Dec {
            t:       line.split_whitespace().collect(),
            i:       0,
            scratch: TypeCheckContext::new(),
            preds:   HashMap::new(),
        }
    }
    pub fn tok(&mut self) -> &'a str {
        let s = self.t[self.i];
        self.i += 1;
        s
    }
    pub fn num(&mut self) -> usize { self.tok().parse().unwrap() }
    pub fn done(&self) -> bool { self.i == self.t.len() }

    pub fn raw_obj(&mut self) -> PDFObjT {
        match self.tok() {
            "A" => {
                let k = self.num();
                let mut v = Vec::new();
                for _ in 0 .. k {
                    v.push(self.obj())
                }
                PDFObjT::Array(ArrayT::new(v))
            },
            "D" => PDFObjT::Dict(self.dict_body()),
            "S" => {
                let d = self.dict_body();
                let start = self.num();
                let content = unhex(self.tok());
                let sc = StreamContentT::new(start, content.len(), content);
                PDFObjT::Stream(StreamT::new(
                    Rc::new(LocatedVal::new(d, 0, 0)),
                    LocatedVal::new(sc, 0, 0),
                ))
            },
            "R" => {
                let n = self.num();
                let g = self.num();
                PDFObjT::Reference(ReferenceT::new(n, g))
            },
            "B" => PDFObjT::Boolean(self.tok() == "1"),
            "Z" => PDFObjT::String(unhex(self.tok())),
            "N" => PDFObjT::Name(NameT::new(unhex(self.tok()))),
            "U" => PDFObjT::Null(()),
            "C" => PDFObjT::Comment(unhex(self.tok())),
            "I" => PDFObjT::Integer(IntegerT::new(self.tok().parse().unwrap())),
            "F" => {
                let n: i128 = self.tok().parse().unwrap();
                let d: i128 = self.tok().parse().unwrap();
                PDFObjT::Real(RealT::new(n, d))
            },
            x => panic!("bad obj token {}", x),
        }
    }
    fn dict_body(&mut self) -> DictT {
        let k = self.num();
        let mut m = BTreeMap::new();
        for _ in 0 .. k {
            let key = unhex(self.tok());
            let v = self.obj();
            m.insert(DictKey::new(key), v);
        }
        DictT::new(m)
    }
    pub fn obj(&mut self) -> Obj { Rc::new(LocatedVal::new(self.raw_obj(), 0, 0)) }

    fn pred(&mut self) -> Option<Rc<dyn Predicate>> {
        let start = self.i;
        let p: Rc<dyn Predicate> = match self.tok() {
            "-" => return None,
            "pt" => Rc::new(TruePred),
            "pf" => Rc::new(FailPred),
            "pr" => Rc::new(RefArrPred),
            "pc" => {
                let k = self.num();
                let mut v = Vec::new();
                for _ in 0 .. k {
                    v.push(self.raw_obj())
                }
                Rc::new(ChoicePred(String::from("choice"), v))
            },
            x => panic!("bad pred token {}", x),
        };
        let key = self.t[start .. self.i].join(" ");
        Some(Rc::clone(self.preds.entry(key).or_insert(p)))
    }
    fn ind(&mut self) -> IndirectSpec {
        match self.tok() {
            "q" => IndirectSpec::Required,
            "a" => IndirectSpec::Allowed,
            "f" => IndirectSpec::Forbidden,
            x => panic!("bad ind {}", x),
        }
    }
    fn opt(&mut self) -> DictKeySpec {
        match self.tok() {
            "q" => DictKeySpec::Required,
            "o" => DictKeySpec::Optional,
            "f" => DictKeySpec::Forbidden,
            x => panic!("bad opt {}", x),
        }
    }
    fn ents(&mut self) -> Vec<DictEntry> {
        let k = self.num();
        let mut v = Vec::new();
        for _ in 0 .. k {
            let key = unhex(self.tok());
            let o = self.opt();
            let c = self.chk();
            v.push(DictEntry::verif_new(key, c, o))
        }
        v
    }
    fn typ(&mut self) -> PDFType {
        match self.tok() {
            "any" => PDFType::Any,
            "p" => PDFType::PrimType(match self.tok() {
                "b" => PDFPrimType::Bool,
                "s" => PDFPrimType::String,
                "n" => PDFPrimType::Name,
                "u" => PDFPrimType::Null,
                "i" => PDFPrimType::Integer,
                "f" => PDFPrimType::Real,
                "c" => PDFPrimType::Comment,
                x => panic!("bad prim {}", x),
            }),
            "arr" => {
                let s = self.tok();
                let size = if s == "-" { None } else { Some(s.parse().unwrap()) };
                let elem = self.chk();
                PDFType::Array { elem, size }
            },
            "het" => {
                let k = self.num();
                let mut elems = Vec::new();
                for _ in 0 .. k {
                    elems.push(self.chk())
                }
                PDFType::HetArray { elems }
            },
            "dict" => {
                let ents = self.ents();
                let star = match self.tok() {
                    "-" => None,
                    "*" => {
                        let o = self.opt();
                        let c = self.chk();
                        Some(DictStarEntry::verif_new(c, o))
                    },
                    x => panic!("bad star {}", x),
                };
                PDFType::Dict(ents, star)
            },
            "strm" => PDFType::Stream(self.ents()),
            "dis" => {
                let k = self.num();
                let mut v = Vec::new();
                for _ in 0 .. k {
                    v.push(self.chk())
                }
                PDFType::Disjunct(v)
            },
            x => panic!("bad typ {}", x),
        }
    }
    // a check; `reg` = Some((ctx, name)) registers the rep in the real context under `name`
    fn rep(&mut self, reg: Option<(&mut TypeCheckContext, &str)>) -> Rc<TypeCheck> {
        match reg {
            Some((tctx, name)) => {
                let (typ, pred, ind) = self.rep_parts();
                Self::construct(tctx, name, Rc::new(typ), pred, ind)
            },
            None => self.rep_scratch(""),
        }
    }
    fn rep_parts(&mut self) -> (PDFType, Option<Rc<dyn Predicate>>, IndirectSpec) {
        let t = self.tok();
        assert!(t == "r", "expected r, got {}", t);
        let pred = self.pred();
        let ind = self.ind();
        let typ = self.typ();
        (typ, pred, ind)
    }
    // a representation that carries `name` and is NOT registered in the real context
    fn rep_scratch(&mut self, name: &str) -> Rc<TypeCheck> {
        let (typ, pred, ind) = self.rep_parts();
        let mut scratch = std::mem::replace(&mut self.scratch, TypeCheckContext::new());
        let r = Self::construct(&mut scratch, name, Rc::new(typ), pred, ind);
        self.scratch = scratch;
        r
    }
    // The constructor client code would call for these attributes (the shipped specifications use all
    // four): no predicate and indirect objects allowed -> TypeCheck::new; a predicate only ->
    // new_refined; an indirect specification only -> new_indirect; both -> new_all.  Each of them has
    // to register the representation under its name: a constructor that forgets to shows as an
    // UnknownTypeCheck rejection of a `n <name>` reference to that type.
    fn construct(
        tctx: &mut TypeCheckContext, name: &str, typ: Rc<PDFType>, pred: Option<Rc<dyn Predicate>>,
        ind: IndirectSpec,
    ) -> Rc<TypeCheck> {
        match (pred, ind) {
            (None, IndirectSpec::Allowed) => TypeCheck::new(tctx, name, typ),
            (Some(p), IndirectSpec::Allowed) => TypeCheck::new_refined(tctx, name, typ, p),
            (None, ind) => TypeCheck::new_indirect(tctx, name, typ, ind),
            (Some(p), ind) => TypeCheck::new_all(tctx, name, typ, Some(p), ind),
        }
    }
    pub fn chk(&mut self) -> Rc<TypeCheck> {
        if self.t[self.i] == "n" {
            self.i += 1;
            let name = self.tok();
            TypeCheck::new_named(name)
        } else {
            self.rep(None)
        }
    }
    pub fn ctx(&mut self) -> TypeCheckContext { self.ctx_entries().0 }
    // the context and the checks its constructors returned, in order of registration (an
    // earlier one may be shadowed in the context by a later one of the same name)
    pub fn ctx_entries(&mut self) -> (TypeCheckContext, Vec<Rc<TypeCheck>>) {
        let mut tctx = TypeCheckContext::new();
        let mut ents = Vec::new();
        let k = self.num();
        for _ in 0 .. k {
            let name = self.tok();
            ents.push(self.rep(Some((&mut tctx, name))));
        }
        (tctx, ents)
    }
    // the check of one step of a sequence (C09): besides `n name` and an anonymous `rep`, the
    // entries' own representations and the same-named variants client code can derive from them
    // with the crate's public API; `g name rep` constructs (= registers) on the real context.
    #[allow(dead_code)]
    pub fn step_chk(
        &mut self, tctx: &mut TypeCheckContext, ents: &[Rc<TypeCheck>],
    ) -> Rc<TypeCheck> {
        match self.t[self.i] {
            form @ ("e" | "ea" | "eg" | "eb" | "et") => {
                self.i += 1;
                let i = self.num();
                let r = match ents[i].as_ref() {
                    TypeCheck::Rep(r) => Rc::clone(r),
                    TypeCheck::Named(_) => panic!("entry is not a representation"),
                };
                match form {
                    "e" => Rc::clone(&ents[i]),
                    "ea" => Rc::new(TypeCheck::Rep(r.allow_indirect())),
                    "eg" => r.split_disjunct().0,
                    "eb" => r.split_disjunct().1,
                    _ => {
                        let (typ, _, _) = self.rep_parts();
                        Rc::new(TypeCheck::Rep(TypeCheckRep::new_replace_typ(typ, &r)))
                    },
                }
            },
            "m" => {
                self.i += 1;
                let name = self.tok();
                self.rep_scratch(name)
            },
            "g" => {
                self.i += 1;
                let name = self.tok();
                self.rep(Some((tctx, name)))
            },
            _ => self.chk(),
        }
    }
    pub fn graph(&mut self) -> PDFObjContext {
        let mut ctxt = PDFObjContext::new(10);
        let k = self.num();
        for _ in 0 .. k {
            let n = self.num();
            let g = self.num();
            let o = self.obj();
            let ind = LocatedVal::new(IndirectT::new(n, g, o), 0, 0);
            ctxt.register_obj(&ind);
        }
        ctxt
    }
}

pub fn err_kind(e: &TypeCheckError) -> &'static str {
    match e {
        TypeCheckError::RefNotFound(_) => "refnotfound",
        TypeCheckError::ArraySizeMismatch(..) => "arraysize",
        TypeCheckError::MissingKey(_) => "missingkey",
        TypeCheckError::ForbiddenKey(_) => "forbiddenkey",
        TypeCheckError::TypeMismatch(..) => "typemismatch",
        TypeCheckError::ValueMismatch(..) => "valuemismatch",
        TypeCheckError::PredicateError(_) => "predicate",
        TypeCheckError::UnknownTypeCheck(_) => "unknowntypecheck",
    }
}

pub struct Case {
    pub tctx: TypeCheckContext,
    pub ctxt: PDFObjContext,
    pub chk:  Rc<TypeCheck>,
    pub obj:  Obj,
}

pub fn decode(line: &str) -> Option<Case> {
    let mut d = Dec::new(line);
    let _tag = d.tok();
    let tctx = d.ctx();
    let ctxt = d.graph();
    let chk = d.chk();
    let obj = d.obj();
    if !d.done() {
        return None
    }
    Some(Case {
        tctx,
        ctxt,
        chk,
        obj,
    })
}

/// runs the real check_type; returns (verdict text, work-loop steps)
pub fn run_case(c: &Case) -> (String, u64) { run_one(&c.ctxt, &c.tctx, &c.obj, &c.chk) }

pub fn run_one(
    ctxt: &PDFObjContext, tctx: &TypeCheckContext, obj: &Obj, chk: &Rc<TypeCheck>,
) -> (String, u64) {
    verif_reset_steps();
    let r = check_type(ctxt, tctx, Rc::clone(obj), Rc::clone(chk));
    let steps = verif_steps();
    let v = match r {
        None => "accept".to_string(),
        Some(e) => format!("reject {}", err_kind(e.val())),
    };
    (v, steps)
}

// ---------------------------------------------------------------------------------------------
// Watchdog.  A regression of the termination property (C09) shows as a hang, and ./check only
// kills a silent harness after 30 s per case, so a run with many such cases would not finish.
// The harness therefore evaluates every case in a persistent WORKER process (this executable
// started again with VERIF_TC_WORKER=1, same line protocol) and waits for each answer with a
// time limit; when the limit expires the worker is killed and `hang` is the case's output, when
// the worker dies the output is `crash:<rc>` (same words as ./check uses).  The limit is
// WATCHDOG_MS per case and drops to WATCHDOG_AFTER_MS once WATCHDOG_STRIKES cases have hung
// (the run is failing by then; this only bounds its duration).
use std::io::{BufRead, BufReader, Write};
use std::process::{Child, ChildStdin, Command, Stdio};
use std::sync::mpsc::{channel, Receiver, RecvTimeoutError};
use std::time::Duration;

const WATCHDOG_MS: u64 = 8000;
const WATCHDOG_AFTER_MS: u64 = 300;
const WATCHDOG_STRIKES: u32 = 3;

struct Worker {
    child: Child,
    stdin: ChildStdin,
    rx:    Receiver<String>,
}

fn spawn_worker() -> Worker {
    let exe = std::env::current_exe().unwrap();
    let mut child = Command::new(exe)
        .arg("run")
        .env("VERIF_TC_WORKER", "1")
        .stdin(Stdio::piped())
        .stdout(Stdio::piped())
        .stderr(Stdio::null())
        .spawn()
        .unwrap();
    let stdin = child.stdin.take().unwrap();
    let stdout = child.stdout.take().unwrap();
    let (tx, rx) = channel();
    std::thread::spawn(move || {
        for l in BufReader::new(stdout).lines() {
            match l {
                Ok(l) => {
                    if tx.send(l).is_err() {
                        break
                    }
                },
                Err(_) => break,
            }
        }
    });
    Worker { child, stdin, rx }
}

thread_local! {
    static WORKER: std::cell::RefCell<Option<Worker>> = std::cell::RefCell::new(None);
    static STRIKES: std::cell::Cell<u32> = std::cell::Cell::new(0);
}

/// evaluates `line` with `direct`, in the worker process under the watchdog (or right here when
/// this process is the worker)
pub fn guarded(line: &str, direct: fn(&str) -> String) -> String {
    if std::env::var_os("VERIF_TC_WORKER").is_some() {
        return direct(line)
    }
    WORKER.with(|w| {
        let mut w = w.borrow_mut();
        if w.is_none() {
            *w = Some(spawn_worker());
        }
        let wk = w.as_mut().unwrap();
        let sent = writeln!(wk.stdin, "{}", line.replace('\n', " ")).and_then(|_| wk.stdin.flush());
        // the 10^5-link chains legitimately take a few hundred ms: always the full limit
        let limit = if STRIKES.with(|c| c.get()) >= WATCHDOG_STRIKES && !line.starts_with("big") {
            WATCHDOG_AFTER_MS
        } else {
            WATCHDOG_MS
        };
        let r = if sent.is_ok() {
            wk.rx.recv_timeout(Duration::from_millis(limit))
        } else {
            Err(RecvTimeoutError::Disconnected)
        };
        match r {
            Ok(s) => s,
            Err(RecvTimeoutError::Timeout) => {
                let _ = wk.child.kill();
                let _ = wk.child.wait();
                *w = None;
                STRIKES.with(|c| c.set(c.get() + 1));
                "hang".to_string()
            },
            Err(RecvTimeoutError::Disconnected) => {
                use std::os::unix::process::ExitStatusExt;
                let rc = match wk.child.wait() {
                    Ok(st) => match (st.code(), st.signal()) {
                        (Some(c), _) => c,
                        (None, Some(sig)) => -sig,
                        _ => -1,
                    },
                    Err(_) => -1,
                };
                *w = None;
                format!("crash:{}", rc)
            },
        }
    })
}
