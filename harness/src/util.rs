#![allow(dead_code)]
use parsley_rust::pcore::parsebuffer::ErrorKind;

pub fn unhex(s: &str) -> Vec<u8> {
    if s == "-" {
        return Vec::new()
    }
    let b = s.as_bytes();
    let mut v = Vec::with_capacity(b.len() / 2);
    let hv = |c: u8| -> u8 {
        match c {
            b'0' ..= b'9' => c - b'0',
            b'a' ..= b'f' => c - b'a' + 10,
            b'A' ..= b'F' => c - b'A' + 10,
            _ => panic!("bad hex"),
        }
    };
    let mut i = 0;
    while i + 1 < b.len() {
        v.push(hv(b[i]) * 16 + hv(b[i + 1]));
        i += 2;
    }
    v
}

pub fn hex(b: &[u8]) -> String {
    if b.is_empty() {
        return "-".to_string()
    }
    let mut s = String::with_capacity(b.len() * 2);
    for x in b {
        s.push_str(&format!("{:02x}", x));
    }
    s
}

pub fn errk(e: &ErrorKind) -> &'static str {
    match e {
        ErrorKind::EndOfBuffer => "eob",
        ErrorKind::InsufficientContext => "ctx",
        ErrorKind::BoundsError => "bounds",
        ErrorKind::PrimitiveError(_) => "prim",
        ErrorKind::GuardError(_) => "guard",
        ErrorKind::TransformError(_) => "transform",
    }
}
