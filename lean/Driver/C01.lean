import Driver.Common
import Parsley.Model.Pipeline
import Parsley.Spec.Predictor
namespace Driver.C01
open Parsley Driver

/-! Adversarial document generator, end-to-end model and oracle for C01.  Cases:
      `doc <hex>`              explicit file contents
    (prefixes and multi-edit mutations of the repository's sample PDFs are produced by the native
    generator of harness/src/bin/c01.rs, which can read them, as explicit `doc` lines too).
    The implementation side runs the REAL `pdf_printer` binary on the file in a subprocess and
    reports `completed` (exit 0), `rejected` (exit 1) or what else happened (`abnormal` + panic exit code,
    signal, timeout).
    model : `Pipeline.run` (Model/Pipeline.lean) on the bytes; the first word must agree with the binary.
    judge : the statement itself - the only acceptable outcomes are the first two. -/

def bs (s : String) : Bytes := s.toUTF8.toList

def natStr (n : Nat) : Bytes := bs (toString n)

def pad10 (n : Nat) : Bytes :=
  let d := toString n
  bs (String.ofList (List.replicate (10 - d.length) '0') ++ d)

/-- Adler-32 of a byte string -/
def adler32 (p : Bytes) : Nat :=
  let (a, b) := p.foldl (fun (ab : Nat × Nat) x =>
    let a := (ab.1 + x.toNat) % 65521
    (a, (ab.2 + a) % 65521)) (1, 0)
  b * 65536 + a

/-- zlib stream with one stored block (payload < 65536 bytes) -/
def zlibStored (p : Bytes) : Bytes :=
  let n := p.length
  let ad := adler32 p
  [0x78, 0x01, 0x01, UInt8.ofNat (n % 256), UInt8.ofNat (n / 256), UInt8.ofNat (255 - n % 256),
   UInt8.ofNat (255 - n / 256)] ++ p ++
  [UInt8.ofNat (ad / 16777216 % 256), UInt8.ofNat (ad / 65536 % 256), UInt8.ofNat (ad / 256 % 256), UInt8.ofNat (ad % 256)]

/-- an indirect object `n 0 obj … endobj` -/
def obj (n : Nat) (body : Bytes) : Bytes := natStr n ++ bs " 0 obj\n" ++ body ++ bs "\nendobj\n"

def streamObj (n : Nat) (dictExtra : Bytes) (lenField : Bytes) (data : Bytes) : Bytes :=
  obj n (bs "<< /Length " ++ lenField ++ bs " " ++ dictExtra ++ bs " >>\nstream\n" ++ data ++ bs "\nendstream")

/-- assemble a classic-table document from numbered object texts (numbers 1..n in order) -/
def assemble (header : Bytes) (objs : List Bytes) (trailerExtra : Bytes) (root : Bytes)
    (startxrefOverride : Option Bytes := none) : Bytes :=
  let (body, offs) := objs.foldl (fun (acc : Bytes × List Nat) o =>
    (acc.1 ++ o, acc.2 ++ [acc.1.length])) (header, [])
  let xrefOfs := body.length
  let entries := offs.foldl (fun acc o => acc ++ pad10 o ++ bs " 00000 n \n") (bs "0000000000 65535 f \n")
  let xref := bs "xref\n0 " ++ natStr (objs.length + 1) ++ bs "\n" ++ entries
  let trailer := bs "trailer\n<< /Size " ++ natStr (objs.length + 1) ++ bs " /Root " ++ root ++ bs " " ++
    trailerExtra ++ bs " >>\nstartxref\n" ++ (startxrefOverride.getD (natStr xrefOfs)) ++ bs "\n%%EOF\n"
  body ++ xref ++ trailer

def hdr : Bytes := bs "%PDF-1.4\n%\xE2\xE3\xCF\xD3\n"

def extremes : List String :=
  ["-1", "0", "1", "255", "65536", "2147483647", "2147483648", "4294967296", "9223372036854775807",
   "9223372036854775808", "18446744073709551615", "99999999999999999999", "-9223372036854775808", "1.5", "-0"]

/-- the base document: catalog 1, pages 2, page 3, content 4, font 5 -/
def baseDoc (contents : Bytes) (streamExtra : Bytes) (lenField : Option Bytes) (kids : Bytes) (pageExtra : Bytes)
    (pagesExtra : Bytes) (catExtra : Bytes) (more : List Bytes) (trailerExtra : Bytes := []) : Bytes :=
  assemble hdr
    ([obj 1 (bs "<< /Type /Catalog /Pages 2 0 R " ++ catExtra ++ bs " >>"),
      obj 2 (bs "<< /Type /Pages /Kids " ++ kids ++ bs " /Count 1 " ++ pagesExtra ++ bs " >>"),
      obj 3 (bs "<< /Type /Page /Parent 2 0 R /MediaBox [0 0 612 792] /Contents 4 0 R /Resources << /Font << /F1 5 0 R >> >> "
              ++ pageExtra ++ bs " >>"),
      streamObj 4 streamExtra (lenField.getD (natStr contents.length)) contents,
      obj 5 (bs "<< /Type /Font /Subtype /Type1 /BaseFont /Helvetica /FontDescriptor 6 0 R >>"),
      obj 6 (bs "<< /Type /FontDescriptor /FontName /Helvetica /Flags 32 /FontFile 7 0 R >>"),
      streamObj 7 [] (bs "3") (bs "abc")] ++ more)
    trailerExtra (bs "1 0 R")

def textContent : Bytes := bs "BT /F1 12 Tf 72 720 Td (Hello) Tj T* [(W) -20 (orld)] TJ ET q 1 0 0 1 0 0 cm Q"

def plain : Bytes := baseDoc textContent [] none (bs "[3 0 R]") [] [] [] []

/-- replace the k-th maximal run of ASCII digits (optionally signed) by `rep` -/
def replaceNumber (s : Bytes) (k : Nat) (rep : Bytes) : Bytes :=
  let rec go : Nat → Bytes → Nat → Bool → Bytes → Bytes
    | 0, rest, _, _, acc => acc ++ rest
    | _, [], _, _, acc => acc
    | f + 1, b :: t, k, inNum, acc =>
      let isD := 48 ≤ b && b ≤ 57
      if isD && !inNum then
        -- start of a number
        if k == 0 then
          let rest := t.dropWhile (fun x => 48 ≤ x && x ≤ 57)
          acc ++ rep ++ rest
        else go f t (k - 1) true (acc ++ [b])
      else go f t k isD (acc ++ [b])
  go (s.length + 1) s k false []

def countNumbers (s : Bytes) : Nat :=
  (s.foldl (fun (acc : Nat × Bool) b =>
    let isD := 48 ≤ b && b ≤ 57
    (if isD && !acc.2 then acc.1 + 1 else acc.1, isD)) (0, false)).1

/-- uncompressed cross-reference stream + object stream document.
    objects: 1 catalog (in objstm 10), 2 pages (in objstm 10), 3 page, 4 contents, 10 objstm, 11 xref stream -/
def xrefStreamDoc (wOverride : Option Bytes) (xrefExtra : Bytes) (objstmExtra : Bytes) (nField firstField : Option Bytes)
    (compress : Bool) : Bytes :=
  let o1 := bs "<< /Type /Catalog /Pages 2 0 R >>"
  let o2 := bs "<< /Type /Pages /Kids [3 0 R] /Count 1 >>"
  let hdrTxt := bs "1 0 2 " ++ natStr (o1.length + 1) ++ bs " "
  let stmData := hdrTxt ++ o1 ++ bs " " ++ o2
  let obj3 := obj 3 (bs "<< /Type /Page /Parent 2 0 R /MediaBox [0 0 612 792] /Contents 4 0 R >>")
  let obj4 := streamObj 4 [] (natStr textContent.length) textContent
  let obj10 := streamObj 10 (bs "/Type /ObjStm /N " ++ (nField.getD (bs "2")) ++ bs " /First " ++
      (firstField.getD (natStr hdrTxt.length)) ++ bs " " ++ objstmExtra) (natStr stmData.length) stmData
  let off3 := hdr.length
  let off4 := off3 + obj3.length
  let off10 := off4 + obj4.length
  let off11 := off10 + obj10.length
  let row (t a b : Nat) : Bytes := [UInt8.ofNat t, UInt8.ofNat (a / 256), UInt8.ofNat (a % 256), UInt8.ofNat b]
  let free : Bytes := row 0 0 255
  let rows : Bytes := free ++ row 2 10 0 ++ row 2 10 1 ++ row 1 off3 0 ++ row 1 off4 0 ++
    free ++ free ++ free ++ free ++ free ++ row 1 off10 0 ++ row 1 off11 0
  let data := if compress then zlibStored rows else rows
  let obj11 := streamObj 11 (bs "/Type /XRef /Size 12 /W " ++ (wOverride.getD (bs "[1 2 1]")) ++ bs " /Root 1 0 R " ++
      (if compress then bs "/Filter /FlateDecode " else []) ++ xrefExtra) (natStr data.length) data
  hdr ++ obj3 ++ obj4 ++ obj10 ++ obj11 ++ bs "startxref\n" ++ natStr off11 ++ bs "\n%%EOF\n"

/-- an incremental update appended to `plain`: redefines object 4, /Prev as given -/
def updatedDoc (prev : Option Bytes) (secondStartxref : Option Bytes) : Bytes :=
  let base := plain
  -- offset of the first xref section = position of "xref" in base
  let firstXref := (bs (toString (findSub base (bs "xref\n0 "))))
  let newObj := streamObj 4 [] (bs "9") (bs "BT (x) Tj")
  let ofsNew := base.length
  let xrefOfs := ofsNew + newObj.length
  let sect := bs "xref\n4 1\n" ++ pad10 ofsNew ++ bs " 00000 n \n" ++
    bs "trailer\n<< /Size 8 /Root 1 0 R /Prev " ++ (prev.getD firstXref) ++ bs " >>\nstartxref\n" ++
    (secondStartxref.getD (natStr xrefOfs)) ++ bs "\n%%EOF\n"
  base ++ newObj ++ sect
where
  findSub (s pat : Bytes) : Nat :=
    let rec go : Nat → Bytes → Nat → Nat
      | 0, _, i => i
      | _, [], i => i
      | f + 1, l@(_ :: t), i => if pat.isPrefixOf l then i else go f t (i + 1)
    go (s.length + 1) s 0

def nested (n : Nat) (dict : Bool) : Bytes :=
  let op : Bytes := if dict then bs "<</K " else bs "["
  let cl : Bytes := if dict then bs ">>" else bs "]"
  (List.replicate n op).flatten ++ bs "7" ++ (List.replicate n cl).flatten

def selfRefPlaces : List (Bytes → Bytes) := [
  -- the self-referential object 9 0 obj 9 0 R used in various places
  fun s => baseDoc textContent [] none (bs "9 0 R") [] [] [] [s],
  fun s => baseDoc textContent [] none (bs "[3 0 R]") (bs "/Annots 9 0 R") [] [] [s],
  fun s => assemble hdr [obj 1 (bs "<< /Type /Catalog /Pages 2 0 R >>"),
      obj 2 (bs "<< /Type /Pages /Kids [3 0 R] /Count 1 >>"),
      obj 3 (bs "<< /Type /Page /Parent 2 0 R /MediaBox [0 0 612 792] /Contents 9 0 R /Resources 9 0 R >>"),
      obj 4 (bs "null"), obj 5 (bs "null"), obj 6 (bs "null"), obj 7 (bs "null"), obj 8 (bs "null"), s] [] (bs "1 0 R"),
  fun s => baseDoc textContent [] (some (bs "9 0 R")) (bs "[3 0 R]") [] [] [] [obj 8 (bs "null"), s],
  fun s => assemble hdr [obj 1 (bs "<< /Type /Catalog /Pages 9 0 R >>"), obj 2 (bs "null"), obj 3 (bs "null"),
      obj 4 (bs "null"), obj 5 (bs "null"), obj 6 (bs "null"), obj 7 (bs "null"), obj 8 (bs "null"), s] [] (bs "1 0 R"),
  fun s => assemble hdr [obj 1 (bs "null"), obj 2 (bs "null"), obj 3 (bs "null"),
      obj 4 (bs "null"), obj 5 (bs "null"), obj 6 (bs "null"), obj 7 (bs "null"), obj 8 (bs "null"), s] [] (bs "9 0 R"),
  fun s => baseDoc textContent [] none (bs "[3 0 R]") (bs "/Resources << /Font 9 0 R >>") [] [] [obj 8 (bs "null"), s],
  fun s => baseDoc textContent (bs "/Filter 9 0 R /DecodeParms 9 0 R") none (bs "[3 0 R]") [] [] [] [obj 8 (bs "null"), s]]

def kidsLoops : List Bytes := [
  baseDoc textContent [] none (bs "[2 0 R]") [] [] [] [],
  baseDoc textContent [] none (bs "[3 0 R 2 0 R 3 0 R]") [] [] [] [],
  baseDoc textContent [] none (bs "[3 0 R 8 0 R]") [] [] []
    [obj 8 (bs "<< /Type /Pages /Parent 2 0 R /Kids [2 0 R 8 0 R 3 0 R] /Count 3 >>")],
  baseDoc textContent [] none (bs "[8 0 R]") [] [] []
    [obj 8 (bs "<< /Type /Page /Parent 2 0 R /MediaBox [0 0 1 1] /Contents [4 0 R 8 0 R 4 0 R] >>")],
  baseDoc textContent [] none (bs "[3 0 R]") (bs "/Parent 3 0 R") (bs "/Parent 2 0 R") [] [],
  baseDoc textContent [] none (bs "[8 0 R]") [] [] []
    [obj 8 (bs "9 0 R"), obj 9 (bs "10 0 R"), obj 10 (bs "8 0 R")]]

/-- reference-chain shapes starting at object 20: (objects 20.., description) -/
def chainShapes (target : Bytes) : List (List Bytes) := [
  [obj 20 (bs "20 0 R")],                                                        -- self
  [obj 20 (bs "21 0 R"), obj 21 (bs "20 0 R")],                                  -- cycle through the start
  [obj 20 (bs "21 0 R"), obj 21 (bs "22 0 R"), obj 22 (bs "21 0 R")],            -- lasso: tail enters a cycle that excludes the start
  [obj 20 (bs "21 0 R"), obj 21 (bs "22 0 R"), obj 22 (bs "23 0 R"), obj 23 (bs "22 0 R")],
  [obj 20 (bs "21 0 R"), obj 21 (bs "22 0 R"), obj 22 target],                   -- acyclic chain to a value
  [obj 20 (bs "21 0 R")],                                                        -- dangling
  [obj 20 (bs "[20 0 R 21 0 R]"), obj 21 (bs "<< /A 20 0 R /B 21 0 R >>")]]     -- cyclic containers

/-- a one-page document in which the value at one position is `20 0 R`; objects 8..19 are padding -/
def chainDoc (pos : Nat) (chain : List Bytes) : Bytes :=
  let r : Bytes := bs "20 0 R"
  let atp (k : Nat) (dflt : Bytes) : Bytes := if pos == k then r else dflt
  let pad : List Bytes := (List.range 12).map fun k => obj (8 + k) (bs "null")
  assemble hdr
    ([obj 1 (bs "<< /Type /Catalog /Pages " ++ atp 0 (bs "2 0 R") ++ bs " >>"),
      obj 2 (bs "<< /Type /Pages /Kids " ++ atp 1 (bs "[3 0 R]") ++ bs " /Count " ++ atp 2 (bs "1") ++ bs " /Resources " ++ atp 3 (bs "<< >>") ++ bs " >>"),
      obj 3 (bs "<< /Type /Page /Parent 2 0 R /MediaBox " ++ atp 4 (bs "[0 0 612 792]") ++ bs " /Contents " ++ atp 5 (bs "4 0 R") ++
             bs " /Resources " ++ atp 6 (bs "<< /Font " ++ atp 7 (bs "<< /F1 " ++ atp 8 (bs "5 0 R") ++ bs " >>") ++ bs " >>") ++ bs " >>"),
      streamObj 4 (bs "/Filter " ++ atp 9 (bs "[]") ++ bs " /DecodeParms " ++ atp 10 (bs "[]")) (atp 11 (natStr textContent.length)) textContent,
      obj 5 (bs "<< /Type /Font /Subtype /Type1 /BaseFont " ++ atp 12 (bs "/Helvetica") ++ bs " /Encoding " ++ atp 13 (bs "/WinAnsiEncoding") ++
             bs " /FontDescriptor " ++ atp 14 (bs "6 0 R") ++ bs " >>"),
      obj 6 (bs "<< /Type /FontDescriptor /FontName /Helvetica /FontFile " ++ atp 15 (bs "7 0 R") ++ bs " /Flags " ++ atp 16 (bs "32") ++ bs " >>"),
      streamObj 7 [] (bs "3") (bs "abc")] ++ pad ++ chain)
    [] (atp 17 (bs "1 0 R"))

def chainTargets : List Bytes :=
  [bs "[3 0 R]", bs "<< /Font << /F1 5 0 R >> >>", bs "<< /F1 5 0 R >>", bs "/WinAnsiEncoding", bs "<< /Type /Encoding /Differences [1 /a] >>",
   bs "7", bs "/FlateDecode", bs "null"]

def predictorParms : List String :=
  ["/Predictor 12 /Columns 4", "/Predictor 15 /Columns 1", "/Predictor 2 /Colors 3 /Columns 2 /BitsPerComponent 16",
   "/Predictor 12 /Columns -1", "/Predictor 12 /Columns 0", "/Predictor 12 /Columns 9223372036854775807 /Colors 4",
   "/Predictor 13 /BitsPerComponent 64", "/Predictor 14 /Colors -1", "/Predictor 11 /Colors 2147483648 /Columns 2147483648",
   "/Predictor 10 /Columns 1 /BitsPerComponent 0", "/Predictor -12", "/Predictor 99999999999999999999",
   "/Predictor 12 /Columns 5 /EarlyChange 7", "/Predictor (x)", "/Columns [1]"]

/-- a flat page tree with one page per entry: (content bytes, extra stream-dictionary text, use the
    non-embedded font, contents given as an array that repeats the stream) -/
def pagesDoc (pages : List (Bytes × Bytes × Bool × Bool)) (inner : Bool) : Bytes :=
  let n := pages.length
  let kidIds := (List.range n).map fun i => 5 + 2 * i + (if inner then 1 else 0)
  let kidsTxt := (kidIds.map fun k => natStr k ++ bs " 0 R ").flatten
  let parent : Nat := if inner then 5 else 2
  let pageObjs := (pages.zip kidIds).flatMap fun ((c, extra, bad, arr), k) =>
    [obj k (bs "<< /Type /Page /Parent " ++ natStr parent ++ bs " 0 R /MediaBox [0 0 10 10] /Contents " ++
        (if arr then bs "[" ++ natStr (k + 1) ++ bs " 0 R " ++ natStr (k + 1) ++ bs " 0 R]" else natStr (k + 1) ++ bs " 0 R") ++
        bs " /Resources << /Font << /F1 " ++ (if bad then bs "4" else bs "3") ++ bs " 0 R >> >> >>"),
     streamObj (k + 1) extra (natStr c.length) c]
  assemble hdr
    ([obj 1 (bs "<< /Type /Catalog /Pages 2 0 R >>"),
      obj 2 (bs "<< /Type /Pages /Count " ++ natStr n ++ bs " /Kids [" ++ (if inner then bs "5 0 R" else kidsTxt) ++ bs "] >>"),
      obj 3 (bs "<< /Type /Font /Subtype /Type1 /BaseFont /Helvetica >>"),
      obj 4 (bs "<< /Type /Font /Subtype /Type1 /BaseFont /X /FontDescriptor << /Type /FontDescriptor /FontName /X /Flags 32 >> >>")] ++
     (if inner then [obj 5 (bs "<< /Type /Pages /Parent 2 0 R /Count " ++ natStr n ++ bs " /Kids [" ++ kidsTxt ++ bs "] >>")] else []) ++
     pageObjs) [] (bs "1 0 R")

/-- a one-page document (embedded standard font) whose page has /Contents [4 0 R 8 0 R] -/
def twoStreamDoc (a b : Bytes) : Bytes :=
  assemble hdr
    [obj 1 (bs "<< /Type /Catalog /Pages 2 0 R >>"),
     obj 2 (bs "<< /Type /Pages /Kids [3 0 R] /Count 1 >>"),
     obj 3 (bs "<< /Type /Page /Parent 2 0 R /MediaBox [0 0 612 792] /Contents [4 0 R 8 0 R] /Resources << /Font << /F1 5 0 R >> >> >>"),
     streamObj 4 [] (natStr a.length) a,
     obj 5 (bs "<< /Type /Font /Subtype /Type1 /BaseFont /Helvetica /FontDescriptor 6 0 R >>"),
     obj 6 (bs "<< /Type /FontDescriptor /FontName /Helvetica /Flags 32 /FontFile 7 0 R >>"),
     streamObj 7 [] (bs "3") (bs "abc"),
     streamObj 8 [] (natStr b.length) b] [] (bs "1 0 R")

/-- content snippets that are split over two content streams at every token boundary -/
def splitFamily : List String :=
  ["BT /F1 12 Tf (Hello) Tj T* [(W) -20 (orld)] TJ ET", "BX foo ) bar EX", "q BX BX ) EX EX Q", "BT (a) (b) (c) \" ET",
   "1 2 m 3 4 l W n BI /W 1 ID xyz EI", "BX EX ) q", "BT [ (a) [ (b) ] ] TJ ET", "<< /A << /B [ 1 2 ] >> >> BDC EMC"]

def contentFamily : List String :=
  ["", " ", "% only a comment", "BX ) EX", "BX > EX", "BX ] EX", "BX { EX", "BX } EX", "BX foo EX", "BX foo", "BX BX foo EX bar EX",
   "BX EX foo", "EX", "BX EX EX", "BX (a) ) EX", "BX << EX", "BX [ EX", "BX <41 EX", "BX /#00 EX", "q BX ) EX Q",
   "BT <fffe80> Tj ET", "BT (\xff\xfe) Tj ET", "BT [(ok) <c328> (\x80)] TJ ET", "BT <c3a9> Tj ET",
   "BT", "BT ET ET", "BT BT ET", "BT (a) Tj", "BT (a) Tj ET", "BT TJ ET", "BT [(a)] [(b)] TJ ET", "BT [(a) [(b)]] TJ ET",
   "BT (a) (b) (c) \" ET", "BT 1 2 (c) \" ET", "BT (a) ' ET", "BT q ET", "q Q", "Q", "1 2 3", "(a)", "1 2 m 3 4 l S", "1 2 m 3 4 l",
   "1 2 m W n", "1 2 m W 3 4 l", "0 0 1 1 re W* n f", "BI /W 1 ID abc EI", "BI ID EI", "BI /W 1 ID", "EI", "ID",
   "/GS1 gs /F1 12 Tf", "BT /F1 12 Tf 1 0 0 1 0 0 Tm (x) Tj T* ET", "<< /A 1 >> BDC EMC", "/OC /MC0 BDC EMC", "BMC", "sh", "/Im1 Do",
   "1 0 R", "BT 1 0 R Tj ET", "true false null m", "[1 2] 0 d", "[[[[[[[[[[[[[[[[[[[[[[[[[[[[[[[[[[[[[[[[[[[[[[[[[[[[[[[[[[1", "((((", "<", "<<", "/", "#",
   "9223372036854775807 w", "9223372036854775808 w", "-9223372036854775808 w", "-9223372036854775809 w",
   "170141183460469231731687303715884105727 w", "170141183460469231731687303715884105728 w", "0.170141183460469231731687303715884105728 w",
   "1.00000000000000000000000000000000000000000 w", "9223372036854775807 0 R Tj", "1 9223372036854775808 R Tj",
   "/A#00B gs", "/#00 gs", "/A#0 gs", "/A#zz gs", "/A#20B gs", "BX /A#00B EX", "foo#00 1", "BX foo#00 EX",
   "q % comment without end of line", "% c1\r% c2\rq Q", "BX % )\n EX", "BX (%) EX", "q Q %", "%",
   "BI /W 2 /H 2 /BPC 8 ID \x00\xff\x80)(> EI Q", "BI /W 1 ID EI EI", "q BI ID \x00 EI Q", "BI BI ID EI", "BI ET",
   "1 2 3 4 5 6 7 8 9 m", "m", "Tj", "BT Tj ET", "BT (a) (b) Tj ET", "BT 1 Tj ET", "BT [(a)] Tj ET", "BT (a) TJ ET", "BT 1 2 3 Td ET", "BT Td ET",
   "q q q q q q q q q q q q q q q q q q q q q q q q q q q q q q q q q q q q q q q q", "Q Q Q", "BX BX BX BX EX", "BX EX EX EX foo",
   ") BX EX", "BX EX )", "BX )", "BX ) ) ) EX", "BX > > EX", "BX ] [ EX", "BX } { EX", "BX {foo} EX", "{", "}", "]", ">", ")", ">>",
   "BX ( EX", "BX < EX", "BX [ 1 EX", "BX << /A EX", "BX <</A 1 EX", "( unterminated", "< 41", "[ 1 2", "<< /A 1", "<< /A >>", "<< 1 2 >> gs",
   "99999999999999999999 w", "1.5.5 w", "-", "+1 w", ".", "..", "BT (\\) Tj ET", "BT <4> Tj ET", "BT <zz> Tj ET", "\x00\x00", "f*", "b*", "B*", "'", "\""]

def contentTokens : List String :=
  ["BT", "ET", "BX", "EX", "q", "Q", "(a)", "[(a) -1 (b)]", "Tj", "TJ", "'", "\"", "T*", "1", "2.5", "Td", "m", "l", "re", "S", "n", "W", "f",
   "BI", "ID", "EI", "/N", "Tf", ")", "]", ">", "{", "foo", "<41>", "<<", ">>", "[", "Do", "cm", "% c\n"]

def fontFamily : List String :=
  ["<< /Type /Font /Subtype /Type1 /BaseFont /Helvetica >>",
   "<< /Type /Font /Subtype /Type1 /BaseFont /NotStandard >>",
   "<< /Type /Font /Subtype /Type1 /BaseFont /NotStandard /FontDescriptor 6 0 R >>",
   "<< /Type /Font /Subtype /TrueType /BaseFont /Helvetica /FontDescriptor 6 0 R >>",
   "<< /Type /Font /Subtype /TrueType /BaseFont /X /FontDescriptor << /Type /FontDescriptor /FontName /X /Flags 4 /FontFile2 7 0 R >> >>",
   "<< /Type /Font /Subtype /Type3 /BaseFont /X /FontDescriptor << /FontName /X /Flags 4 /FontFile3 (notref) >> >>",
   "<< /Type /Font /Subtype /Type1 /BaseFont /X /FontDescriptor 99 0 R >>",
   "<< /Type /Font /Subtype /Type1 /BaseFont /X /FontDescriptor 7 0 R >>",
   "<< /Type /Font /Subtype /Type1 >>", "<< /Type /Font /BaseFont /X >>", "<< /Type /Font /Subtype /Type1 /BaseFont /X /Encoding 6 0 R >>",
   "<< /Type /Font /Subtype /Type1 /BaseFont /X /Encoding /#ff#fe >>", "(not a dictionary)", "5 0 R", "[ ]"]

/-! ### /DecodeParms boundary sweep on every stream the pipeline decodes

  Complete small documents in which ONE stream that the pipeline itself decodes - the page's content stream
  (alone, or as the first element of a /Contents array), the object stream that holds the catalog and the page
  tree, or the cross-reference stream - carries FlateDecode (alone, after ASCIIHexDecode, after ASCII85Decode)
  with a /DecodeParms dictionary from the boundary grid of C07: one of /Predictor /Colors /Columns
  /BitsPerComponent at a boundary value (absent, 0, 1, 2, 7, 8, 16, 17, negative, 2^31, 2^32+1, 2^62, i64::MAX,
  i64::MIN, non-integer objects) while the others are sane, plus pairs of boundary values.  The data is the
  host's natural payload (content operators / object-stream text / cross-reference rows), padded to whole rows
  and ENCODED by the spec-side predictor (Spec/Predictor.lean) for the nearest sane parameters - so that a sane
  value gives a document that completes with the predictor reversed in earnest - in five shapes: empty, one byte,
  one byte short of a row, whole rows, whole rows plus one byte. -/

/-- a spelled /DecodeParms entry -/
inductive PVal where
  | absent
  | int (i : Int)
  | junk (s : String)          -- a non-integer object (the code falls back to the entry's default)

def PVal.text (key : String) : PVal → String
  | .absent => ""
  | .int i => s!"/{key} {i} "
  | .junk s => s!"/{key} {s} "

/-- the value the data is encoded for: the entry's own value if it is a usable one, the default for an absent
    or non-integer entry (what the code uses), the fallback `fb` for an unusable integer -/
def PVal.sane (ok : Int → Bool) (dflt fb : Nat) : PVal → Nat
  | .absent => dflt
  | .junk _ => dflt
  | .int i => if ok i then i.toNat else fb

structure Parms where
  p : PVal
  c : PVal
  n : PVal
  b : PVal

def Parms.text (q : Parms) : Bytes :=
  bs ("<< " ++ q.p.text "Predictor" ++ q.c.text "Colors" ++ q.n.text "Columns" ++ q.b.text "BitsPerComponent" ++ ">>")

/-- the boundary values of /Colors /Columns /BitsPerComponent: (usable, unusable) -/
def parmSane : List PVal := [.absent, .int 1, .int 2, .int 7, .int 8, .int 16, .int 17]
def parmDegenerate (thorough : Bool) : List PVal :=
  [.int 0, .int (-1), .int 2147483648, .int 4294967297, .int 4611686018427387904, .int 9223372036854775807,
   .int (-9223372036854775808), .junk "1.5", .junk "(8)", .junk "[8]", .junk "null", .junk "/N"] ++
  (if thorough then [.int (-8), .int 3, .int 4, .int 65536, .int 4294967296, .int 2305843009213693952,
                     .junk "9223372036854775808", .junk "true", .junk "99 0 R", .junk "<< /Columns 4 >>"] else [])

def predictorVals (thorough : Bool) : List PVal :=
  [.absent, .int 0, .int 1, .int 2, .int 3, .int 9, .int 10, .int 11, .int 12, .int 13, .int 14, .int 15, .int 16,
   .int (-1), .int 2147483648, .int 4294967297, .int 4611686018427387904, .int 9223372036854775807,
   .int (-9223372036854775808), .junk "1.5", .junk "(12)", .junk "[12]", .junk "null", .junk "/N"] ++
  (if thorough then [.int 4, .int 5, .int 17, .int 255, .int 256, .int 4294967298, .int 4294967308, .junk "true", .junk "99 0 R"] else [])

/-- a short list for the pairs -/
def pairVals (thorough : Bool) : List PVal :=
  [.int 0, .int (-1), .int 17, .int 9223372036854775807] ++
  (if thorough then [.absent, .int 4294967297, .int 4611686018427387904, .int (-9223372036854775808), .junk "(8)"] else [])

/-- ASCIIHexDecode / ASCII85Decode encoders (spec side: ISO 32000-1 7.4.2, 7.4.3) -/
def asciiHexEnc (d : Bytes) : Bytes := bs (hexOfBytes d) ++ bs ">"

def a85Group (g : Bytes) : Bytes :=
  let k := g.length
  let v := (g ++ List.replicate (4 - k) (0 : UInt8)).foldl (fun (acc : Nat) (x : UInt8) => acc * 256 + x.toNat) 0
  if k == 4 && v == 0 then [122]
  else
    let ds : List Nat := [v / 52200625 % 85, v / 614125 % 85, v / 7225 % 85, v / 85 % 85, v % 85]
    (ds.take (k + 1)).map fun x => UInt8.ofNat (x + 33)

def ascii85Enc (d : Bytes) : Bytes :=
  let rec go : Nat → Bytes → Bytes → Bytes
    | 0, _, acc => acc
    | _, [], acc => acc
    | f + 1, l, acc => go f (l.drop 4) (acc ++ a85Group (l.take 4))
  go (d.length + 1) d [] ++ bs "~>"

/-- the filter chain in front of the swept FlateDecode: dictionary text and stream data for a zlib stream -/
def chainWrap (chain : Nat) (parms : Bytes) (z : Bytes) : Bytes × Bytes :=
  match chain % 3 with
  | 0 => (bs "/Filter /FlateDecode /DecodeParms " ++ parms, z)
  | 1 => (bs "/Filter [/ASCIIHexDecode /FlateDecode] /DecodeParms [null " ++ parms ++ bs "]", asciiHexEnc z)
  | _ => (bs "/Filter [/ASCII85Decode /FlateDecode] /DecodeParms [" ++ parms ++ bs " " ++ parms ++ bs "]", ascii85Enc z)

/-- the five data shapes for encoded rows `enc` of row length `rl` (tag byte included for PNG) -/
def shapeOf (shape : Nat) (rl : Nat) (enc : Bytes) : Bytes :=
  match shape with
  | 0 => []
  | 1 => enc.take 1
  | 2 => enc.take (rl - 1)
  | 3 => enc
  | _ => enc ++ enc.take 1

/-- the payload encoded for the nearest sane parameters: (row length of the encoded form, encoded rows) -/
def encodeFor (q : Parms) (fbColumns : Nat) (padByte : UInt8) (payload : Bytes) : Nat × Bytes :=
  let pInt : Int := match q.p with | .int i => i | _ => 1
  let tiff := pInt == 2
  let png := 10 ≤ pInt && pInt ≤ 15
  let pEff : Nat := if tiff then 2 else if png then (if pInt == 15 then 14 else pInt.toNat) else if pInt == 1 then 1 else 12
  let colors := q.c.sane (fun i => 1 ≤ i && i ≤ 17) 1 1
  let columns := q.n.sane (fun i => 1 ≤ i && i ≤ 17) 1 fbColumns
  let bpc := q.b.sane (fun i => if tiff then i == 8 || i == 16 else i == 1 || i == 2 || i == 4 || i == 8 || i == 16) 8 8
  let rb := PredSpec.rowBytes columns colors bpc
  let padded := payload ++ List.replicate ((rb - payload.length % rb) % rb) padByte
  if pEff == 1 then (rb, padded)
  else
    let rows := PredSpec.splitRows rb (padded.length / rb) padded
    (if pEff == 2 then rb else rb + 1, PredSpec.predict ⟨pEff, colors, columns, bpc⟩ rows)

/-- one-page document whose page has /Contents [4 0 R 8 0 R]; stream 4 carries `extra` -/
def twoStreamDocX (a aExtra b : Bytes) : Bytes :=
  assemble hdr
    [obj 1 (bs "<< /Type /Catalog /Pages 2 0 R >>"),
     obj 2 (bs "<< /Type /Pages /Kids [3 0 R] /Count 1 >>"),
     obj 3 (bs "<< /Type /Page /Parent 2 0 R /MediaBox [0 0 612 792] /Contents [4 0 R 8 0 R] /Resources << /Font << /F1 5 0 R >> >> >>"),
     streamObj 4 aExtra (natStr a.length) a,
     obj 5 (bs "<< /Type /Font /Subtype /Type1 /BaseFont /Helvetica /FontDescriptor 6 0 R >>"),
     obj 6 (bs "<< /Type /FontDescriptor /FontName /Helvetica /Flags 32 /FontFile 7 0 R >>"),
     streamObj 7 [] (bs "3") (bs "abc"),
     streamObj 8 [] (natStr b.length) b] [] (bs "1 0 R")

/-- the payloads of `xrefStreamDoc`'s object stream and cross-reference stream, with the documents built around
    ENCODED forms of them: `encO` / `encX` map the payload to (dictionary text, stream data) -/
def xosDoc (encO encX : Bytes → Bytes × Bytes) : Bytes :=
  let o1 := bs "<< /Type /Catalog /Pages 2 0 R >>"
  let o2 := bs "<< /Type /Pages /Kids [3 0 R] /Count 1 >>"
  let hdrTxt := bs "1 0 2 " ++ natStr (o1.length + 1) ++ bs " "
  let (oExtra, oData) := encO (hdrTxt ++ o1 ++ bs " " ++ o2)
  let obj3 := obj 3 (bs "<< /Type /Page /Parent 2 0 R /MediaBox [0 0 612 792] /Contents 4 0 R >>")
  let obj4 := streamObj 4 [] (natStr textContent.length) textContent
  let obj10 := streamObj 10 (bs "/Type /ObjStm /N 2 /First " ++ natStr hdrTxt.length ++ bs " " ++ oExtra) (natStr oData.length) oData
  let off3 := hdr.length
  let off4 := off3 + obj3.length
  let off10 := off4 + obj4.length
  let off11 := off10 + obj10.length
  let row (t a b : Nat) : Bytes := [UInt8.ofNat t, UInt8.ofNat (a / 256), UInt8.ofNat (a % 256), UInt8.ofNat b]
  let free : Bytes := row 0 0 255
  let rows : Bytes := free ++ row 2 10 0 ++ row 2 10 1 ++ row 1 off3 0 ++ row 1 off4 0 ++
    free ++ free ++ free ++ free ++ free ++ row 1 off10 0 ++ row 1 off11 0
  let (xExtra, xData) := encX rows
  let obj11 := streamObj 11 (bs "/Type /XRef /Size 12 /W [1 2 1] /Root 1 0 R " ++ xExtra) (natStr xData.length) xData
  hdr ++ obj3 ++ obj4 ++ obj10 ++ obj11 ++ bs "startxref\n" ++ natStr off11 ++ bs "\n%%EOF\n"

/-- one document of the sweep: host 0 = the page's content stream, 1 = first element of a /Contents array,
    2 = the object stream, 3 = the cross-reference stream -/
def parmDoc (host chain shape : Nat) (q : Parms) : Bytes :=
  let enc (fbColumns : Nat) (pad : UInt8) (payload : Bytes) : Bytes × Bytes :=
    let (rl, e) := encodeFor q fbColumns pad payload
    chainWrap chain q.text (zlibStored (shapeOf shape rl e))
  let plainS (payload : Bytes) : Bytes × Bytes := ([], payload)
  match host % 4 with
  | 0 => let (x, d) := enc 4 32 textContent
         baseDoc d x none (bs "[3 0 R]") [] [] [] []
  | 1 => let (x, d) := enc 4 32 textContent
         twoStreamDocX d x (bs "q Q")
  | 2 => xosDoc (enc 4 32) plainS
  | _ => xosDoc plainS (enc 4 0)

def Parms.set (q : Parms) (pos : Nat) (v : PVal) : Parms :=
  match pos with
  | 0 => { q with p := v }
  | 1 => { q with c := v }
  | 2 => { q with n := v }
  | _ => { q with b := v }

/-- the sweep.  `k` rotates host (k mod 4) and chain (k / 4 mod 3) where they are not crossed.
    quick: about 900 documents; thorough: hosts x chains crossed on the one-byte and whole-rows shapes. -/
def parmSweep (thorough : Bool) (doc : Bytes → IO Unit) : IO Unit := do
  let mut k := 0
  let base (pc : Int) : Parms := ⟨.int pc, .int 1, .int 4, .int 8⟩
  let pcs : List Int := if thorough then [2, 10, 11, 12, 13, 14, 15] else [2, 12]
  -- (1) /Predictor at its boundary values, the others sane (spelled out, and left to their defaults)
  for pv in predictorVals thorough do
    let q := (base 12).set 0 pv
    for shape in [0, 1, 2, 3, 4] do
      if thorough && (shape == 1 || shape == 3) then
        for host in [0, 1, 2, 3] do
          for chain in [0, 1, 2] do doc (parmDoc host chain shape q)
      else
        doc (parmDoc k (k / 4) shape q)
        k := k + 1
    doc (parmDoc k (k / 4) 3 ⟨pv, .absent, .absent, .absent⟩)
    k := k + 1
  -- (2) one of /Colors /Columns /BitsPerComponent at a boundary value under a TIFF and a PNG predictor
  for pc in pcs do
    for pos in [1, 2, 3] do
      for v in parmSane do
        let q := (base pc).set pos v
        for shape in [0, 1, 2, 3, 4] do
          if thorough && (shape == 1 || shape == 3) then
            for host in [0, 1, 2, 3] do
              for chain in [0, 1, 2] do doc (parmDoc host chain shape q)
          else
            doc (parmDoc k (k / 4) shape q)
            k := k + 1
      for v in parmDegenerate thorough do
        let q := (base pc).set pos v
        for shape in [0, 1, 2, 4] do
          if thorough && shape == 1 then
            for host in [0, 1, 2, 3] do
              for chain in [0, 1, 2] do doc (parmDoc host chain shape q)
          else if !thorough && shape ≥ 2 then pure ()
          else
            doc (parmDoc k (k / 4) shape q)
            k := k + 1
        -- non-empty data for the fallback geometry: on every host
        for host in [0, 1, 2, 3] do
          if thorough then
            for chain in [0, 1, 2] do doc (parmDoc host chain 3 q)
          else
            doc (parmDoc host k 3 q)
            k := k + 1
  -- (3) pairs of boundary values
  for pc in pcs do
    for (i, j) in [(1, 2), (1, 3), (2, 3)] do
      for a in pairVals thorough do
        for b in pairVals thorough do
          doc (parmDoc k (k / 4) 3 (((base pc).set i a).set j b))
          k := k + 1
  for pv in ([.int 0, .int 15, .int 16, .int (-1)] ++ (if thorough then [.int 3, .int 9, .int 9223372036854775807, .junk "(2)"] else []) : List PVal) do
    for pos in [1, 2, 3] do
      for b in pairVals thorough do
        doc (parmDoc k (k / 4) 3 (((base 12).set 0 pv).set pos b))
        k := k + 1

/-! ### lying structural metadata

  Complete small documents of three layouts - classic table, cross-reference stream + object stream (catalog,
  page tree, font and an unused last member live in the object stream), hybrid (classic table with several
  subsections + /XRefStm) - each optionally with an incremental update in the same style (/Prev), in which
  every NUMBER that describes the file's own structure is written through `fld name exact extent`.  A document
  is built with ONE field lying: the field takes, one after the other, the boundary values of `lieVals`
  relative to its exact value and to the extent of the structure it points into (file length for file offsets,
  length of the member data for object-stream offsets, /Size for object numbers, number of members for indices,
  4 for /W).  All other fields keep their exact values, recomputed for the bytes as they are written (a lie that
  is longer than the truth moves everything behind it, and the offsets follow).  Besides the numbers that are
  spelled in the file there are three fields that TRUNCATE data while everything else stays consistent (`os.cut`,
  `os.cut2`: the object stream's data cut near /First and near the last member's offset; `xs.cut`: the rows of
  the cross-reference stream) and one lie told by all type-2 rows together (`xs.stmAll`: the number of the object
  stream).  The builder records the names of the fields it consulted, so the thorough sweep enumerates them
  itself (nothing can be forgotten); the quick tier sweeps the subset named in `lieQuickSel`. -/

abbrev LieFn := String → Nat → Nat → Int
abbrev LieM := ReaderT LieFn (StateM (List String))

def honest : LieFn := fun _ e _ => (e : Int)

/-- the value written for field `f` whose true value is `e`; `x` = extent of the structure it points into (0: none) -/
def fld (f : String) (e : Nat) (x : Nat := 0) : LieM Int := do
  modify fun s => f :: s
  let L ← read
  return L f e x

def spellI (v : Int) : Bytes := bs (toString v)

def num (f : String) (e : Nat) (x : Nat := 0) : LieM Bytes := do
  return spellI (← fld f e x)

/-- the 10-digit offset column of a classic table entry (a value that does not fit is written as it is) -/
def pad10I (v : Int) : Bytes := if 0 ≤ v && v < 10000000000 then pad10 v.toNat else spellI v

/-- big-endian field of a cross-reference stream row (two's complement / truncation to the width) -/
def beBytes (w : Nat) (v : Int) : Bytes :=
  let n := (v % ((256 ^ w : Nat) : Int)).toNat
  (List.range w).map fun i => UInt8.ofNat (n / 256 ^ (w - 1 - i) % 256)

/-- boundary values for a field with exact value `e` and extent `x` -/
def lieVals (thorough : Bool) (e x : Nat) : List Int :=
  let e' : Int := e
  let x' : Int := x
  [0, 1, e' - 1, e' + 1, e' + 2, 2 * e', 2147483648, 4294967297, 4611686018427387904, 9223372036854775807, -1] ++
  (if x > 0 then [x' - 1, x', x' + 1] else []) ++
  (if thorough then
    [e' + 4294967296, e' + 3, 3 * e', -e', 2147483647, 4294967295, 4294967296, 9223372036854775808, 18446744073709551615,
     -9223372036854775808, e' + 18446744073709551616] ++ (if x > 0 then [x' + 2, 2 * x', x' + 4294967296] else [])
   else [])

structure LieCfg where
  layout : Nat            -- 0 classic, 1 cross-reference stream + object stream, 2 hybrid
  upd : Bool := false     -- an incremental update in the same style that redefines the content stream (/Prev)
  flate : Bool := false   -- object stream and cross-reference stream behind FlateDecode
  wide : Bool := false    -- /W [1 4 4] instead of [1 2 1]
  index : Bool := false   -- layout 1: spell out /Index [0 Size]

/-- one row of a cross-reference stream: fields `<pre>r<k>.type|a|b` -/
def lieRow (pre : String) (w : Nat × Nat × Nat) (k t a b xa xb : Nat) (stmDelta : Int) : LieM Bytes := do
  let tv ← fld s!"{pre}r{k}.type" t 2
  let av ← fld s!"{pre}r{k}.a" a xa
  let bv ← fld s!"{pre}r{k}.b" b xb
  return beBytes w.1 tv ++ beBytes w.2.1 (if t == 2 then av + stmDelta else av) ++ beBytes w.2.2 bv

/-- a classic table: subsections (first object number, entries: some offset = in use, none = free) -/
def lieTable (pre : String) (subs : List (Nat × List (Option Nat))) (size flen : Nat) : LieM Bytes := do
  let mut out := bs "xref\n"
  let mut j := 0
  for (start, ents) in subs do
    out := out ++ (← num s!"{pre}ct.start{j}" start size) ++ bs " " ++ (← num s!"{pre}ct.count{j}" ents.length size) ++ bs "\n"
    let mut i := 0
    for e in ents do
      match e with
      | some o => out := out ++ pad10I (← fld s!"{pre}ct.ofs{start + i}" o flen) ++ bs " 00000 n \n"
      | none => out := out ++ pad10I (← fld s!"{pre}ct.next{start + i}" 0 size) ++ bs " 65535 f \n"
      i := i + 1
    j := j + 1
  return out

def lieTrailer (pre : String) (size : Nat) (extra : Bytes) (sxName : String) (secOfs flen : Nat) : LieM Bytes := do
  return bs "trailer\n<< /Size " ++ (← num s!"{pre}tr.Size" size) ++ bs " /Root 1 0 R" ++ extra ++ bs " >>\nstartxref\n" ++
    (← num sxName secOfs flen) ++ bs "\n%%EOF\n"

/-- a cross-reference stream object: `rows` = (object number, type, field 2, field 3, extents), `index` pairs -/
def lieXrefStm (pre : String) (c : LieCfg) (onum size : Nat) (index : Option (List (Nat × Nat)))
    (rows : List (Nat × Nat × Nat × Nat × Nat × Nat)) (extra : Bytes) : LieM Bytes := do
  let w : Nat × Nat × Nat := if c.wide then (1, 4, 4) else (1, 2, 1)
  let mut data : Bytes := []
  -- ONE lie about the number of the object stream, told by every type-2 row (the loader collects the set of
  -- streams the rows name, so a single row lying is covered up by its neighbours)
  let mut stmDelta : Int := 0
  if rows.any (fun r => r.2.1 == 2) then
    stmDelta := (← fld s!"{pre}xs.stmAll" 10 size) - 10
  for (k, t, a, b, xa, xb) in rows do
    data := data ++ (← lieRow s!"{pre}xs." w k t a b xa xb stmDelta)
  -- truncated rows (everything else consistent)
  data := data.take (← fld s!"{pre}xs.cut" data.length (w.1 + w.2.1 + w.2.2)).toNat
  let enc := if c.flate then zlibStored data else data
  let mut ix : Bytes := []
  match index with
  | none => pure ()
  | some ps =>
    let mut j := 0
    ix := bs " /Index ["
    for (s, n) in ps do
      ix := ix ++ (← num s!"{pre}xs.Index{j}" s size) ++ bs " " ++ (← num s!"{pre}xs.Index{j + 1}" n size) ++ bs " "
      j := j + 2
    ix := ix ++ bs "]"
  let dict := bs "/Type /XRef /Size " ++ (← num s!"{pre}xs.Size" size) ++ bs " /W [" ++ (← num s!"{pre}xs.W0" w.1 4) ++ bs " " ++
    (← num s!"{pre}xs.W1" w.2.1 4) ++ bs " " ++ (← num s!"{pre}xs.W2" w.2.2 4) ++ bs "]" ++ ix ++ bs " /Root 1 0 R" ++
    (if c.flate then bs " /Filter /FlateDecode" else []) ++ extra
  return streamObj onum dict (← num s!"{pre}xs.Length" enc.length) enc

def updContent : Bytes := bs "BT /F1 9 Tf 72 700 Td (update) Tj ET"

/-- the document of configuration `c`; `flen` = the length of the file (extent of file offsets) -/
def lieDocM (c : LieCfg) (flen : Nat) : LieM Bytes := do
  let classic := c.layout == 0
  let size : Nat := if classic then 10 else 12
  let kids ← num "pg.Kids" 3 size
  let count ← num "pg.Count" 1
  let len4 ← num "len.direct" textContent.length
  let len8 ← num "len.ref" 3
  let o1 := bs "<< /Type /Catalog /Pages 2 0 R >>"
  let o2 := bs "<< /Type /Pages /Kids [" ++ kids ++ bs " 0 R] /Count " ++ count ++ bs " >>"
  let o5 := bs "<< /Type /Font /Subtype /Type1 /BaseFont /Helvetica /FontDescriptor 6 0 R >>"
  let o6 := bs "<< /Type /FontDescriptor /FontName /Helvetica /Flags 32 /FontFile 7 0 R >>"
  let f3 := obj 3 (bs "<< /Type /Page /Parent 2 0 R /MediaBox [0 0 612 792] /Contents 4 0 R /Resources << /Font << /F1 5 0 R >> >> >>")
  let f4 := streamObj 4 [] len4 textContent
  let f7 := streamObj 7 [] (bs "8 0 R") (bs "abc")      -- its /Length is defined AFTER it: second pass of the loader
  let f8 := obj 8 len8
  let fileObjs : List (Nat × Bytes) :=
    if classic then [(1, obj 1 o1), (2, obj 2 o2), (3, f3), (4, f4), (5, obj 5 o5), (6, obj 6 o6), (7, f7), (8, f8), (9, obj 9 (bs "null"))]
    else [(3, f3), (4, f4), (7, f7), (8, f8)]
  let mut body := hdr
  let mut offs : List (Nat × Nat) := []
  for (k, t) in fileObjs do
    offs := offs ++ [(k, body.length)]
    body := body ++ t
  let mut baseSec := 0
  if classic then
    baseSec := body.length
    let tbl ← lieTable "" [(0, none :: offs.map fun p => some p.2)] size flen
    let tr ← lieTrailer "" size [] (if c.upd then "startxref0" else "startxref") baseSec flen
    body := body ++ tbl ++ tr
  else
    -- object stream 10
    let members : List (Nat × Bytes) := [(1, o1), (2, o2), (5, o5), (6, o6), (9, bs "null")]
    let mut content : Bytes := []
    let mut mofs : List (Nat × Nat) := []
    for (k, t) in members do
      mofs := mofs ++ [(k, content.length)]
      content := content ++ t ++ bs " "
    let mut hd : Bytes := []
    let mut i := 0
    for (k, o) in mofs do
      hd := hd ++ (← num s!"os.num{i}" k size) ++ bs " " ++ (← num s!"os.ofs{i}" o content.length) ++ bs " "
      i := i + 1
    let first ← num "os.First" hd.length (hd.length + content.length)
    let nn ← num "os.N" members.length
    let whole := hd ++ content
    -- a TRUNCATED object stream (everything else consistent): cut near the ends and near /First, or near the last member
    let cut1 ← fld "os.cut" whole.length hd.length
    let cut2 ← fld "os.cut2" whole.length (hd.length + (mofs.getLast?.map (·.2)).getD 0)
    let raw := whole.take (min cut1.toNat cut2.toNat)
    let data := if c.flate then zlibStored raw else raw
    let f10 := streamObj 10 (bs "/Type /ObjStm /N " ++ nn ++ bs " /First " ++ first ++
      (if c.flate then bs " /Filter /FlateDecode" else [])) (← num "os.Length" data.length) data
    let off10 := body.length
    body := body ++ f10
    let off11 := body.length
    offs := offs ++ [(10, off10), (11, off11)]
    let rowOf (k : Nat) : Nat × Nat × Nat × Nat × Nat × Nat :=
      match offs.lookup k with
      | some o => (k, 1, o, 0, flen, 0)
      | none =>
        match (members.map (·.1)).idxOf? k with
        | some ix => (k, 2, 10, ix, size, members.length)
        | none => (k, 0, 0, 255, size, 0)
    if c.layout == 1 then
      let rows := (List.range size).map rowOf
      let f11 ← lieXrefStm "" c 11 size (if c.index then some [(0, size)] else none) rows []
      baseSec := off11
      body := body ++ f11 ++ bs "startxref\n" ++ (← num (if c.upd then "startxref0" else "startxref") off11 flen) ++ bs "\n%%EOF\n"
    else
      let rows := [1, 2, 5, 6, 9].map rowOf
      let f11 ← lieXrefStm "" c 11 size (some [(1, 2), (5, 2), (9, 1)]) rows []
      body := body ++ f11
      baseSec := body.length
      let o (k : Nat) : Option Nat := some ((offs.lookup k).getD 0)
      let tbl ← lieTable "" [(0, [none]), (3, [o 3, o 4]), (7, [o 7, o 8]), (10, [o 10, o 11])] size flen
      let tr ← lieTrailer "" size (bs " /XRefStm " ++ (← num "XRefStm" off11 flen)) (if c.upd then "startxref0" else "startxref") baseSec flen
      body := body ++ tbl ++ tr
  if c.upd then
    let ofsNew := body.length
    body := body ++ streamObj 4 [] (natStr updContent.length) updContent
    let sec := body.length
    let prev ← num "Prev" baseSec flen
    if c.layout == 1 then
      let f12 ← lieXrefStm "u." c 12 13 (some [(4, 1), (12, 1)]) [(4, 1, ofsNew, 0, flen, 0), (12, 1, sec, 0, flen, 0)] (bs " /Prev " ++ prev)
      body := body ++ f12 ++ bs "startxref\n" ++ (← num "startxref" sec flen) ++ bs "\n%%EOF\n"
    else
      let tbl ← lieTable "u." [(4, [some ofsNew])] size flen
      let tr ← lieTrailer "u." size (bs " /Prev " ++ prev) "startxref" sec flen
      body := body ++ tbl ++ tr
  return body

/-- the document and the fields it consulted (the file length is found by iteration) -/
def runLie (c : LieCfg) (L : LieFn) : Bytes × List String :=
  let go (flen : Nat) : Bytes × List String := Id.run (((lieDocM c flen).run L).run [])
  let d0 := (go 0).1
  let d1 := (go d0.length).1
  let d2 := (go d1.length).1
  let (d, fs) := go d2.length
  (d, fs.reverse.eraseDups)

/-- the document of `c` in which field `f` takes its `k`-th boundary value -/
def lieDoc (c : LieCfg) (thorough : Bool) (f : String) (k : Nat) : Bytes :=
  (runLie c fun g e x => if g == f then ((lieVals thorough e x)[k]?).getD e else e).1

def lieCfgs (thorough : Bool) : List LieCfg :=
  [{ layout := 0 }, { layout := 1 }, { layout := 2 }, { layout := 0, upd := true }, { layout := 1, upd := true },
   { layout := 2, upd := true }, { layout := 1, wide := true }, { layout := 1, index := true }, { layout := 1, flate := true }] ++
  (if thorough then [{ layout := 2, flate := true }, { layout := 2, wide := true }, { layout := 1, upd := true, flate := true, wide := true },
    { layout := 1, index := true, wide := true, flate := true }, { layout := 2, upd := true, flate := true }] else [])

/-- quick tier: the fields swept in a configuration (thorough: all of them).  The plain configuration of a layout
    sweeps one field of every kind the layout has; the variants (update, wide rows, /Index, Flate) sweep what the
    variant adds or changes. -/
def lieQuickSel (c : LieCfg) (f : String) : Bool :=
  let plainCfg := !c.upd && !c.wide && !c.index && !c.flate
  let sel : List String :=
    if plainCfg then
      match c.layout with
      | 0 => ["pg.Kids", "pg.Count", "len.direct", "len.ref", "ct.start0", "ct.count0", "ct.ofs1", "ct.ofs4", "tr.Size", "startxref"]
      | 1 => ["os.ofs0", "os.ofs1", "os.ofs4", "os.num4", "os.First", "os.N", "os.cut", "os.cut2", "xs.Size", "xs.W0", "xs.Length",
              "xs.r0.a", "xs.stmAll", "xs.r1.b", "xs.r9.b", "xs.r3.a", "startxref"]
      | _ => ["os.ofs4", "os.First", "os.N", "os.cut2", "XRefStm", "ct.start1", "ct.ofs11", "xs.Index0", "xs.Index1", "startxref", "pg.Kids"]
    else if c.upd then
      match c.layout with
      | 0 => ["Prev", "startxref", "u.ct.ofs4", "u.ct.start0"]
      | 1 => ["Prev", "startxref", "u.xs.r4.a", "u.xs.Index0"]
      | _ => ["Prev", "startxref"]
    else if c.wide then ["xs.r1.a", "xs.r1.b", "xs.r3.a"]
    else if c.index then ["xs.Index0", "xs.Index1", "xs.Size"]
    else ["os.ofs4", "os.cut2", "xs.cut"]
  sel.contains f

def lieSweep (thorough : Bool) (doc : Bytes → IO Unit) : IO Unit := do
  for c in lieCfgs thorough do
    let (h, fields) := runLie c honest
    doc h
    for f in fields do
      if thorough || lieQuickSel c f then
        let mut seen := [h]
        for k in List.range 28 do
          let d := lieDoc c thorough f k
          if !seen.contains d then
            seen := d :: seen
            doc d

/-! ### the /Filter x /DecodeParms SHAPE table on every stream the pipeline decodes

  `StreamT::filters` (pdf_obj.rs) pairs the two entries of a stream dictionary by their SHAPES: a single name with
  an optional dictionary, or an array of names with an optional parallel array of null / dictionary entries;
  everything else is a located error (or silently no filter at all).  C06 runs the whole table against the
  function in isolation; here the same table is put on the four streams the pipeline decodes ITSELF (hosts of
  `parmSweep`: the page's content stream alone and as first element of a /Contents array, the object stream
  holding catalog and page tree, the cross-reference stream) in complete small documents, so that every exit of
  the function - and every partial operation somebody may add to it - is reached through decode_stream,
  ObjStreamP and XrefStreamP.  The data is the host's own payload REALLY ENCODED for the layers the /Filter
  entry names (Flate, ASCIIHex, ASCII85, outermost first; a predictor dictionary that the shape hands to a
  FlateDecode layer is honoured by the spec-side predictor encoder), so the legal shapes complete with the
  text extracted / the objects loaded through the decoders. -/

inductive FEnt where
  | nm (s : String)          -- a name
  | other (s : String)       -- any other object, spelled
deriving BEq

inductive FForm where
  | absent
  | single (e : FEnt)
  | arr (es : List FEnt)
deriving BEq

/-- an entry of /DecodeParms -/
inductive PEnt where
  | null
  | dEmpty                   -- << >>
  | dP1                      -- << /Predictor 1 >>
  | dP12                     -- << /Predictor 12 /Columns 4 >>: the data of a Flate layer that gets it is PNG-Up encoded
  | other (s : String)
deriving BEq

inductive PForm where
  | absent
  | single (e : PEnt)
  | arr (es : List PEnt)
deriving BEq

def FEnt.text : FEnt → String
  | .nm s => "/" ++ s
  | .other s => s

def FForm.text : FForm → String
  | .absent => ""
  | .single e => "/Filter " ++ e.text ++ " "
  | .arr es => "/Filter [" ++ " ".intercalate (es.map FEnt.text) ++ "] "

def PEnt.text : PEnt → String
  | .null => "null"
  | .dEmpty => "<< >>"
  | .dP1 => "<< /Predictor 1 >>"
  | .dP12 => "<< /Predictor 12 /Columns 4 >>"
  | .other s => s

def PForm.text : PForm → String
  | .absent => ""
  | .single e => "/DecodeParms " ++ e.text ++ " "
  | .arr es => "/DecodeParms [" ++ " ".intercalate (es.map PEnt.text) ++ "] "

/-- the layers the /Filter entry names (outermost first), each with: does the shape hand it the predictor
    dictionary (single name + dictionary; parallel arrays of equal length, entry by entry) -/
def shapeLayers (f : FForm) (p : PForm) : List (String × Bool) :=
  match f, p with
  | .absent, _ => []
  | .single (.nm s), .single e => [(s, e == .dP12)]
  | .single (.nm s), _ => [(s, false)]
  | .single _, _ => []
  | .arr es, .arr ps =>
    if es.length == ps.length then
      (es.zip ps).filterMap fun (e, q) => match e with | .nm s => some (s, q == .dP12) | _ => none
    else es.filterMap fun e => match e with | .nm s => some (s, false) | _ => none
  | .arr es, _ => es.filterMap fun e => match e with | .nm s => some (s, false) | _ => none

/-- the payload encoded for the layers (innermost layer first applied) -/
def shapeEncode (layers : List (String × Bool)) (pad : UInt8) (payload : Bytes) : Bytes :=
  layers.foldr (fun (l : String × Bool) d =>
    if l.1 == "FlateDecode" then
      zlibStored (if l.2 then (encodeFor ⟨.int 12, .absent, .int 4, .absent⟩ 4 pad d).2 else d)
    else if l.1 == "ASCIIHexDecode" then asciiHexEnc d
    else if l.1 == "ASCII85Decode" then ascii85Enc d
    else d) payload

/-- one document of the shape table; hosts as in `parmDoc`; `flip` writes /DecodeParms before /Filter -/
def shapeDoc (host : Nat) (flip : Bool) (f : FForm) (p : PForm) : Bytes :=
  let enc (pad : UInt8) (payload : Bytes) : Bytes × Bytes :=
    (bs (if flip then p.text ++ f.text else f.text ++ p.text), shapeEncode (shapeLayers f p) pad payload)
  let plainS (payload : Bytes) : Bytes × Bytes := ([], payload)
  match host % 4 with
  | 0 => let (x, d) := enc 32 textContent
         baseDoc d x none (bs "[3 0 R]") [] [] [] []
  | 1 => let (x, d) := enc 32 textContent
         twoStreamDocX d x (bs "q Q")
  | 2 => xosDoc (enc 32) plainS
  | _ => xosDoc plainS (enc 0)

def fForms (thorough : Bool) : List FForm :=
  let n := FEnt.nm
  [.absent, .single (n "FlateDecode"), .single (n "ASCIIHexDecode"), .arr [], .arr [n "FlateDecode"],
   .arr [n "ASCIIHexDecode", n "FlateDecode"], .arr [n "ASCII85Decode", n "ASCIIHexDecode", n "FlateDecode"],
   .single (.other "7"), .arr [.other "7"], .arr [n "FlateDecode", .other "7"], .arr [.other "7", n "FlateDecode"],
   .single (.other "null")] ++
  (if thorough then
    [.single (n "ASCII85Decode"), .arr [n "ASCII85Decode"], .arr [n "ASCIIHexDecode"], .arr [n "ASCII85Decode", n "FlateDecode"],
     .arr [n "FlateDecode", n "FlateDecode"], .arr [n "ASCIIHexDecode", n "ASCIIHexDecode", n "ASCII85Decode"],
     .single (n "Unknown"), .arr [n "FlateDecode", n "Unknown"], .arr [n "Unknown", n "FlateDecode"],
     .single (.other "(FlateDecode)"), .arr [.other "(FlateDecode)", n "FlateDecode"], .arr [.other "[/FlateDecode]"],
     .single (.other "<< >>"), .single (.other "3 0 R"), .single (.other "99 0 R"), .arr [.other "3 0 R"],
     .arr [n "FlateDecode", .other "null"], .arr [.other "null"], .arr [.other "null", .other "null", .other "null"],
     .single (.other "true"), .single (.other "1.5")]
   else [])

def pForms (thorough : Bool) : List PForm :=
  let o := PEnt.other
  [.absent, .single .null, .single .dEmpty, .single .dP1, .single .dP12,
   .arr [], .arr [.null], .arr [.dEmpty], .arr [.dP12], .arr [o "7"],
   .arr [.null, .null], .arr [.null, .dP12], .arr [.dEmpty, o "7"], .arr [o "7", .null],
   .arr [.null, .null, .null], .arr [.null, .null, .dP12], .arr [.null, o "7", .null],
   .single (o "7"), .single (o "/N"), .single (o "3 0 R"), .arr [o "3 0 R"]] ++
  (if thorough then
    [.single (o "(s)"), .single (o "true"), .single (o "1.5"), .single (o "99 0 R"), .arr [o "99 0 R"], .arr [o "[null]"],
     .arr [o "[ ]"], .arr [o "/N"], .arr [o "(s)"], .arr [.dP1], .arr [.dEmpty, .dEmpty], .arr [.dP12, .dP12], .arr [.dP12, .null],
     .arr [.null, o "3 0 R"], .arr [.dEmpty, .dEmpty, .dEmpty], .arr [.dP12, .null, .null], .arr [o "7", o "7", o "7"],
     .arr [.null, .null, .null, .null], .arr [.null, .dEmpty, .null, .dP12]]
   else [])

/-- quick: every (filter form, parameter form) pair once, hosts rotating, and the pairs around the single-name /
    one-element-array boundary on all four hosts; thorough: everything on all four hosts. -/
def shapeSweep (thorough : Bool) (doc : Bytes → IO Unit) : IO Unit := do
  let n := FEnt.nm
  let keyF : List FForm := [.single (n "FlateDecode"), .single (n "ASCIIHexDecode"), .arr [n "FlateDecode"]]
  let keyP : List PForm := [.arr [], .arr [.null], .arr [.dEmpty], .arr [.null, .null]]
  -- legal shapes whose predictor dictionary reaches the FlateDecode layer: on the object-stream and cross-reference
  -- stream hosts the document completes only if the chain was really decoded
  let legal : List (FForm × PForm) :=
    [(.single (n "FlateDecode"), .single .dP12), (.arr [n "ASCIIHexDecode", n "FlateDecode"], .arr [.null, .dP12]),
     (.arr [n "ASCII85Decode", n "ASCIIHexDecode", n "FlateDecode"], .arr [.null, .null, .dP12])]
  let mut k := 0
  for f in fForms thorough do
    for p in pForms thorough do
      if thorough || (keyF.contains f && keyP.contains p) || legal.contains (f, p) then
        for host in [0, 1, 2, 3] do
          doc (shapeDoc host (k % 2 == 1) f p)
          k := k + 1
      else
        doc (shapeDoc k (k / 4 % 2 == 1) f p)
        k := k + 1

/-! ### work-amplifying shapes in well-formed files

  Every traversal of the pipeline (dump_root, the type checker, the page-DOM builder's work queue, per-page
  decoding) visits a DISTINCT object once - that is what makes the termination budgets of C01 polynomial in the
  file (|objU|+1 dequeues, workBound, |defs|+1).  The documents here are well-formed and small (a few KB), but the
  number of PATHS / MENTIONS in them is exponential or quadratic in their size: layered DAGs in which every node of
  a layer names every node of the next layer, each `m` times (`w = 1, m >= 2`: a ladder whose nodes list the same
  kid twice or three times; `w = 2`: diamonds; `w >= 3`: kids shared between all siblings; two or three layers with
  `m` in the hundreds: the quadratic version).  A traversal that works per mention instead of per object needs
  (w*m)^levels steps and does not come back within the runner's time limit, while the code as it is answers in
  milliseconds.  The same lattice is built (a) as the page tree itself (/Pages nodes, leaf pages below the last layer
  sharing one content stream and one font), and (b) from dictionaries / arrays / directly nested containers hung
  below the page, the catalog or a stream dictionary (dump_root and the type checker's reference handling).
  `repDoc`: the linear members of the class - /Contents arrays that repeat one stream, font dictionaries that
  name one font under many keys, resources reached through a chain of references, shared by many pages. -/

def refsTxt (rs : List Nat) : Bytes := (rs.map fun r => natStr r ++ bs " 0 R ").flatten

/-- the mentions a node of a layer makes of the next layer's nodes `next`: each `m` times, grouped (a a b b) or
    interleaved (a b a b) -/
def ampRefs (m : Nat) (inter : Bool) (next : List Nat) : List Nat :=
  if inter then (List.replicate m next).flatten else next.flatMap fun x => List.replicate m x

/-- `levels` layers of `w` objects numbered from `first`; `node k l above refs` = body of object `k` in layer `l`
    (`above` = first object of the layer above, `top` for layer 0); the layer below the last one is `tails` -/
def ampLayers (first levels w m : Nat) (inter : Bool) (top : Nat) (tails : List Nat)
    (node : Nat → Nat → Nat → List Nat → Bytes) : List Bytes :=
  (List.range levels).flatMap fun l =>
    let next : List Nat := if l + 1 == levels then tails else (List.range w).map fun j => first + (l + 1) * w + j
    let above := if l == 0 then top else first + (l - 1) * w
    (List.range w).map fun i => obj (first + l * w + i) (node (first + l * w + i) l above (ampRefs m inter next))

/-- (a) the lattice as the page tree: 1 catalog, 2 root /Pages, 3.. the layers, then `leaves` leaf pages (all below
    every node of the last layer), one content stream, one font.  `parents`: write /Parent entries -/
def kidsLattice (levels w m leaves : Nat) (inter parents : Bool) : Bytes :=
  let first := 3
  let leaf0 := first + levels * w
  let cont := leaf0 + leaves
  let font := cont + 1
  let l0 : List Nat := if levels == 0 then (List.range leaves).map (leaf0 + ·) else (List.range w).map (first + ·)
  let par (p : Nat) : Bytes := if parents then bs "/Parent " ++ natStr p ++ bs " 0 R " else []
  let content := bs "BT /F1 12 Tf 72 720 Td (shared) Tj ET"
  assemble hdr
    ([obj 1 (bs "<< /Type /Catalog /Pages 2 0 R >>"),
      obj 2 (bs "<< /Type /Pages /Count " ++ natStr leaves ++ bs " /Kids [" ++ refsTxt (ampRefs m inter l0) ++ bs "] >>")] ++
     ampLayers first levels w m inter 2 ((List.range leaves).map (leaf0 + ·)) (fun _ _ above refs =>
       bs "<< /Type /Pages " ++ par above ++ bs "/Count " ++ natStr leaves ++ bs " /Kids [" ++ refsTxt refs ++ bs "] >>") ++
     ((List.range leaves).map fun i => obj (leaf0 + i)
       (bs "<< /Type /Page " ++ par (if levels == 0 then 2 else first + (levels - 1) * w) ++ bs "/MediaBox [0 0 612 792] /Contents " ++
        natStr cont ++ bs " 0 R /Resources << /Font << /F1 " ++ natStr font ++ bs " 0 R >> >> >>")) ++
     [streamObj cont [] (natStr content.length) content,
      obj font (bs "<< /Type /Font /Subtype /Type1 /BaseFont /Helvetica >>")])
    [] (bs "1 0 R")

/-- (b) the lattice built from containers, hung below `pos` (0 the page, 1 the catalog, 2 the content stream's
    dictionary, 3 the root of the page tree); flavour 0 dictionaries (one key per mention), 1 arrays, 2 directly
    nested containers around the mentions; the last layer mentions stream 7 (decoded by dump_root) -/
def dagDoc (pos flavour levels w m : Nat) (inter : Bool) : Bytes :=
  let first := 8
  let l0 := refsTxt (ampRefs m inter ((List.range w).map (first + ·)))
  let x : Bytes := bs "/X [" ++ l0 ++ bs "]"
  let node (_k _l _above : Nat) (refs : List Nat) : Bytes :=
    match flavour % 3 with
    | 0 => bs "<< " ++ ((List.range refs.length).zip refs).flatMap (fun (i, r) => bs "/K" ++ natStr i ++ bs " " ++ natStr r ++ bs " 0 R ") ++ bs ">>"
    | 1 => bs "[" ++ refsTxt refs ++ bs "]"
    | _ => bs "<< /A [" ++ refsTxt refs ++ bs "] /B << /C [[" ++ refsTxt refs ++ bs "]] /D " ++ natStr (refs.headD 7) ++ bs " 0 R >> >>"
  let more := ampLayers first levels w m inter 3 [7] node
  match pos % 4 with
  | 0 => baseDoc textContent [] none (bs "[3 0 R]") x [] [] more
  | 1 => baseDoc textContent [] none (bs "[3 0 R]") [] [] x more
  | 2 => baseDoc textContent x none (bs "[3 0 R]") [] [] [] more
  | _ => baseDoc textContent [] none (bs "[3 0 R]") [] x [] more

/-- the linear members: `pages` pages sharing /Contents (one stream repeated `r` times, inline or through an array
    object) and /Resources (one font under `f` keys, reached through `c` references when `shared`) -/
def repDoc (pages r f c : Nat) (shared : Bool) : Bytes :=
  let content := bs "BT /F1 9 Tf (a) Tj ET "
  let contArr := bs "[" ++ refsTxt (List.replicate r 3) ++ bs "]"
  let res := bs "<< /Font << " ++ ((List.range f).flatMap fun i => bs "/F" ++ natStr (i + 1) ++ bs " 4 0 R ") ++ bs ">> >>"
  let chain := (List.range c).map fun i => obj (8 + i) (if i + 1 == c then res else natStr (9 + i) ++ bs " 0 R")
  let p0 := 8 + c
  assemble hdr
    ([obj 1 (bs "<< /Type /Catalog /Pages 2 0 R >>"),
      obj 2 (bs "<< /Type /Pages /Count " ++ natStr pages ++ bs " /Kids [" ++ refsTxt ((List.range pages).map (p0 + ·)) ++ bs "] >>"),
      streamObj 3 [] (natStr content.length) content,
      obj 4 (bs "<< /Type /Font /Subtype /Type1 /BaseFont /Helvetica /FontDescriptor 5 0 R >>"),
      obj 5 (bs "<< /Type /FontDescriptor /FontName /Helvetica /Flags 32 /FontFile 6 0 R >>"),
      streamObj 6 [] (bs "3") (bs "abc"),
      obj 7 contArr] ++ chain ++
     ((List.range pages).map fun i => obj (p0 + i)
       (bs "<< /Type /Page /Parent 2 0 R /MediaBox [0 0 612 792] /Contents " ++ (if shared then bs "7 0 R" else contArr) ++
        bs " /Resources " ++ (if shared then bs "8 0 R" else res) ++ bs " >>")))
    [] (bs "1 0 R")

/-- lattice sizes (levels, w, m): controls that any traversal finishes, then sizes where (w*m)^levels (or, for the
    two- and three-layer ones, m^levels) steps cannot be done within the time limit -/
def ampSizes (thorough : Bool) : List (Nat × Nat × Nat) :=
  [(0, 1, 2), (1, 1, 2), (3, 1, 2), (3, 2, 2), (30, 1, 2), (60, 1, 2), (40, 1, 3), (3, 2, 1), (30, 2, 1),
   (30, 2, 2), (20, 3, 1), (8, 8, 1), (2, 1, 200), (3, 1, 100), (2, 3, 50)] ++
  (if thorough then
    ((List.range 9).flatMap fun l => [(l, 1, 2), (l, 1, 3), (l, 2, 1), (l, 2, 2), (l, 3, 1)]) ++
    [(20, 1, 2), (25, 1, 2), (40, 1, 2), (50, 1, 2), (100, 1, 2), (24, 1, 3), (30, 1, 3), (60, 1, 3), (30, 1, 4), (20, 1, 10),
     (20, 2, 1), (40, 2, 1), (60, 2, 1), (80, 2, 1), (40, 2, 2), (60, 2, 2), (30, 2, 3), (30, 3, 1), (40, 3, 1), (60, 3, 1), (30, 3, 2),
     (20, 5, 1), (24, 5, 1), (12, 8, 1), (14, 8, 1), (6, 16, 1), (3, 30, 1), (4, 1, 100), (3, 1, 300), (3, 1, 500), (2, 1, 1000),
     (3, 2, 120), (2, 5, 40)]
   else [])

def ampSweep (thorough : Bool) (doc : Bytes → IO Unit) : IO Unit := do
  let mut k := 0
  for (levels, w, m) in ampSizes thorough do
    if thorough && levels ≤ 8 && m < 50 && w ≤ 3 then
      -- small lattices: everything crossed
      for leaves in [0, 1, 2] do
        for parents in [true, false] do
          doc (kidsLattice levels w m leaves false parents)
        if m > 1 && w > 1 then doc (kidsLattice levels w m leaves true true)
      if levels > 0 then
        for pos in [0, 1, 2, 3] do
          for fl in [0, 1, 2] do
            doc (dagDoc pos fl levels w m false)
            if m > 1 && w > 1 then doc (dagDoc pos fl levels w m true)
    else
      -- (a) page trees
      doc (kidsLattice levels w m (if w == 1 then 1 else 2) false true)
      if m > 1 && w > 1 then doc (kidsLattice levels w m 1 true true)
      if thorough || k % 3 == 0 then doc (kidsLattice levels w m 0 (k % 2 == 1) (k % 4 < 2))
      -- (b) container DAGs below the page / the catalog / a stream dictionary / the root of the page tree
      if levels > 0 then
        doc (dagDoc k k levels w m false)
        doc (dagDoc (k + 1) (k + 1) levels w m (k % 2 == 0))
        if thorough then doc (dagDoc (k + 2) (k + 2) levels w m false)
    k := k + 1
  -- the linear members
  let reps : List (Nat × Nat × Nat × Nat) :=
    [(1, 2, 1, 1), (1, 200, 1, 1), (1, 2, 200, 1), (1, 2, 1, 100), (20, 10, 10, 10), (50, 3, 3, 3)] ++
    (if thorough then [(1, 1000, 1, 1), (1, 1, 1000, 1), (1, 1, 1, 1000), (150, 2, 2, 2), (40, 20, 20, 20), (0, 2, 2, 2)] else [])
  for (pages, r, f, c) in reps do
    doc (repDoc pages r f c false)
    doc (repDoc pages r f c true)

/-! ### STRUCTURES RUNNING INTO THE END OF THE FILE WHILE STILL REACHABLE (strengthening after missed seed C01_11)

A plain prefix of a well-formed file loses `startxref` first and is rejected before any structure is read.  Here the
structure that is cut is the LAST thing in the file and is still reached: through `/Prev` from a complete newest
section placed earlier, through a `startxref` (with or without `%%EOF`, or inside a comment) placed BEFORE it, or - for
objects - through a complete cross-reference section placed earlier whose entry points behind `%%EOF`.  `eofDoc kind reach`
returns the complete file and the length t of its last structure; the cases are the file minus its last k bytes, k = 0..t
(k = 0 is the control). -/

/-- the seven objects of `plain` -/
def eofObjs : List Bytes :=
  [obj 1 (bs "<< /Type /Catalog /Pages 2 0 R >>"),
   obj 2 (bs "<< /Type /Pages /Kids [3 0 R] /Count 1 >>"),
   obj 3 (bs "<< /Type /Page /Parent 2 0 R /MediaBox [0 0 612 792] /Contents 4 0 R /Resources << /Font << /F1 5 0 R >> >> >>"),
   streamObj 4 [] (natStr textContent.length) textContent,
   obj 5 (bs "<< /Type /Font /Subtype /Type1 /BaseFont /Helvetica /FontDescriptor 6 0 R >>"),
   obj 6 (bs "<< /Type /FontDescriptor /FontName /Helvetica /Flags 32 /FontFile 7 0 R >>"),
   streamObj 7 [] (bs "3") (bs "abc")]

/-- offsets of consecutive pieces starting at `start` -/
def eofOffsets (start : Nat) (ps : List Bytes) : List Nat :=
  (ps.foldl (fun (acc : Nat × List Nat) p => (acc.1 + p.length, acc.2 ++ [acc.1])) (start, [])).2

/-- a classic table: subsections (first number, entries; none = free) -/
def eofTable (subs : List (Nat × List (Option Nat))) : Bytes :=
  bs "xref\n" ++ (subs.map fun (st, es) => natStr st ++ bs " " ++ natStr es.length ++ bs "\n" ++
    (es.map fun e => match e with
      | none => bs "0000000000 65535 f \n"
      | some o => pad10 o ++ bs " 00000 n \n").flatten).flatten

/-- a cross-reference stream object `onum` with /W [1 2 1] rows for objects 0.. (none = free; .inl offset; .inr (stream, index)) -/
def eofXrefStm (onum : Nat) (rows : List (Option (Nat ⊕ (Nat × Nat)))) (extra : Bytes) : Bytes :=
  let row (t a b : Nat) : Bytes := [UInt8.ofNat t, UInt8.ofNat (a / 256), UInt8.ofNat (a % 256), UInt8.ofNat b]
  let data := (rows.map fun r => match r with
    | none => row 0 0 255
    | some (.inl o) => row 1 o 0
    | some (.inr (s, i)) => row 2 s i).flatten
  streamObj onum (bs "/Type /XRef /Size " ++ natStr rows.length ++ bs " /W [1 2 1] /Root 1 0 R " ++ extra) (natStr data.length) data

/-- least fixed point of a layout whose text contains its own end offset -/
def eofFix (base : Nat) (mk : Nat → Bytes) : Bytes :=
  let p1 := base + (mk 0).length
  let p2 := base + (mk p1).length
  let p3 := base + (mk p2).length
  mk p3

/-- the text that announces the last section when it is not reached through /Prev -/
def eofAnnounce (reach : Nat) (p : Nat) : Bytes :=
  match reach with
  | 1 => bs "startxref\n" ++ natStr p ++ bs "\n%%EOF\n"
  | 2 => bs "startxref\n" ++ natStr p ++ bs "\n"
  | _ => bs "% moved: startxref " ++ natStr p ++ bs " %%EOF\n"

/-- kinds: 0 classic table + trailer (two subsections), 1 classic table alone (trailer before it is impossible: the entries are last),
    2 cross-reference stream object, 3 object stream (catalog and page tree) behind a complete cross-reference stream,
    10+j: object j (1..7) of a classic document moved behind `%%EOF`.  reach: 0 = /Prev from a complete newest section,
    1 = startxref + %%EOF before it, 2 = startxref without %%EOF before it, 3 = the startxref text inside a comment before it
    (kinds 0..2 only; the others are reached through the complete section). -/
def eofDoc (kind reach : Nat) : Bytes × Nat :=
  let objs := eofObjs
  let body := hdr ++ objs.flatten
  let offs := eofOffsets hdr.length objs
  let all : List (Option Nat) := none :: offs.map some
  let trailer (extra : Bytes) := bs "trailer\n<< /Size 8 /Root 1 0 R " ++ extra ++ bs ">>\n"
  -- the last section, given its own offset
  let lastSect (p : Nat) : Bytes :=
    match kind with
    | 0 => eofTable [(0, all.take 4), (4, all.drop 4)] ++ trailer []
    | 1 => eofTable [(0, all.take 3), (3, all.drop 3)]
    | _ => eofXrefStm 8 (all.map (fun o => o.map Sum.inl) ++ [some (.inl p)]) []
  if kind ≤ 2 then
    if reach == 0 then
      -- complete newest section, then the older section it names by /Prev
      let newest (p : Nat) := eofTable [(0, all)] ++ trailer (bs "/Prev " ++ natStr p ++ bs " ") ++
        bs "startxref\n" ++ natStr body.length ++ bs "\n%%EOF\n"
      let mid := eofFix body.length newest
      let p := body.length + mid.length
      let t := lastSect p
      (body ++ mid ++ t, t.length)
    else
      -- for kind 1 the trailer has to come first as well
      let pre (p : Nat) := (if kind == 1 then trailer [] else []) ++ eofAnnounce reach p
      let mid := eofFix body.length pre
      let p := body.length + mid.length
      let t := lastSect p
      (body ++ mid ++ t, t.length)
  else if kind == 3 then
    -- 1, 2 in object stream 8; 3..7 plain; cross-reference stream 9 complete and earlier; object stream last
    let o1 := bs "<< /Type /Catalog /Pages 2 0 R >>"
    let o2 := bs "<< /Type /Pages /Kids [3 0 R] /Count 1 >>"
    let h := bs "1 0 2 " ++ natStr (o1.length + 1) ++ bs " "
    let data := h ++ o1 ++ bs " " ++ o2
    let os := streamObj 8 (bs "/Type /ObjStm /N 2 /First " ++ natStr h.length) (natStr data.length) data
    let plainObjs := objs.drop 2
    let offs := eofOffsets hdr.length plainObjs
    let body := hdr ++ plainObjs.flatten
    let xs (p : Nat) := eofXrefStm 9 ([none, some (.inr (8, 0)), some (.inr (8, 1))] ++ offs.map (fun o => some (.inl o)) ++
      [some (.inl p), some (.inl body.length)]) []
    let mid (p : Nat) := xs p ++ bs "startxref\n" ++ natStr body.length ++ bs "\n%%EOF\n"
    let m := eofFix body.length mid
    (body ++ m ++ os, os.length)
  else
    -- object j of the classic document behind %%EOF
    let j := kind - 10
    let early := (objs.zip (List.range 7)).filter (fun x => x.2 + 1 != j)
    let late := objs.getD (j - 1) []
    let eoffs := eofOffsets hdr.length (early.map (·.1))
    let body := hdr ++ (early.map (·.1)).flatten
    let sect (p : Nat) :=
      let ents := (List.range 7).map fun i =>
        if i + 1 == j then some p else ((early.zip eoffs).find? (fun x => x.1.2 == i)).map (·.2)
      eofTable [(0, none :: ents)] ++ trailer [] ++ bs "startxref\n" ++ natStr body.length ++ bs "\n%%EOF\n"
    let m := eofFix body.length sect
    (body ++ m ++ late, late.length)

def eofSweep (thorough : Bool) (doc : Bytes → IO Unit) : IO Unit := do
  -- (kind, reach, dense: every cut up to this many bytes before the end, stride beyond)
  let cfgs : List (Nat × Nat × Nat × Nat) :=
    [(0, 0, 82, 9), (0, 1, 82, 9), (0, 2, 0, 3), (0, 3, 0, 7),
     (1, 0, 48, 9), (1, 1, 48, 9), (1, 2, 42, 9), (1, 3, 0, 7),
     (2, 0, 30, 4), (2, 1, 30, 4), (2, 2, 0, 5), (2, 3, 0, 9),
     (3, 0, 40, 5),
     (13, 0, 24, 5), (14, 0, 40, 5), (11, 0, 0, 4), (17, 0, 0, 3)] ++
    (if thorough then [(12, 0, 0, 1), (15, 0, 0, 1), (16, 0, 0, 1)] else [])
  for (kind, reach, dense, stride) in cfgs do
    let (f, t) := eofDoc kind reach
    for k in List.range (t + 1) do
      if thorough || k ≤ dense || k % stride == 0 then doc (f.take (f.length - k))


def gen (seed n : Nat) (tier : String) (emit : String → IO Unit) : IO Unit := do
  let doc := fun (b : Bytes) => emit s!"doc {hexOfBytes b}"
  -- fixed scenarios
  doc plain
  doc []
  doc (bs "%PDF-1.4\n")
  doc (bs "%PDF-1.4\nstartxref\n0\n%%EOF")
  for p in selfRefPlaces do
    doc (p (obj 9 (bs "9 0 R")))
    doc (p (obj 9 (bs "[9 0 R]")))
    doc (p (obj 9 (bs "<< /Kids 9 0 R /Contents 9 0 R /Type /Pages /Count 1 /Length 9 0 R >>")))
  for d in kidsLoops do doc d
  -- every reference position x every chain shape (self, cycle, lasso, long, dangling, cyclic containers)
  for pos in List.range 18 do
    for tgt in [bs "null", bs "<< /F1 5 0 R >>", bs "[3 0 R]", bs "/WinAnsiEncoding"] do
      for ch in chainShapes tgt do
        doc (chainDoc pos ch)
  for pp in predictorParms do
    let data := zlibStored ([1, 1, 2, 3, 4, 2, 1, 1, 1, 1] ++ textContent)
    doc (baseDoc data (bs "/Filter /FlateDecode /DecodeParms << " ++ bs pp ++ bs " >>") none (bs "[3 0 R]") [] [] [] [])
    doc (baseDoc data (bs "/Filter [/FlateDecode] /DecodeParms [<< " ++ bs pp ++ bs " >>]") none (bs "[3 0 R]") [] [] [] [])
  parmSweep (tier == "thorough") doc
  lieSweep (tier == "thorough") doc
  shapeSweep (tier == "thorough") doc
  eofSweep (tier == "thorough") doc
  doc (baseDoc (zlibStored textContent) (bs "/Filter /FlateDecode") none (bs "[3 0 R]") [] [] [] [])
  doc (baseDoc (bs "<424420> ") (bs "/Filter [/ASCIIHexDecode /ASCII85Decode /FlateDecode]") none (bs "[3 0 R]") [] [] [] [])
  doc (baseDoc (bs "zzzz87cURD]i,\"Ebo80~>") (bs "/Filter /ASCII85Decode") none (bs "[3 0 R]") [] [] [] [])
  doc (baseDoc (bs "uuuuu~>") (bs "/Filter /ASCII85Decode") none (bs "[3 0 R]") [] [] [] [])
  doc (baseDoc (bs "4 8 6 5 6c6C6f>") (bs "/Filter /ASCIIHexDecode") none (bs "[3 0 R]") [] [] [] [])
  for e in extremes do
    doc (baseDoc textContent [] (some (bs e)) (bs "[3 0 R]") [] [] [] [])
    doc (xrefStreamDoc none [] [] (some (bs e)) none false)
    doc (xrefStreamDoc none [] [] none (some (bs e)) false)
    doc (xrefStreamDoc (some (bs s!"[{e} 2 1]")) [] [] none none false)
    doc (xrefStreamDoc (some (bs s!"[1 {e} 1]")) [] [] none none false)
    doc (xrefStreamDoc none (bs s!"/Index [0 {e}]") [] none none false)
    doc (xrefStreamDoc none (bs s!"/Index [{e} 12]") [] none none false)
    doc (xrefStreamDoc none (bs s!"/Prev {e}") [] none none false)
    doc (xrefStreamDoc none (bs s!"/DecodeParms << /Predictor 12 /Columns {e} >>") [] none none true)
    doc (updatedDoc (some (bs e)) none)
    doc (updatedDoc none (some (bs e)))
    doc (assemble hdr [obj 1 (bs "<< /Type /Catalog /Pages 2 0 R >>")] [] (bs "1 0 R") (some (bs e)))
  doc (xrefStreamDoc none [] [] none none false)
  doc (xrefStreamDoc none [] [] none none true)
  doc (xrefStreamDoc (some (bs "[0 0 0]")) [] [] none none false)
  doc (xrefStreamDoc (some (bs "[9 9 9]")) [] [] none none false)
  doc (xrefStreamDoc (some (bs "[1 2]")) [] [] none none false)
  doc (xrefStreamDoc none (bs "/Index [0 1 0 1 0 12]") [] none none false)
  doc (xrefStreamDoc none (bs "/Index [5]") [] none none false)
  doc (updatedDoc none none)
  -- /Prev pointing at its own section / at the object / in a cycle
  let u := updatedDoc none none
  doc (updatedDoc (some (natStr (u.length - 90))) none)
  doc (updatedDoc (some (natStr u.length)) none)
  doc (updatedDoc (some (natStr (u.length * 2))) none)
  for nn in (if tier == "thorough" then [10, 49, 50, 51, 1000, 100000, 1000000] else [10, 49, 50, 51, 1000, 100000]) do
    for dct in [false, true] do
      doc (baseDoc textContent [] none (bs "[3 0 R]") (bs "/X " ++ nested nn dct) [] [] [])
      doc (baseDoc (bs "BT " ++ nested nn dct ++ bs " TJ ET") [] none (bs "[3 0 R]") [] [] [] [])
  -- content streams: compatibility sections with stray delimiters / unknown operators / unbalanced nesting,
  -- operands without operator, text objects left open, inline images, every state of Figure 9
  for c in contentFamily do
    doc (baseDoc (bs c) [] none (bs "[3 0 R]") [] [] [] [])
  for c in contentFamily do
    doc (twoStreamDoc (bs c) (bs c))
    doc (twoStreamDoc (bs "BX") (bs c ++ bs " EX"))
    doc (twoStreamDoc (bs "BT") (bs c))
  for c in splitFamily do
    let toks := c.splitOn " "
    for i in List.range (toks.length + 1) do
      doc (twoStreamDoc (bs (" ".intercalate (toks.take i))) (bs (" ".intercalate (toks.drop i))))
  for nn in [10, 49, 50, 51, 1000, 100000] do
    for dct in [false, true] do
      doc (baseDoc (bs "BX " ++ nested nn dct ++ bs " foo EX") [] none (bs "[3 0 R]") [] [] [] [])
  doc (baseDoc (zlibStored (bs "BX ) EX")) (bs "/Filter /FlateDecode") none (bs "[3 0 R]") [] [] [] [])
  -- several pages: a page skipped because a content stream does not decode or is not a stream, followed by a
  -- page that is fine / has a non-embedded font / has ill-formed content; contents arrays; an inner node
  let good : Bytes × Bytes × Bool × Bool := (textContent, [], false, false)
  let undec : Bytes × Bytes × Bool × Bool := (bs "zz", bs "/Filter /FlateDecode", false, false)
  let unk : Bytes × Bytes × Bool × Bool := (bs "BT ET", bs "/Filter /LZWDecode", false, false)
  let illc : Bytes × Bytes × Bool × Bool := (bs "BT ) ET", [], false, false)
  let nofont : Bytes × Bytes × Bool × Bool := (textContent, [], true, false)
  let arrc : Bytes × Bytes × Bool × Bool := (bs "BT (a) Tj ET", [], false, true)
  let halfarr : Bytes × Bytes × Bool × Bool := (bs "BT (a) Tj", [], false, true)
  for inner in [false, true] do
    for ps in [[good, good], [good, good, good], [undec, good], [undec, illc], [undec, nofont], [good, illc], [good, nofont],
               [unk, unk], [arrc, good], [halfarr, good], [good, arrc, undec, illc], [nofont, illc], [illc, nofont], []] do
      doc (pagesDoc ps inner)
  -- fonts: embedded / not embedded / standard / descriptor variants
  for f in fontFamily do
    doc (assemble hdr
      [obj 1 (bs "<< /Type /Catalog /Pages 2 0 R >>"),
       obj 2 (bs "<< /Type /Pages /Kids [3 0 R] /Count 1 >>"),
       obj 3 (bs "<< /Type /Page /Parent 2 0 R /MediaBox [0 0 612 792] /Contents 4 0 R /Resources << /Font << /F1 5 0 R >> >> >>"),
       streamObj 4 [] (natStr textContent.length) textContent,
       obj 5 (bs f),
       obj 6 (bs "<< /Type /FontDescriptor /FontName /X /Flags 32 >>"),
       streamObj 7 [] (bs "3") (bs "abc")] [] (bs "1 0 R"))
  -- encrypted documents (dump_root skips decoding), roots that are not catalogs
  doc (baseDoc (zlibStored textContent) (bs "/Filter /FlateDecode") none (bs "[3 0 R]") [] [] [] [] (bs "/Encrypt << /Filter /Standard >>"))
  doc (baseDoc (bs "xx") (bs "/Filter /FlateDecode") none (bs "[3 0 R]") [] [] [] [] (bs "/Encrypt 7 0 R"))
  doc (baseDoc textContent [] none (bs "[3 0 R]") [] [] (bs "/PageLabels 42") [])
  doc (baseDoc textContent [] none (bs "[3 0 R]") [] [] (bs "/Names << /Dests (foo) >>") [])
  -- random part: number mutations, truncations, byte edits of generated documents; byte edits of the samples
  let bases : List Bytes := [plain, pagesDoc [(textContent, [], false, false), (bs "zz", bs "/Filter /FlateDecode", false, false),
      (bs "BT (a) Tj ET", [], false, true)] true, xrefStreamDoc none [] [] none none false, xrefStreamDoc none [] [] none none true,
    updatedDoc none none,
    baseDoc (zlibStored ([2, 9, 9, 9, 9] ++ textContent)) (bs "/Filter /FlateDecode /DecodeParms << /Predictor 12 /Columns 4 >>")
      none (bs "[3 0 R]") [] [] [] []]
  let mut r := Rng.mk' seed
  for _ in List.range n do
    let (b, r1) := r.pick bases
    let (kind, r2) := r1.nat 5
    match kind with
    | 0 | 1 =>
      let (k, r3) := r2.nat (countNumbers b)
      let (e, r4) := r3.pick extremes
      r := r4
      doc (replaceNumber b k (bs e))
    | 2 =>
      let (k, r3) := r2.nat (b.length + 1)
      r := r3
      doc (b.take k)
    | 3 =>
      let (k, r3) := r2.nat b.length
      let (x, r4) := r3.byte
      r := r4
      doc (b.take k ++ [x] ++ b.drop (k + 1))
    | _ =>
      -- replace the content stream of the base document by a random walk over content tokens
      let (k, r3) := r2.nat 8
      let (c, r4) := (List.range (k + 1)).foldl (fun (acc : Bytes × Rng) _ =>
        let (t, r) := acc.2.pick contentTokens
        (acc.1 ++ bs t ++ bs " ", r)) (([] : Bytes), r3)
      r := r4
      let (x, r5) := r4.pick contentFamily
      let (y, r6) := r5.pick contentFamily
      let (w, r7) := r6.nat 3
      r := r7
      if w == 0 then doc (baseDoc c [] none (bs "[3 0 R]") [] [] [] [])
      else if w == 1 then doc (baseDoc (bs x ++ bs " " ++ bs y) [] none (bs "[3 0 R]") [] [] [] [])
      else doc (twoStreamDoc (bs x ++ bs " " ++ c) (bs y))
  -- work-amplifying shapes last: a traversal that works per mention makes them time out, and the runner shortens the
  -- time limit of the cases that follow after five timeouts
  ampSweep (tier == "thorough") doc

/-- the end-to-end model (Model/Pipeline.lean) on the bytes of the case -/
def showOutcome : Pipeline.Outcome → String
  | .completed => "completed"
  | .rejected => "rejected"
  | .panic s => "abnormal panic model-site=" ++ s.replace " " "_"

/-- INFORMATIONAL (second word of the model's line, never compared): the stage at which the model's run ended,
    recomputed from the stage functions -/
def stageOf (b : Bytes) : String :=
  match Pipeline.parseDataE b with
  | .reject => "stage=load"
  | .panic _ => "stage=load"
  | .ok l =>
    match ObjStm.defsGet l.root l.defs with
    | none => "stage=root"
    | some rootObj =>
      match Pipeline.dumpRoot l.enc l.defs rootObj with
      | .ok _ =>
        match Pipeline.typeCheck (Pipeline.toGraph l.defs) (Pipeline.toTC rootObj) with
        | .accept =>
          match PageDom.toPageDom l.defs rootObj with
          | .ok (_, dom) =>
            let leaves := dom.pages.filter fun p => match p.2 with | .leaf _ => true | _ => false
            s!"stage=pages:{leaves.length}" ++ (if l.enc then ",encrypted" else "")
          | _ => "stage=dom"
        | _ => "stage=typecheck"
      | _ => "stage=dump"

/-- longest run of consecutive repetitions of `pat` in `s` (one left-to-right pass) -/
def maxRepeat (pat : Bytes) (s : Bytes) : Nat :=
  let p0 := pat.headD 0
  let n := pat.length
  (s.foldl (fun (st : Nat × Nat × Nat) b =>
    let (pos, reps, best) := st
    if pat[pos]? == some b then
      if pos + 1 == n then (0, reps + 1, Nat.max best (reps + 1)) else (pos + 1, reps, best)
    else if b == p0 then (if n == 1 then (0, 1, Nat.max best 1) else (1, 0, best))
    else (0, 0, best)) (0, 0, 0)).2.2

/-- SIZE CAP (labelled closed form, thorough tier only).  The byte-list model pays O(offset) for every token
    it reads, which makes files above ~1.5 MB take longer than the runner's per-case time limit.  The only such
    files the generator emits are the 10^6-deep nesting documents; for a file above the cap that contains a run
    of more than 50 nested array or dictionary openers the driver answers `rejected` without running the model
    (the object parser and the content-stream parser reject nesting beyond max_depth = 50: C16.at_bound_rejects;
    the same documents at 10^5 levels ARE run through the model in both tiers).  Any other file is run through
    the model whatever its size. -/
def sizeCap : Nat := 1500000

def model (line : String) : String :=
  match words line with
  | ["doc", hex] =>
    match bytesOfHex hex with
    | some b =>
      if hex.length > 2 * sizeCap && (maxRepeat [91] b > 50 || maxRepeat (bs "<</K ") b > 50) then
        "rejected closed-form:nesting>50,size>cap"
      else showOutcome (Pipeline.run b) ++ " " ++ stageOf b
    | none => "bad-case"
  | _ => "bad-case"

def judge (_case impl : String) : String :=
  let w := (words impl)
  match w with
  | "completed" :: _ => "ok"
  | "rejected" :: _ => "ok"
  | "abnormal" :: k :: _ => s!"bad {k} {impl}"
  | _ => if impl.startsWith "crash" || impl == "hang" then s!"bad harness-{impl}" else s!"bad malformed {impl}"

/-- non-trivial: a document of at least 64 bytes -/
def nontrivial (line : String) : Bool :=
  match words line with
  | ["doc", hex] => hex.length ≥ 128
  | _ => false

def driver : PropDriver := { gen, model, judge, nontrivial }
end Driver.C01
