import Driver.Common
import Driver.ObjFmt
import Driver.Views
import Parsley.Model.Obj
import Parsley.Spec.Spelling
import Parsley.Spec.SpellingWF
import Parsley.Spec.NumLit
import Parsley.Spec.DecLit
import Parsley.Spec.NameLit
namespace Driver.C02
open Parsley Parsley.Prim Parsley.Obj Parsley.Spelling Driver

/-- cases:
    `sp <d> <hex> <len> <lead> <expected sexp…>`  a spelling (+context) of a value: must parse to it
    `dup <d> <hex>`                                a dictionary repeating a non-null key: must be rejected
    `mut <d> <hex>`                                a mutated spelling: correspondence only
    `genbad <d> <hex>`                             the generator left the domain `wfDeep` of the encoder theorem
                                                   (Props/C02Encoder.lean): always judged `bad`
    `lit <d> <hex> <len> <lead> <expected sexp…>`  a text around a point-free number token of any size (outside the
                                                   encoder's domain); expected value by Spec/NumLit.lean; judged like `sp`
    `nolit <d> <hex>`                              such a text that is not an object (token beyond the i128 range, or a
                                                   reference whose number / generation is not an integer): must be rejected
    (`lit` / `nolit` also carry the tokens WITH a decimal point, expected value by Spec/DecLit.lean)
    `pad <d> <hex> <len> <lead> <expected sexp…>`  a text whose integer positions (integers, integer parts of reals, object
                                                   number and generation of references) carry up to 45 leading zeros, or a
                                                   reference whose numbers sit at a digit-count / integer-type boundary;
                                                   expected value by `refDenote` / Spec/NumLit.lean / Spec/DecLit.lean;
                                                   judged like `sp` (texts of the family that are not an object: `nolit`)
    `hash <d> <hex> <len> <lead> <expected sexp…>` a text around a name token that carries raw `#` bytes (a `#` NOT followed by two
                                                   hexadecimal digits: a literal byte for Parsley) next to real `#xx` codes, bare /
                                                   as dictionary key / as value / in arrays; expected name by Spec/NameLit.lean
                                                   (`nameDenote`); judged like `sp` (two spellings of one name as keys of one
                                                   dictionary: `dup`)
    `nohash <d> <hex>`                             such a text whose name token contains the code `#00`: must be rejected
    `sgn <d> <hex> <len> <lead> <expected sexp…>`  a text around a reference whose object number and / or generation carry an
                                                   explicit sign (`+7 0 R`, `7 +0 R`, `+007 +00 R`, `7 -0 R`), bare / in arrays /
                                                   in dictionaries, or a near miss of one at the top level (`7 + R`: the Integer 7);
                                                   expected value by the judge's own reading (`sgnShape` / `sgnMember`)
    `nosgn <d> <hex> <len> <lead>`                 such a text that is not an object (`-` before a non-zero number of a reference;
                                                   a near miss inside an array / dictionary): must be rejected
    `cut <d> <hex> <r>`                            a strict prefix of a legal spelling (the rest lies behind the window of a
                                                   view case): whatever is accepted lies inside the buffer; with r = 1 (a
                                                   string, array or dictionary cut before its closing delimiter) it must be
                                                   rejected
    view variant `vw <steps> <prehex> <sufhex> <any case above>`: the same case with `<hex>` as a window of the larger
    allocation `<prehex> ++ <hex> ++ <sufhex>`, selected by a chain of RestrictView / RestrictViewFrom steps
    (Driver/Views.lean).  The unchanged code reports start, end and cursor as cursors of the view it was given, so
    the expected output is that of the plain case; model and oracle see the window's bytes alone
    (justification: Parsley.C17.view_refines_copy).  Classes of rejected view cases are prefixed `view-`. -/
def modelPlain (line : String) : String :=
  match words line with
  | _ :: d :: hex :: _ =>
    match d.toNat?, bytesOfHex hex with
    | some d, some s =>
      match (parseObj ⟨0, d⟩ s 0).1 with
      | (.ok v, c) => s!"ok {v.start} {v.stop} {c} {objSexp v.val}"
      | (.err k, _) => s!"err {k}"
      | (.panic p, _) => s!"panic {p}"
    | _, _ => "bad-case"
  | _ => "bad-case"

/-- the window of a case: its third word -/
def winOf : List String → Option Bytes
  | _ :: _ :: hex :: _ => bytesOfHex hex
  | _ => none

def model (line : String) : String := Views.model winOf modelPlain line

/-! ### raw `#` in names

  In a name token `#` followed by two hexadecimal digits is a code for one byte; ANY OTHER `#` is the literal byte `#`
  (Spec/NameLit.lean; the encoder `spell` always writes that byte as `#23`, so its spellings never contain one).  The
  family below writes name tokens that mix real codes with raw `#` at every position where it cannot start a code -
  last byte, second-to-last byte before a hex digit or another byte, before one hex digit and one non-hex byte, `##`,
  directly before each delimiter - by enumerating ALL symbol sequences of length 1..6 over {A, #, 4, 1, G, `#41`}
  (`4`, `1` hex digits, `G` not; `#41` a code; `#`,`4`,`1` also meet by juxtaposition), and over {A, #, 0, `#00`, `#41`}
  for the null code.  The expected name comes from `NameLit.nameDenote` alone.  Every token is placed bare before every
  following context (the generator's 15 + the remaining delimiters), as dictionary key, dictionary value, array element,
  next to a second spelling of the same name (all bytes as codes / all bytes raw): in an array both are that name, as two
  keys of one dictionary the text must be rejected.

  The texts of the family around one token are a pure function of the token (`hashTexts`); the judge RECOGNISES the
  text of a `hash` / `nohash` case as a member of the family and takes the expectation from there (a case line whose
  text is not a member - e.g. a candidate of the shrinker - is never counted against the implementation). -/

def hashLeads : List Bytes := [[], [32], bs "%c\n ", [13, 10]]

/-- byte strings in dictionary (lexicographic, unsigned) order -/
def lexLt : Bytes → Bytes → Bool
  | [], [] => false
  | [], _ :: _ => true
  | _ :: _, [] => false
  | x :: s, y :: t => x < y || (x == y && lexLt s t)

/-- every text of the family around the name token `tok` (the bytes after `/`) with what it denotes (`none`: it is not
    an object and must be rejected - a `#00` code in a name, or one name twice as key of a dictionary); the first
    text is the bare token -/
def hashTexts (tok : Bytes) : List (Bytes × Option Obj) :=
  let nm : Bytes := 47 :: tok
  let den := NameLit.nameDenote tok
  let b := den.getD []
  let vname : Obj := .name b
  let forms : List (Bytes × Obj) :=
    [(nm, vname),
     -- array element
     (bs "[" ++ nm ++ bs "]", .arr [vname]),
     (bs "[1 " ++ nm ++ bs "(s)]", .arr [.int 1, vname, .str (bs "s")]),
     (bs "[" ++ nm ++ nm ++ bs " 1]", .arr [vname, vname, .int 1]),
     -- dictionary key
     (bs "<<" ++ nm ++ bs " 1>>", .dict [(b, .int 1)]),
     (bs "<<" ++ nm ++ bs "(v)>>", .dict [(b, .str (bs "v"))]),
     (bs "<<" ++ nm ++ bs "[" ++ nm ++ bs "]>>", .dict [(b, .arr [vname])]),
     (bs "<<" ++ nm ++ bs " 1/Zz 2>>", .dict (if lexLt b (bs "Zz") then [(b, .int 1), (bs "Zz", .int 2)] else [(bs "Zz", .int 2), (b, .int 1)])),
     -- dictionary value; key and value
     (bs "<</K" ++ nm ++ bs ">>", .dict [(bs "K", vname)]),
     (bs "<<" ++ nm ++ nm ++ bs "\n>>", .dict [(b, vname)]),
     (bs "[<<" ++ nm ++ bs " 7 0 R>>" ++ nm ++ bs "]", .arr [.dict [(b, .ref 7 0)], vname])]
  match den with
  | none => forms.map fun f => (f.1, none)
  | some _ =>
    -- a second spelling of the same name: every byte as a code; every byte raw (when that denotes the name)
    let alts : List Bytes := ([NameLit.allCodes b] ++
      (if b.all isRegularByte && NameLit.nameDenote b == some b then [b] else [])).filter (· != tok)
    (forms.map fun f => (f.1, if f.1 == bs "<<" ++ nm ++ bs " 1/Zz 2>>" && b == bs "Zz" then none else some f.2)) ++
    alts.flatMap fun alt =>
      let am : Bytes := 47 :: alt
      [(bs "[" ++ nm ++ am ++ bs "]", some (.arr [vname, vname])),
       (bs "<<" ++ nm ++ bs " 1" ++ am ++ bs " 2>>", none),
       (bs "<<" ++ am ++ bs "(x)" ++ nm ++ bs "[]>>", none),
       (bs "[<</K 1" ++ nm ++ bs " 1 /L 2 " ++ am ++ bs " 2>>]", none)]

/-- the name tokens of a text without strings and comments: after each `/` the run of regular characters -/
def nameToks : Bytes → List Bytes
  | [] => []
  | b :: t => (if b == 47 then [t.takeWhile isRegularByte] else []) ++ nameToks t

/-- is `buf` = lead ++ text ++ rest (lead `lead` bytes, text up to `len`) a case of the family - a lead of the
    generator, a text of `hashTexts` of one of its own name tokens, and (after a bare token) no regular character
    behind it?  Then: what the text denotes. -/
def hashMember (buf : Bytes) (len lead : Nat) : Option (Option Obj) :=
  if len > buf.length || lead > len || !(hashLeads.contains (buf.take lead)) then none
  else
    let sp := (buf.take len).drop lead
    let restOK := match (buf.drop len).head? with | none => true | some y => !isRegularByte y
    (nameToks sp).findSome? fun tok =>
      (hashTexts tok).findSome? fun te =>
        if te.1 == sp && (te.1 != 47 :: tok || restOK) then some te.2 else none

def judgeHash (tag hex len lead : String) (sexp : List String) (impl : String) : String :=
  match bytesOfHex hex, len.toNat?, lead.toNat? with
  | some buf, some l, some ld =>
    match hashMember buf l ld with
    | none => "bad generator-outside-family the text is not one of the raw-# family"
    | some (some v) =>
      let want := s!"ok {ld} {l} {l} {objSexp v}"
      if tag != "hash" || " ".intercalate sexp != objSexp v then "bad generator-outside-family expectation differs from the family's"
      else if impl.trimAscii.toString == want then "ok"
      else if impl.startsWith "ok" then s!"bad wrong-value-or-cursor want={want}"
      else if impl.startsWith "err" then s!"bad legal-spelling-rejected want={want}"
      else "bad panic-or-crash"
    | some none =>
      if tag != "nohash" then "bad generator-outside-family expectation differs from the family's"
      else if impl.startsWith "err" then "ok"
      else if impl.startsWith "ok" then
        (if (nameToks ((buf.take l).drop ld)).any (fun t => NameLit.nameDenote t == none) then "bad null-code-in-name-accepted"
         else "bad duplicate-key-accepted two spellings of one name")
      else "bad panic-or-crash"
  | _, _, _ => "bad-case"

/-! ### signed components of a reference

  The two numbers of a reference are integers of the lexical rules: each may carry an explicit `+` (and leading
  zeros behind it), and `-0` is the integer 0: `+7 0 R`, `7 +0 R`, `+007 +00 R`, `7 -0 R` all denote the reference
  (7, 0).  A `-` before a non-zero number makes the text no object at all (an object number / generation is never
  negative; and by `Follows` of Props/C02Struct.lean - whose `RefTail` carries the optional sign of the generation - an
  Integer is never followed by `ws+ integer ws+ R`).  The reading below is the judge's own (spec side; it shares
  nothing with the model): optional sign, digits, a non-empty whitespace / comment run, optional sign, digits, a
  non-empty run, `R`, then the end of the text or a non-regular byte.  Near misses - a sign without digits, a sign
  before `R`, two signs, `R` glued to the number or to a regular character - are no references: at the top level the
  first number is an Integer of its own and the cursor stays behind it; inside an array / dictionary the text is not
  an object (a lone sign and a lone `R` are none).  The judge recognises the text of a `sgn` / `nosgn` case as a
  member of the family and derives the expectation itself (a shrunk candidate outside the family is never counted
  against the implementation). -/

def sgnLeads : List Bytes := [[], [32], bs "%c\n ", [13, 10]]

def sgnWsByte (b : UInt8) : Bool := b == 0 || b == 9 || b == 10 || b == 12 || b == 13 || b == 32
def sgnDigit (b : UInt8) : Bool := 48 ≤ b && b ≤ 57

mutual
/-- drop a (possibly empty) run of whitespace and comments (a comment ends with LF) -/
def sgnDropWs : Bytes → Bytes
  | [] => []
  | b :: t => if sgnWsByte b then sgnDropWs t else if b == 37 then sgnDropCom t else b :: t
def sgnDropCom : Bytes → Bytes
  | [] => []
  | b :: t => if b == 10 then sgnDropWs t else sgnDropCom t
end

/-- optional sign and digit run: (a `-` is written, the digits, the rest) -/
def sgnReadInt (s : Bytes) : Bool × Bytes × Bytes :=
  let (neg, t) : Bool × Bytes := match s with
    | 45 :: t => (true, t)
    | 43 :: t => (false, t)
    | _ => (false, s)
  (neg, t.takeWhile sgnDigit, t.dropWhile sgnDigit)

structure SgnShape where
  neg1 : Bool
  ds1 : Bytes
  neg2 : Bool
  ds2 : Bytes
  len : Nat

/-- does `s` begin with `[sign] digits ws+ [sign] digits ws+ R` (both magnitudes at most i64::MAX) before the end of the
    text or a non-regular byte?  `len`: the bytes up to and including `R`. -/
def sgnShape (s : Bytes) : Option SgnShape :=
  let (n1, d1, r1) := sgnReadInt s
  let r2 := sgnDropWs r1
  let (n2, d2, r3) := sgnReadInt r2
  let r4 := sgnDropWs r3
  if d1.isEmpty || d2.isEmpty || r2.length == r1.length || r4.length == r3.length then none
  else if !(NumLit.headerOK (DecLit.decVal d1)) || !(NumLit.headerOK (DecLit.decVal d2)) then none
  else match r4 with
    | 82 :: tail =>
      if (match tail.head? with | none => true | some y => !isRegularByte y) then some ⟨n1, d1, n2, d2, s.length - tail.length⟩
      else none
    | _ => none

/-- **what a text of that shape denotes**: the reference (value, value); with a `-` before a non-zero number: no object -/
def sgnDenote (sh : SgnShape) : Option Obj :=
  let v1 := DecLit.decVal sh.ds1
  let v2 := DecLit.decVal sh.ds2
  if (sh.neg1 && v1 != 0) || (sh.neg2 && v2 != 0) then none else some (.ref v1 v2)

/-- the near misses after a first number `t1` (generation digits `g`): none is a reference, each contains a lone
    sign, a lone `R`/`r`, or `R` glued to a regular character -/
def sgnNear (t1 g : Bytes) : List Bytes :=
  ([bs " + R", bs " +R", bs " + " ++ g ++ bs " R", bs " " ++ g ++ bs " +R", bs " +" ++ g ++ bs "R x", bs " +" ++ g ++ bs " Rx",
    bs " +-" ++ g ++ bs " R", bs " ++" ++ g ++ bs " R", bs " -+" ++ g ++ bs " R", bs " +" ++ g ++ bs " +R",
    bs "\n+\n" ++ g ++ bs " R", bs " +" ++ g ++ bs " r", bs " - " ++ g ++ bs " R", bs " +" ++ g ++ bs " R+"] : List Bytes).map (t1 ++ ·)

def sgnRuns : Bytes → List Bytes
  | [] => []
  | b :: t => (if sgnDigit b then [(b :: t).takeWhile sgnDigit] else []) ++ sgnRuns t

def sgnIsNear (core : Bytes) : Bool :=
  let (_, d1, r1) := sgnReadInt core
  let t1 := core.take (core.length - r1.length)
  !d1.isEmpty && (sgnRuns r1 ++ [bs "0"]).any fun g => (sgnNear t1 g).contains core

/-- the positions of a reference inside arrays and dictionaries: text before, text behind, the value around it -/
def sgnWraps : List (Bytes × Bytes × (Obj → Obj)) :=
  [(bs "[", bs "]", fun v => .arr [v]),
   (bs "[1 ", bs "/X]", fun v => .arr [.int 1, v, .name (bs "X")]),
   (bs "[7 0 R ", bs "\n]", fun v => .arr [.ref 7 0, v]),
   (bs "[", bs " 7 0 R]", fun v => .arr [v, .ref 7 0]),
   (bs "[(a)", bs " 5]", fun v => .arr [.str (bs "a"), v, .int 5]),
   (bs "<</A ", bs ">>", fun v => .dict [(bs "A", v)]),
   (bs "<</A ", bs "/B 1>>", fun v => .dict [(bs "A", v), (bs "B", .int 1)]),
   (bs "<</A[", bs " ]>>", fun v => .dict [(bs "A", .arr [v])]),
   (bs "[<</K ", bs " >>(s)]", fun v => .arr [.dict [(bs "K", v)], .str (bs "s")])]

/-- is `buf` = lead ++ text ++ rest a case of the family?  Then: what the text denotes (`none`: not an object).
    Bare: the text is a signed reference that ends where the text ends, or a signed integer (at most i64::MAX) before
    a non-regular byte that is not the beginning of such a reference.  Inside an array / dictionary: one of `sgnWraps`
    around a signed reference or around a near miss of `sgnNear`. -/
def sgnMember (buf : Bytes) (len lead : Nat) : Option (Option Obj) :=
  if len > buf.length || lead > len || !(sgnLeads.contains (buf.take lead)) then none
  else
    let sp := (buf.take len).drop lead
    let rest := buf.drop len
    let restOK := match rest.head? with | none => true | some y => !isRegularByte y
    match sgnShape (sp ++ rest) with
    | some sh => if sh.len == sp.length then some (sgnDenote sh) else none
    | none =>
      let (n1, d1, r1) := sgnReadInt sp
      let v1 := DecLit.decVal d1
      if !d1.isEmpty && r1.isEmpty && NumLit.headerOK v1 && restOK then
        some (some (.int (if n1 then -(v1 : Int) else (v1 : Int))))
      else sgnWraps.findSome? fun (pre, suf, f) =>
        if pre.isPrefixOf sp && suf.isSuffixOf sp && pre.length + suf.length ≤ sp.length then
          let core := (sp.drop pre.length).take (sp.length - pre.length - suf.length)
          match sgnShape (core ++ suf) with
          | some sh => if sh.len == core.length then some ((sgnDenote sh).map f) else none
          | none => if sgnIsNear core then some none else none
        else none

def judgeSgn (tag hex len lead : String) (sexp : List String) (impl : String) : String :=
  match bytesOfHex hex, len.toNat?, lead.toNat? with
  | some buf, some l, some ld =>
    match sgnMember buf l ld with
    | none => "bad generator-outside-family the text is not one of the signed-reference family"
    | some (some v) =>
      let want := s!"ok {ld} {l} {l} {objSexp v}"
      if tag != "sgn" || " ".intercalate sexp != objSexp v then "bad generator-outside-family expectation differs from the family's"
      else if impl.trimAscii.toString == want then "ok"
      else if impl.startsWith "ok" then s!"bad wrong-value-or-cursor want={want}"
      else if impl.startsWith "err" then s!"bad legal-spelling-rejected want={want}"
      else "bad panic-or-crash"
    | some none =>
      if tag != "nosgn" then "bad generator-outside-family expectation differs from the family's"
      else if impl.startsWith "err" then "ok"
      else if impl.startsWith "ok" then "bad non-reference-accepted a negative number in a reference, or a lone sign / lone R inside an array or dictionary"
      else "bad panic-or-crash"
  | _, _, _ => "bad-case"

def judgePlain (case impl : String) : String :=
  match words case with
  | "sgn" :: _ :: hex :: len :: lead :: sexp => judgeSgn "sgn" hex len lead sexp impl
  | "nosgn" :: _ :: hex :: len :: lead :: _ => judgeSgn "nosgn" hex len lead [] impl
  | "sp" :: _ :: _ :: len :: lead :: sexp | "lit" :: _ :: _ :: len :: lead :: sexp
  | "pad" :: _ :: _ :: len :: lead :: sexp =>
    let want := s!"ok {lead} {len} {len} " ++ " ".intercalate sexp
    if impl.trimAscii.toString == want then "ok"
    else if impl.startsWith "ok" then s!"bad wrong-value-or-cursor want={want}"
    else if impl.startsWith "err" then s!"bad legal-spelling-rejected want={want}"
    else "bad panic-or-crash"
  | "dup" :: _ =>
    if impl.startsWith "err" then "ok" else if impl.startsWith "ok" then "bad duplicate-key-accepted" else "bad panic-or-crash"
  | "genbad" :: _ => "bad generator-outside-domain"
  | "nolit" :: _ =>
    if impl.startsWith "err" then "ok" else if impl.startsWith "ok" then "bad non-object-accepted" else "bad panic-or-crash"
  | "hash" :: _ :: hex :: len :: lead :: sexp => judgeHash "hash" hex len lead sexp impl
  | "nohash" :: _ :: hex :: len :: lead :: _ => judgeHash "nohash" hex len lead [] impl
  | "mut" :: _ =>
    if impl.startsWith "panic" || impl.startsWith "crash" then "bad panic-or-crash"
    else if impl.startsWith "ok" && sexpHasNullEntry impl then
      "bad dict-with-null-value"
    else "ok"
  | "cut" :: _ :: hex :: r :: _ =>
    let n := ((bytesOfHex hex).getD []).length
    match words impl with
    | "ok" :: a :: b :: c :: _ =>
      if r == "1" then "bad cut-accepted an array, dictionary or string without its closing delimiter"
      else match a.toNat?, b.toNat?, c.toNat? with
        | some a, some b, some c => if a ≤ b && b ≤ n && c ≤ n then "ok" else s!"bad beyond-window span {a}..{b} cursor {c} in a buffer of {n} bytes"
        | _, _, _ => "bad panic-or-crash"
    | "err" :: _ => "ok"
    | _ => "bad panic-or-crash"
  | _ => "skip"

def judge (case impl : String) : String := Views.judge winOf judgePlain case impl

/-! ### random values -/

def rndBytes (r : Rng) (maxLen : Nat) (nonNull : Bool) : Bytes × Rng :=
  let (n, r) := r.nat (maxLen + 1)
  let interesting : List UInt8 := [32, 35, 37, 40, 41, 47, 60, 62, 91, 93, 92, 10, 13, 65, 97, 48, 57, 0x80, 0xFF, 1, 123, 125]
  (List.range n).foldl (fun (acc : Bytes × Rng) _ =>
    let (c, r) := acc.2.nat 3
    let (b, r) := if c == 0 then r.byte else r.pick interesting
    let b := if nonNull && b == 0 then 1 else b
    (b :: acc.1, r)) ([], r)

/-- a legal literal-string body from the grammar: plain byte | '\' any | '(' body ')' -/
def litBody : Nat → Rng → Bytes × Rng
  | 0, r => ([], r)
  | f + 1, r =>
    let (n, r) := r.nat 4
    (List.range n).foldl (fun (acc : Bytes × Rng) _ =>
      let (c, r) := acc.2.nat 6
      if c == 0 then
        let (b, r) := r.pick ([40, 41, 92, 110, 48] : List UInt8); (acc.1 ++ [92, b], r)
      else if c == 1 then
        let (inner, r) := litBody f r; (acc.1 ++ [40] ++ inner ++ [41], r)
      else
        let (b, r) := r.pick ([97, 32, 10, 13, 0, 37, 60, 62, 0xFE, 47] : List UInt8); (acc.1 ++ [b], r)) ([], r)

def intPool : List Int :=
  [0, 1, -1, 7, 42, -17, 255, 65536, 2147483647, -2147483648, 9223372036854775807, -9223372036854775807, 100, 10]

def dedupKeys : List (Bytes × Obj) → List (Bytes × Obj)
  | [] => []
  | (k, v) :: t => if t.any (·.1 == k) then dedupKeys t else (k, v) :: dedupKeys t

def sortKvs (kvs : List (Bytes × Obj)) : List (Bytes × Obj) :=
  kvs.foldl (fun m kv => dictInsert kv.1 kv.2 m) []

/-- random value of nesting depth ≤ `f` -/
def rndObj : Nat → Rng → Obj × Rng
  | 0, r => (.null, r)
  | f + 1, r =>
    let (c, r) := r.nat (if f == 0 then 8 else 12)
    match c with
    | 0 => (.null, r)
    | 1 => let (b, r) := r.nat 2; (.bool (b == 1), r)
    | 2 => let (n, r) := r.pick intPool; (.int n, r)
    | 3 =>
      let (n, r) := r.nat 100000
      let (sg, r) := r.nat 2
      let (k, r) := r.nat 4
      (.real (if sg == 1 then -(n : Int) else n) (10 ^ (k + 1)), r)
    | 4 => let (b, r) := rndBytes r 6 true; (.name b, r)
    | 5 => let (b, r) := rndBytes r 8 false; (.str b, r)
    | 6 => let (b, r) := litBody 3 r; (.str b, r)
    | 7 => let (n, r) := r.nat 1000; let (g, r) := r.nat 3; (.ref n g, r)
    | 8 | 9 =>
      let (n, r) := r.nat 5
      let (xs, r) := (List.range n).foldl (fun (acc : List Obj × Rng) _ =>
        let (x, r) := rndObj f acc.2; (x :: acc.1, r)) ([], r)
      (.arr xs, r)
    | _ =>
      let (n, r) := r.nat 4
      let (kvs, r) := (List.range n).foldl (fun (acc : List (Bytes × Obj) × Rng) _ =>
        let (k, r) := rndBytes acc.2 4 true
        let (v, r) := rndObj f r
        match v with
        | .null => (acc.1, r)
        | _ => ((k, v) :: acc.1, r)) ([], r)
      (.dict (sortKvs (dedupKeys kvs)), r)

/-- shuffle dictionary entries at every level (spelling order is free) -/
def shuffle {α : Type} (l : List α) (r : Rng) : List α × Rng :=
  l.foldl (fun (acc : List α × Rng) x =>
    let (i, r) := acc.2.nat (acc.1.length + 1)
    (acc.1.take i ++ [x] ++ acc.1.drop i, r)) ([], r)

mutual
def shuffleObj : Obj → Rng → Obj × Rng
  | .arr xs, r => let (ys, r) := shuffleList xs r; (.arr ys, r)
  | .dict kvs, r =>
    let (k2, r) := shuffleKvs kvs r
    let (k3, r) := shuffle k2 r
    (.dict k3, r)
  | v, r => (v, r)
def shuffleList : List Obj → Rng → List Obj × Rng
  | [], r => ([], r)
  | x :: t, r => let (y, r) := shuffleObj x r; let (u, r) := shuffleList t r; (y :: u, r)
def shuffleKvs : List (Bytes × Obj) → Rng → List (Bytes × Obj) × Rng
  | [], r => ([], r)
  | (k, v) :: t, r => let (y, r) := shuffleObj v r; let (u, r) := shuffleKvs t r; ((k, y) :: u, r)
end

/-- the following contexts: `genContexts` of Spec/SpellingWF.lean (each proved to satisfy `Follows`:
    `genContexts_follow`) -/
def contexts : List Bytes := genContexts

def rndChoices (r : Rng) (n : Nat) : Ch × Rng :=
  (List.range n).foldl (fun (acc : Ch × Rng) _ => let (x, r) := acc.2.nat 1000; (x :: acc.1, r)) ([], r)

def isInt : Obj → Bool | .int _ => true | _ => false

/-- is the (shuffled) value handed to the encoder inside the domain of `spell_parse_encoder_canon`
    (`wfDeep`), does it denote the expected value (`canon sv = v`, compared as s-expressions), is the
    expected value in sorted form, and does the depth bound of the case leave room for it? -/
def inDomain (v sv : Obj) (d : Nat) : Bool :=
  wfDeep sv && sortedDeep v && objSexp (canon sv) == objSexp v && depth sv ≤ d

/-- executed check over the generator: the first `n` values of seed `seed` are in the domain -/
def genDomainOK (seed n : Nat) : Bool :=
  ((List.range n).foldl (fun (acc : Bool × Rng) _ =>
    let (v, r1) := rndObj 4 acc.2
    let (sv, r2) := shuffleObj v r1
    (acc.1 && inDomain v sv (depth v), r2)) (true, Rng.mk' seed)).1

/-! ### number tokens of any size

  A point-free number token denotes an Integer only inside the i64 range; outside it is the real
  value/1, beyond the i128 range it is not an object (`NumLit.denote`).  The literals are chosen
  around the boundaries of the integer types and so that a narrowing implementation (modulo 2^64,
  2^32, 2^128) would read a small number: k * 2^64 + t, -(k * 2^64 - t). -/

/-- (negative?, magnitude) -/
def wideLits : List (Bool × Nat) :=
  (([1, 2, 3, 2 ^ 31, 2 ^ 62, 2 ^ 63 - 1] : List Nat).flatMap fun k =>
    ([0, 1, -1, 5, 42, -17] : List Int).flatMap fun t => [false, true].map fun neg => NumLit.wideLit neg k t) ++
  (([2 ^ 31, 2 ^ 32 + 5, 2 ^ 63 - 1, 2 ^ 63, 2 ^ 63 + 1, 2 ^ 63 + 5, 2 ^ 64 - 1, 2 ^ 64, 10 ^ 19, 10 ^ 30, 2 ^ 126 + 5, 2 ^ 127 - 1,
     2 ^ 127, 2 ^ 127 + 5, 2 ^ 128 + 5, 2 ^ 128 - 5, 10 ^ 39] : List Nat).flatMap fun m => [(false, m), (true, m)])

def numLits (emit : String → IO Unit) (full : Bool) : IO Unit := do
  let mut k := 0
  for (neg, mag) in wideLits do
    k := k + 1
    let sign : Bytes := if neg then [45] else if k % 3 == 1 then [43] else []
    let tok := sign ++ zeros (k % 4 / 2 * (k % 5 / 2)) ++ natDigits mag
    let lead : Bytes := [[], [32], bs "%c\n ", [13, 10]][k % 4]?.getD []
    let v := NumLit.denote neg mag
    let wide := !NumLit.isInt neg mag
    -- `text` is what must be consumed (the value's spelling), `ctx` what follows it
    let caseOf (text ctx : Bytes) (e : Option Obj) : String :=
      match e with
      | some e => s!"lit 5 {hexOfBytes (lead ++ text ++ ctx)} {lead.length + text.length} {lead.length} {objSexp e}"
      | none => s!"nolit 5 {hexOfBytes (lead ++ text ++ ctx)}"
    -- bare, before the following contexts of the generator (` 2 R` after an Integer would make a reference:
    -- ` 2 RG` there; after a token that is not an Integer it stays: the token is a value of its own)
    let ctxs := if full then contexts else (List.range 4).map fun i => contexts[(k + 4 * i) % contexts.length]?.getD []
    for ctx in ctxs ++ [bs " 2 R", bs " 0 R"] do
      let ctx := genContextFor (!wide) (if !wide && ctx == bs " 0 R" then bs " 0 RG" else ctx)
      emit (caseOf tok ctx v)
    -- array element and dictionary value
    let after := contexts[k % contexts.length]?.getD []
    emit (caseOf (bs "[1 " ++ tok ++ bs "/X]") after (v.map fun v => .arr [.int 1, v, .name (bs "X")]))
    emit (caseOf (bs "[" ++ tok ++ bs "]") after (v.map fun v => .arr [v]))
    emit (caseOf (bs "<</A " ++ tok ++ bs "/B 1>>") after (v.map fun v => .dict [(bs "A", v), (bs "B", .int 1)]))
    emit (caseOf (bs "<</A[" ++ tok ++ bs " ]>>") after (v.map fun v => .dict [(bs "A", .arr [v])]))
    if wide then
      -- object number of a reference: `<tok> 0 R` is not a reference; inside an array `R` is then not an object
      emit (caseOf (bs "[" ++ tok ++ bs " 0 R]") [] none)
      emit (caseOf (bs "<</A " ++ tok ++ bs " 0 R>>") [] none)
      -- generation: `5 <tok> R` is the Integer 5 followed by something else
      emit (caseOf (bs "5") (bs " " ++ tok ++ bs " R") (some (.int 5)))
      emit (caseOf (bs "[5 " ++ tok ++ bs " R]") [] none)

/-! ### number tokens with a decimal point, of any size

  `[sign] ds . fs` is the Real (all digits, 10^|fs|) while both fit an i128, with no fraction digit what
  the point-free token is, and otherwise not an object (`DecLit.denote`, Spec/DecLit.lean; the parser
  side is `decimal_token_denotes`, Props/C02Dec.lean).  The tokens are built from the limit: digit
  strings around 2^127-1 (last digit decides, one digit more, one less) split into integer and fraction
  part at the ends and in the middle - so that the overflow falls into the fraction loop -, and fractions
  of 36..40 digits after a small numerator (10^38 is the last denominator that fits). -/

/-- (integer digits, fraction digits) -/
def decToks (full : Bool) : List (Bytes × Bytes) :=
  let L : Nat := 2 ^ 127 - 1
  let q := L / 10
  let mags : List Nat := [L - 1, L, L + 1, q * 10, q * 10 + 8, q * 10 + 9, (q + 1) * 10, (q + 1) * 10 + 5, L * 10, L * 10 + 7,
    q, q + 1, q - 1, 10 ^ 37, 10 ^ 38, 10 ^ 39, 2 ^ 128 + 5, 2 ^ 63 - 1, 2 ^ 63, 2 ^ 64 + 5]
  (mags.flatMap fun m =>
    let t := natDigits m
    let n := t.length
    let ps := if full then List.range (n + 1) else ([0, 1, n / 2, n - 2, n - 1, n].filter (· ≤ n)).eraseDups
    ps.map fun p => (t.take p, t.drop p)) ++
  (([[], bs "0", bs "7", bs "17"] : List Bytes).flatMap fun ds =>
    ([1, 18, 36, 37, 38, 39, 40] : List Nat).flatMap fun z =>
      ([[], bs "1", bs "99"] : List Bytes).map fun tail => (ds, zeros z ++ tail)) ++
  [(bs "12", []), ([], bs "5"), (bs "0", bs "0"), (bs "007", bs "50"), (bs "3", bs "14159")]

def decLits (emit : String → IO Unit) (full : Bool) : IO Unit := do
  let mut k := 0
  for (ds0, fs) in decToks full do
    k := k + 1
    if ds0.isEmpty && fs.isEmpty then continue
    let neg := k % 3 == 0
    let sign : Bytes := if neg then [45] else if k % 3 == 1 then [43] else []
    let ds := zeros (k % 4 / 2 * (k % 5 / 2)) ++ ds0
    let tok := sign ++ ds ++ [46] ++ fs
    let lead : Bytes := [[], [32], bs "%c\n ", [13, 10]][k % 4]?.getD []
    let v := DecLit.denote neg ds fs
    let isI := DecLit.isInt neg ds fs
    let caseOf (text ctx : Bytes) (e : Option Obj) : String :=
      match e with
      | some e => s!"lit 5 {hexOfBytes (lead ++ text ++ ctx)} {lead.length + text.length} {lead.length} {objSexp e}"
      | none => s!"nolit 5 {hexOfBytes (lead ++ text ++ ctx)}"
    let ctxs := if full then contexts else (List.range 4).map fun i => contexts[(k + 4 * i) % contexts.length]?.getD []
    for ctx in ctxs do
      emit (caseOf tok (genContextFor isI ctx) v)
    let after := contexts[k % contexts.length]?.getD []
    emit (caseOf (bs "[1 " ++ tok ++ bs "/X]") after (v.map fun v => .arr [.int 1, v, .name (bs "X")]))
    emit (caseOf (bs "[" ++ tok ++ bs "]") after (v.map fun v => .arr [v]))
    emit (caseOf (bs "[" ++ tok ++ bs " " ++ tok ++ bs "]") after (v.map fun v => .arr [v, v]))
    emit (caseOf (bs "<</A " ++ tok ++ bs "/B 1>>") after (v.map fun v => .dict [(bs "A", v), (bs "B", .int 1)]))
    emit (caseOf (bs "<</A[" ++ tok ++ bs " ]>>") after (v.map fun v => .dict [(bs "A", .arr [v])]))
    if !isI then
      -- not an integer: never the object number / generation of a reference
      emit (caseOf (bs "[" ++ tok ++ bs " 0 R]") [] none)
      emit (caseOf (bs "5") (bs " " ++ tok ++ bs " R") (some (.int 5)))

/-! ### zero padding of every integer position, digit-count boundaries of reference numbers

  Leading zeros never change what a digit string denotes (`Spells.int` / `.real` / `.ref`, Props/C02Struct.lean: ANY
  non-empty digit string whose VALUE fits; Spec/NumLit.lean, Spec/DecLit.lean: "leading zeros do not matter"), however
  many there are: a token of 20, 39 or 60 digits is still the number 12.  The families below put 0..45 leading zeros
  (so that the digit count crosses 19/20 - the decimal length of i64::MAX - and 38/39 - that of i128::MAX - whatever
  the value's own length) in front of EVERY integer position of every construct: the object number, the generation,
  and both numbers of a reference; a (signed) integer; the integer part of a (signed) real - each bare before the
  generator's following contexts and inside arrays / dictionaries; and sweep the VALUE of object number and generation
  over the digit-count and integer-type boundaries (10^k-1 / 10^k, 65535/65536, 2^31, 2^32, 2^63-1 | 2^63, ...).
  Expected values come from the spec side alone: `refDenote`, `NumLit.denote`, `DecLit.denote`. -/

/-- **What `ds1 ws ds2 ws R` denotes** (two non-empty digit strings, leading zeros allowed): the reference
    (value of ds1, value of ds2) when both VALUES are at most i64::MAX (`Spells.ref`; `NumLit.headerOK`), else it is
    not a reference -/
def refDenote (ds1 ds2 : Bytes) : Option Obj :=
  if NumLit.headerOK (DecLit.decVal ds1) && NumLit.headerOK (DecLit.decVal ds2) then
    some (.ref (DecLit.decVal ds1) (DecLit.decVal ds2))
  else none

/-- a case: `text` (after `lead`, before `ctx`) must be consumed and denote `e`; `none`: must be rejected -/
def padCase (lead text ctx : Bytes) (e : Option Obj) : String :=
  match e with
  | some e => s!"pad 5 {hexOfBytes (lead ++ text ++ ctx)} {lead.length + text.length} {lead.length} {objSexp e}"
  | none => s!"nolit 5 {hexOfBytes (lead ++ text ++ ctx)}"

def padLeads : List Bytes := [[], [32], bs "%c\n ", [13, 10]]
/-- whitespace between the numbers of a reference / before `R` -/
def padWs : List Bytes := [[32], [10], [13, 10], [32, 32], bs "%c\n", [0], [9, 32], [12]]

/-- the following contexts of case number `k`: all of them, or (quick) four, rotating -/
def padCtxs (full : Bool) (k : Nat) : List Bytes :=
  if full then contexts else (List.range 4).map fun i => contexts[(k + 4 * i) % contexts.length]?.getD []

/-- a value spelled `tok` (denoting `v`; an Integer iff `isI`): bare before the following contexts, as array element,
    single array element, twice in an array, dictionary value (last and not last), array inside a dictionary,
    dictionary inside an array -/
def padForms (emit : String → IO Unit) (full : Bool) (k : Nat) (tok : Bytes) (v : Option Obj) (isI : Bool) : IO Unit := do
  let lead := padLeads[k % 4]?.getD []
  for ctx in padCtxs full k do
    emit (padCase lead tok (genContextFor isI ctx) v)
  let after := contexts[k % contexts.length]?.getD []
  emit (padCase lead (bs "[1 " ++ tok ++ bs "/X]") after (v.map fun v => .arr [.int 1, v, .name (bs "X")]))
  emit (padCase lead (bs "[" ++ tok ++ bs "]") after (v.map fun v => .arr [v]))
  emit (padCase lead (bs "[" ++ tok ++ bs " " ++ tok ++ bs "\n]") after (v.map fun v => .arr [v, v]))
  emit (padCase lead (bs "<</A " ++ tok ++ bs ">>") after (v.map fun v => .dict [(bs "A", v)]))
  emit (padCase lead (bs "<</A " ++ tok ++ bs "/B 1>>") after (v.map fun v => .dict [(bs "A", v), (bs "B", .int 1)]))
  emit (padCase lead (bs "<</A[" ++ tok ++ bs " ]>>") after (v.map fun v => .dict [(bs "A", .arr [v])]))
  emit (padCase lead (bs "[<</K " ++ tok ++ bs " >>(s)]") after (v.map fun v => .arr [.dict [(bs "K", v)], .str (bs "s")]))

/-- `ds1 ws ds2 ws R` in every position.  A reference (`refDenote`): all the forms of `padForms`.  Not a reference (a
    value beyond i64::MAX): at the top level the first token is a value of its own (`NumLit.denote`: Integer, real
    value/1, or - beyond i128 - not an object) and the rest is what follows it; inside an array / dictionary the text
    is not an object (`R` is none). -/
def refForms (emit : String → IO Unit) (full : Bool) (k : Nat) (ds1 ds2 : Bytes) : IO Unit := do
  let w1 := padWs[k % padWs.length]?.getD [32]
  let w2 := padWs[(k / 3) % padWs.length]?.getD [32]
  let tok := ds1 ++ w1 ++ ds2 ++ w2 ++ [82]
  match refDenote ds1 ds2 with
  | some v => padForms emit full k tok (some v) false
  | none =>
    let lead := padLeads[k % 4]?.getD []
    emit (padCase lead ds1 (w1 ++ ds2 ++ w2 ++ [82]) (NumLit.denote false (DecLit.decVal ds1)))
    emit (padCase lead (bs "[" ++ tok ++ bs "]") [] none)
    emit (padCase lead (bs "<</A " ++ tok ++ bs ">>") [] none)

def signBytes (neg : Bool) (k : Nat) : Bytes := if neg then [45] else if k % 2 == 1 then [43] else []

/-- pad a digit string with zeros up to `n` digits in all -/
def padTo (n : Nat) (ds : Bytes) : Bytes := zeros (n - ds.length) ++ ds

def padSweep (emit : String → IO Unit) (full : Bool) : IO Unit := do
  let mut k := 0
  -- (1) 0..45 leading zeros in front of every integer position
  let refBases : List (Nat × Nat) := [(12, 0), (7, 0), (0, 0), (1, 65535), (2 ^ 63 - 1, 2 ^ 63 - 1), (629, 1)]
  let intMags : List Nat := [0, 7, 12, 65535, 10 ^ 18, 2 ^ 63 - 1, 2 ^ 63, 2 ^ 64 + 5, 2 ^ 127 - 1, 2 ^ 127]
  let l127 := natDigits (2 ^ 127 - 1)
  let realToks : List (Bytes × Bytes) := [([], bs "5"), (bs "0", bs "5"), (bs "3", bs "14159"), (bs "12", []), (bs "17", bs "000"),
    (l127.take 20, l127.drop 20), (l127, bs "0"), (bs "1", zeros 38), (bs "1", zeros 39)]
  for z in List.range 46 do
    -- references: zeros before the object number, before the generation, before both
    for i in List.range refBases.length do
      if full || i % 3 == z % 3 then
        let (n, g) := refBases[i]?.getD (12, 0)
        for (z1, z2) in [(z, 0), (0, z), (z, 45 - z)] do
          k := k + 1
          refForms emit full k (zeros z1 ++ natDigits n) (zeros z2 ++ natDigits g)
    -- integers (quick: one sign per magnitude and padding, rotating)
    for i in List.range intMags.length do
      let mag := intMags[i]?.getD 0
      for sg in List.range 3 do
        if full || sg == (z + i) % 3 then
          k := k + 1
          let neg := sg == 2
          let tok := signBytes neg sg ++ zeros z ++ natDigits mag
          padForms emit full k tok (NumLit.denote neg mag) (NumLit.isInt neg mag)
    -- reals: zeros before the integer part
    for i in List.range realToks.length do
      let (ds0, fs) := realToks[i]?.getD ([], bs "5")
      for sg in List.range 3 do
        if full || sg == (z + i) % 3 then
          k := k + 1
          let neg := sg == 2
          let ds := zeros z ++ ds0
          let tok := signBytes neg sg ++ ds ++ [46] ++ fs
          padForms emit full k tok (DecLit.denote neg ds fs) (DecLit.isInt neg ds fs)
  -- (2) the VALUE of object number and generation at the digit-count and integer-type boundaries
  let pow10s : List Nat := (List.range 20).flatMap fun e => [10 ^ (e + 1) - 1, 10 ^ (e + 1)]
  let objs : List Nat := pow10s ++ [0, 65535, 65536, 2 ^ 31 - 1, 2 ^ 31, 2 ^ 32 - 1, 2 ^ 32, 2 ^ 32 + 5, 2 ^ 53, 2 ^ 63 - 2, 2 ^ 63 - 1,
    2 ^ 63, 2 ^ 63 + 1, 2 ^ 64 - 1, 2 ^ 64, 2 ^ 64 + 5, 2 ^ 64 + 12, 2 ^ 127 - 1, 2 ^ 127, 10 ^ 39]
  let gens : List Nat := [0, 1, 9, 10, 255, 256, 65534, 65535, 65536, 65537, 99999, 100000, 2 ^ 31 - 1, 2 ^ 31, 2 ^ 32 - 1, 2 ^ 32,
    2 ^ 32 + 5, 10 ^ 18, 2 ^ 63 - 1, 2 ^ 63, 2 ^ 64, 2 ^ 64 + 5, 2 ^ 127 - 1, 2 ^ 127, 10 ^ 39]
  let pairs : List (Nat × Nat) :=
    if full then objs.flatMap fun n => gens.map fun g => (n, g)
    else
      ((List.range objs.length).flatMap fun i =>
        [0, 1].map fun j => (objs[i]?.getD 0, gens[(2 * i + j * 7) % gens.length]?.getD 0)) ++
      (gens.flatMap fun g => [(12, g), (2 ^ 63 - 1, g)])
  for (n, g) in pairs do
    k := k + 1
    let d1 := natDigits n
    let d2 := natDigits g
    -- as written; and padded to exactly 19 / 20 / 38 / 39 / 40 digits (rotating)
    refForms emit full k d1 d2
    let w := [19, 20, 38, 39, 40][k % 5]?.getD 20
    k := k + 1
    refForms emit full k (padTo w d1) d2
    k := k + 1
    refForms emit full k d1 (padTo w d2)
    k := k + 1
    refForms emit full k (padTo w d1) (padTo ([20, 39, 19][k % 3]?.getD 20) d2)

/-! ### random values once more, every number zero-padded

  `padSpell` writes a value like the encoder `spell` of Spec/Spelling.lean (whitespace / comment runs, name escapes,
  string forms, entry order from the choice stream), but with 0..45 leading zeros - chosen per number - in front of
  every integer, of the integer part of every real, and of both numbers of every reference, at any nesting depth.
  The value denoted is the value spelled. -/

mutual
def padSpell : Obj → Ch → Bytes × Ch
  | .int n, c =>
    let (sg, c) := signOf (n < 0) c
    let (z, c) := pick c 46
    (sg ++ zeros z ++ natDigits n.natAbs, c)
  | .real n d, c =>
    let k := (natDigits d).length - 1
    let (sg, c) := signOf (n < 0) c
    let ds := natDigits n.natAbs
    let ds := zeros (k - ds.length) ++ ds
    let (z, c) := pick c 46
    (sg ++ zeros z ++ ds.take (ds.length - k) ++ [46] ++ ds.drop (ds.length - k), c)
  | .ref n g, c =>
    let (z1, c) := pick c 46
    let (z2, c) := pick c 46
    let (w1, c) := wsReq c
    let (w2, c) := wsReq c
    -- an explicit `+` before the object number / the generation (one time in three each)
    let (p1, c) := pick c 3
    let (p2, c) := pick c 3
    ((if p1 == 1 then [43] else []) ++ zeros z1 ++ natDigits n ++ w1 ++ (if p2 == 1 then [43] else []) ++ zeros z2 ++ natDigits g ++ w2 ++ [82], c)
  | .arr xs, c =>
    let (w, c) := wsOpt c
    let (r, c) := padElems xs [91] c
    ([91] ++ w ++ r, c)
  | .dict kvs, c =>
    let (w, c) := wsOpt c
    let (r, c) := padEntries kvs c
    ([60, 60] ++ w ++ r, c)
  | .null, c => spell .null c
  | .bool b, c => spell (.bool b) c
  | .name b, c => spell (.name b) c
  | .str b, c => spell (.str b) c
  | .comment _, c => ([], c)
  | .stream _ _, c => ([], c)
def padElems : List Obj → Bytes → Ch → Bytes × Ch
  | [], _, c => ([93], c)
  | x :: t, prev, c =>
    let (sx, c) := padSpell x c
    let (sep, c) := sepFor prev sx c
    let (r, c) := padElems t sx c
    (sep ++ sx ++ r, c)
def padEntries : List (Bytes × Obj) → Ch → Bytes × Ch
  | [], c =>
    let (w, c) := wsOpt c
    (w ++ [62, 62], c)
  | (k, v) :: t, c =>
    let (kb, c) := nameBody k c
    let key := 47 :: kb
    let (sv, c) := padSpell v c
    let (sep, c) := sepFor key sv c
    let (w, c) := wsOpt c
    let (r, c) := padEntries t c
    (key ++ sep ++ sv ++ w ++ r, c)
end

mutual
/-- does the value contain a number (an integer position to pad)? -/
def hasNum : Obj → Bool
  | .int _ | .real _ _ | .ref _ _ => true
  | .arr xs => hasNumList xs
  | .dict kvs => hasNumKvs kvs
  | _ => false
def hasNumList : List Obj → Bool
  | [] => false
  | x :: t => hasNum x || hasNumList t
def hasNumKvs : List (Bytes × Obj) → Bool
  | [] => false
  | (_, v) :: t => hasNum v || hasNumKvs t
end

/-! ### signed components of a reference: the generator (reading and judge: `sgnShape`, `sgnMember`, `judgeSgn` above) -/

def sgnCase (lead text ctx : Bytes) (e : Option Obj) : String :=
  match e with
  | some e => s!"sgn 5 {hexOfBytes (lead ++ text ++ ctx)} {lead.length + text.length} {lead.length} {objSexp e}"
  | none => s!"nosgn 5 {hexOfBytes (lead ++ text ++ ctx)} {lead.length + text.length} {lead.length}"

/-- every reference position with signed numbers: (object number, generation) x sign of each (none, `+`, `-`) x zero
    padding behind the sign x whitespace / comment separators, bare before the following contexts and in every
    position of `sgnWraps`; and the near misses of `sgnNear` (top level: the first number alone; inside: no object) -/
def sgnSweep (emit : String → IO Unit) (full : Bool) : IO Unit := do
  let mut k := 0
  let bases : List (Nat × Nat) := [(7, 0), (12, 3), (0, 0), (629, 1), (1, 65535), (2 ^ 63 - 1, 0), (5, 2 ^ 63 - 1)]
  let signs : List Bytes := [[], [43], [45]]
  let pads : List (Nat × Nat) := [(0, 0), (2, 1), (0, 2), (3, 0), (1, 19)]
  for (n, g) in bases do
    for s1 in signs do
      for s2 in signs do
        for j in List.range pads.length do
          k := k + 1
          if full || j == 0 || j == 1 + k % 4 then
            let (z1, z2) := pads[j]?.getD (0, 0)
            let t1 := s1 ++ zeros z1 ++ natDigits n
            let t2 := s2 ++ zeros z2 ++ natDigits g
            let w1 := padWs[k % padWs.length]?.getD [32]
            let w2 := padWs[(k / 3) % padWs.length]?.getD [32]
            let core := t1 ++ w1 ++ t2 ++ w2 ++ [82]
            let e : Option Obj := if (s1 == [45] && n != 0) || (s2 == [45] && g != 0) then none else some (.ref n g)
            let lead := sgnLeads[k % 4]?.getD []
            for ctx in padCtxs full k do
              emit (sgnCase lead core (genContextFor false ctx) e)
            let after := contexts[k % contexts.length]?.getD []
            for (pre, suf, f) in sgnWraps do
              emit (sgnCase lead (pre ++ core ++ suf) after (e.map f))
  -- near misses
  for (n, g) in bases.take 5 do
    for s1 in signs do
      k := k + 1
      let t1 := s1 ++ zeros (k % 3) ++ natDigits n
      let gd := zeros (k % 2) ++ natDigits g
      let lead := sgnLeads[k % 4]?.getD []
      for core in sgnNear t1 gd do
        emit (sgnCase lead t1 (core.drop t1.length) (some (.int (if s1 == [45] then -(n : Int) else (n : Int)))))
        let mut j := 0
        for (pre, suf, _) in sgnWraps do
          j := j + 1
          if full || j % 3 == k % 3 then emit (sgnCase lead (pre ++ core ++ suf) [] none)

/-! ### raw `#` in names: the generator (texts and judge: `hashTexts`, `judgeHash` above) -/

def hashSyms : List Bytes := [bs "A", bs "#", bs "4", bs "1", bs "G", bs "#41"]
def nullSyms : List Bytes := [bs "A", bs "#", bs "0", bs "#00", bs "#41"]
/-- symbols of the random tokens: more hex digits of either case, non-hex letters, a high byte, codes in either case,
    codes of delimiters / whitespace / `#` itself / NUL, near-codes -/
def rndSyms : List Bytes :=
  [bs "A", bs "#", bs "4", bs "1", bs "G", bs "a", bs "F", bs "f", bs "g", bs ".", bs "-", [0x80], bs "#41", bs "#4a", bs "#4A",
   bs "#7e", bs "#23", bs "#2F", bs "#20", bs "#00", bs "#FF", bs "#0a", bs "#4G", bs "#g1", bs "##", bs "#", bs "#"]

/-- all sequences of `n` symbol indices of an alphabet of `a` symbols -/
def idxSeqs (a : Nat) : Nat → List (List Nat)
  | 0 => [[]]
  | n + 1 => (idxSeqs a n).flatMap fun t => (List.range a).map fun i => i :: t

def hasSub (pat : List Nat) : List Nat → Bool
  | [] => pat.isEmpty
  | x :: t => pat.isPrefixOf (x :: t) || hasSub pat t

/-- the tokens of exactly `n` symbols that contain a `#`; sequences in which the symbols `skip` meet (they spell a
    symbol of their own: `#`,`4`,`1` = `#41`) are left to that symbol -/
def hashTokens (syms : List Bytes) (skip : List Nat) (n : Nat) : List Bytes :=
  (((idxSeqs syms.length n).filter fun s => !hasSub skip s).map fun s => s.flatMap fun i => syms[i]?.getD []).filter (·.contains 35)

/-- the following contexts of a name: the generator's, and the delimiters / whitespace bytes it lacks -/
def hashCtxs : List Bytes := contexts ++ [bs ")", bs ">", bs "{", bs "}", bs "\t", bs "\x0c", bs "/", bs "%"]

def hashCase (lead text ctx : Bytes) (e : Option Obj) : String :=
  match e with
  | some e => s!"hash 5 {hexOfBytes (lead ++ text ++ ctx)} {lead.length + text.length} {lead.length} {objSexp e}"
  | none => s!"nohash 5 {hexOfBytes (lead ++ text ++ ctx)} {lead.length + text.length} {lead.length}"

/-- one name token in every position.  `lvl` 2: everything; 1: a rotating part of the contexts, every text;
    0: a rotating part of contexts and texts. -/
def hashForms (emit : String → IO Unit) (lvl : Nat) (k : Nat) (tok : Bytes) : IO Unit := do
  let lead := hashLeads[k % 4]?.getD []
  match hashTexts tok with
  | [] => pure ()
  | (bare, e) :: texts =>
    -- bare, before the following contexts
    let ctxs := if lvl ≥ 2 then hashCtxs
      else ((List.range 4).map fun i => contexts[(k + 4 * i) % contexts.length]?.getD []) ++
           ((List.range 2).map fun i => hashCtxs[contexts.length + (k + 3 * i) % 8]?.getD [])
    for ctx in ctxs do
      emit (hashCase lead bare ctx e)
    let after := contexts[k % contexts.length]?.getD []
    let mut j := 0
    for (text, e) in texts do
      j := j + 1
      if lvl ≥ 1 || j % 4 == k % 4 then emit (hashCase lead text after e)

/-- a random token of 1..8 symbols of `rndSyms` that contains a `#` -/
def rndHashTok (r : Rng) : Bytes × Rng :=
  let (n, r) := r.nat 8
  let (t, r) := (List.range (n + 1)).foldl (fun (acc : Bytes × Rng) _ =>
    let (sy, r) := acc.2.pick rndSyms; (acc.1 ++ sy, r)) (([] : Bytes), r)
  (if t.contains 35 then t else t ++ [35], r)

def hashSweep (emit : String → IO Unit) (full : Bool) (seed : Nat) : IO Unit := do
  let mut k := 0
  -- every sequence of 1..4 (thorough 1..5) symbols, in every position
  for n in List.range (if full then 5 else 4) do
    for tok in hashTokens hashSyms [1, 2, 3] (n + 1) do
      k := k + 1
      hashForms emit (if full then 2 else 1) k tok
  -- the null code: every sequence of 1..3 (thorough 1..5) symbols
  for n in List.range (if full then 5 else 3) do
    for tok in hashTokens nullSyms [1, 2, 2] (n + 1) do
      k := k + 1
      hashForms emit (if full then 2 else 1) k tok
  -- 5 and 6 symbols: quick 300 random sequences; thorough every sequence of 6 (a rotating part of contexts and texts)
  if full then
    for tok in hashTokens hashSyms [1, 2, 3] 6 do
      k := k + 1
      hashForms emit 0 k tok
  else
    let mut r := Rng.mk' (seed + 4241)
    for _ in List.range 300 do
      let (n, r1) := r.nat 2
      let (t, r2) := (List.range (5 + n)).foldl (fun (acc : Bytes × Rng) _ =>
        let (sy, r) := acc.2.pick hashSyms; (acc.1 ++ sy, r)) (([] : Bytes), r1)
      r := r2
      if t.contains 35 then
        k := k + 1
        hashForms emit 0 k t

/-! ### every case once more on a restricted view (Driver/Views.lean)

  Each case line is followed by its view twin.  Axes, cycled by the running case counter `c` with pairwise coprime
  periods: bytes in front of the window (16: 1, 7, 11, 1000, ... of them - header-like text with complete objects, or
  random bytes), chain of restrictions (7: View, From, view of a view in four ways, three deep), bytes behind the
  window (5).  What lies behind the window CONTINUES the text: after a truncated spelling (`mut`, `cut`) the rest of
  it; otherwise more digits / ` 0 R` / regular characters / closing delimiters, so that a parser reading beyond the
  view's end sees another token, a reference, or a completed construct.  One `sp` / `lit` twin in three has its window
  END WITH THE SPELLING (the following context of the case moves behind the window, then the continuation): the end
  of the view is the delimiter. -/

def junkText : Bytes :=
  bs "%PDF-1.7\n1 0 obj<</A[1 2 (x)]/B 12 0 R>>endobj\n[/N 3.5 <41>] 7 0 R (str) <</K/V>>\n2 0 obj 17 endobj\n"

def sufPool : List Bytes :=
  [bs "7 0 R", bs " 0 R", bs "0", bs "abc", bs ">>", bs "]", bs ")", bs " 2 R", bs ">", bs ".5", bs "#41", bs "e]", bs "\n", bs " 1 0 R>>]"]

def viewTwin (c : Nat) (line : String) (cont : Option Bytes) : Option String :=
  match words line with
  | tag :: d :: hex :: rest =>
    match bytesOfHex hex with
    | none => none
    | some buf =>
      let pool := sufPool[(c / 5) % sufPool.length]?.getD []
      -- the window ends with the spelling; the case's own following context lies behind it
      let trimmed : Option (String × Nat × Bytes) :=
        match rest with
        | len :: _ =>
          match len.toNat? with
          | some l => if (tag == "sp" || tag == "lit" || tag == "pad" || tag == "hash" || tag == "sgn") && c % 3 == 0 && l > 0 && l ≤ buf.length
                      then some (" ".intercalate (tag :: d :: hexOfBytes (buf.take l) :: rest), l, buf.drop l) else none
          | none => none
        | [] => none
      match trimmed with
      | some (line', l, ctx) =>
        -- (behind a window that ends with an Integer there may well be ` 0 R`: for the parser nothing is there)
        let suf := match c % 5 with | 1 => ctx | 3 => pool | _ => ctx ++ pool
        some (Views.viewLine c line' l junkText suf)
      | none =>
        let suf : Bytes := match c % 5 with
          | 1 => []
          | 3 => pool
          | _ => cont.getD pool
        some (Views.viewLine c line buf.length junkText suf)
  | _ => none

def isComposite : Obj → Bool
  | .arr _ | .dict _ | .str _ => true
  | _ => false

/-- windows that end inside a spelling: legal spellings cut at every byte, the rest (and a following context)
    lying behind the window -/
def cutWindows (emit : String → IO Unit) (seed nvals : Nat) : IO Unit := do
  let mut r := Rng.mk' (seed + 77)
  let mut k := 0
  let fixed : List Obj := [.arr [.int 1, .int 2], .dict [(bs "A", .int 12), (bs "B", .arr [.name (bs "N")])], .str (bs "a(b)c"),
    .ref 12 0, .int 1234, .real 314159 100000, .name (bs "Name"), .bool true, .null,
    .arr [.ref 3 0, .str (bs "x"), .dict [(bs "K", .ref 10 2)]]]
  for i in List.range (fixed.length + nvals) do
    let (v, r1) := match fixed[i]? with
      | some v => (v, r)
      | none => rndObj 3 r
    let (sv, r2) := shuffleObj v r1
    let (ch, r3) := rndChoices r2 600
    let (lk, r4) := r3.nat 3
    let (lc, r5) := rndChoices r4 6
    let (ctx, r6) := r5.pick contexts
    r := r6
    let (body, _) := spell sv ch
    let sp := (wsRun lk lc).1 ++ body
    let ctx := genContextFor (isInt v) ctx
    let d := depth v + 1
    if sp.length ≤ 120 then
      for cut in List.range (sp.length + 1) do
        k := k + 1
        let flag := if isComposite v && cut < sp.length then 1 else 0
        let line := s!"cut {d} {Views.hexOrDash (sp.take cut)} {flag}"
        match viewTwin k line (some (sp.drop cut ++ ctx)) with
        | some l => emit l
        | none => pure ()

def gen (seed n : Nat) (tier : String) (emit0 : String → IO Unit) : IO Unit := do
  -- every case is emitted twice: as it is, and on a restricted view
  let ctr ← IO.mkRef 0
  let emitC (cont : Option Bytes) (line : String) : IO Unit := do
    emit0 line
    let c ← ctr.modifyGet fun c => (c, c + 1)
    match viewTwin c line cont with
    | some l => emit0 l
    | none => pure ()
  let emit := emitC none
  cutWindows emit0 seed (if tier == "thorough" then 400 else 40)
  numLits emit (tier == "thorough")
  decLits emit (tier == "thorough")
  padSweep emit (tier == "thorough")
  sgnSweep emit (tier == "thorough")
  hashSweep emit (tier == "thorough") seed
  let mut r := Rng.mk' seed
  for i in List.range n do
    let (v, r1) := rndObj 4 r
    let (sv, r2) := shuffleObj v r1
    let (ch, r3) := rndChoices r2 600
    let (body, _) := spell sv ch
    let (lead, r4) := (fun (r : Rng) => let (k, r) := r.nat 3; let (c, r) := rndChoices r 6; ((wsRun k c).1, r)) r3
    let (ctx, r5) := r4.pick contexts
    let ctx := genContextFor (isInt v) ctx
    let (extra, r6) := r5.nat 3
    r := r6
    let d := depth v + extra
    let sp := lead ++ body
    emit s!"sp {d} {hexOfBytes (sp ++ ctx)} {sp.length} {lead.length} {objSexp v}"
    -- the value must lie in the domain of the encoder theorem; otherwise the case is reported
    if !inDomain v sv d then emit s!"genbad {d} {hexOfBytes (sp ++ ctx)}"
    -- the same value with 0..45 leading zeros in front of every integer position (own choice stream)
    if hasNum v then
      let (pch, _) := rndChoices (Rng.mk' (seed * 31 + i + 5)) 600
      let (pbody, _) := padSpell sv pch
      let psp := lead ++ pbody
      emit s!"pad {d} {hexOfBytes (psp ++ ctx)} {psp.length} {lead.length} {objSexp v}"
    -- a random name token with raw `#` bytes and codes of any kind (own random stream)
    if i % 16 == 0 then
      let (t, _) := rndHashTok (Rng.mk' (seed * 77 + i + 9))
      hashForms emit 1 i t
    -- a single-byte mutation / truncation of the same spelling (correspondence + no-panic + no-null-entry)
    let (mk, r7) := r.nat 3
    let (pos, r8) := r7.nat (sp.length + 1)
    let (nb, r9) := r8.pick ([40, 41, 60, 62, 91, 93, 47, 35, 37, 92, 48, 32, 82] : List UInt8)
    r := r9
    let m := match mk with
      | 0 => sp.take pos
      | 1 => sp.take pos ++ [nb] ++ sp.drop (pos + 1)
      | _ => sp.take pos ++ sp.drop (pos + 1)
    -- (on a view: behind a truncated window lies the rest of the spelling)
    emitC (if mk == 0 then some (sp.drop pos ++ ctx) else none) s!"mut {d} {hexOfBytes m}"
    -- duplicate non-null key
    match v with
    | .dict ((k, x) :: _) =>
      let (kb, _) := nameBody k ch
      let (sx, _) := spell x ch
      let dupd := bs "<<" ++ [47] ++ kb ++ [32] ++ sx ++ [32, 47] ++ kb ++ bs " 1 " ++ bs ">>"
      emit s!"dup {d + 1} {hexOfBytes dupd}"
    | _ => pure ()

/-- non-trivial: the spelling differs from a bare scalar token (contains a space, delimiter pair or escape) and is ≥ 4 bytes -/
def nontrivialPlain (line : String) : Bool :=
  match words line with
  | "cut" :: _ :: hex :: _ => hex.length ≥ 8
  | "sp" :: _ :: hex :: _ => hex.length ≥ 8
  | "lit" :: _ :: hex :: _ => hex.length ≥ 8
  | "pad" :: _ :: hex :: _ => hex.length ≥ 8
  | "hash" :: _ :: hex :: _ => hex.length ≥ 8
  | "sgn" :: _ :: hex :: _ => hex.length ≥ 8
  | "nosgn" :: _ => true
  | "nolit" :: _ => true
  | "nohash" :: _ => true
  | "dup" :: _ => true
  | "mut" :: _ :: hex :: _ => hex.length ≥ 8
  | _ => false

/-- a case on a view counts when the case does and the window lies inside a larger allocation -/
def nontrivial (line : String) : Bool := Views.nontrivial nontrivialPlain line

-- executed at build time: 400 generated values (two seeds) are in the domain `wfDeep` of the
-- encoder theorem and denote the expected value
#eval show IO Unit from do
  unless genDomainOK 1 200 && genDomainOK 20260930 200 do
    throw (IO.userError "C02 generator: a generated value is outside wfDeep / canon sv ≠ v")

def driver : PropDriver := { gen, model, judge, nontrivial }
end Driver.C02
