import Driver.Common
import Driver.ObjFmt
import Driver.C02
import Parsley.Model.Loader
import Parsley.Spec.Doc
import Parsley.Spec.DocEnc
namespace Driver.C03
open Parsley Parsley.Obj Parsley.Spelling Parsley.DocSpec Driver

/-! Line protocol of C03 and C04 (the C04 driver reuses everything here).

    case lines (word 2 is the hex of the file, which is all the Rust side reads - except for `garb` / `garh`):
      doc  <hex> <seed> <variant>   a well-formed one-revision document: must load to exactly its objects
      mism <hex> <seed> <variant>   the same with the offsets of two in-use entries exchanged: must be rejected
      sys  <hex> <seed> <variant> <mode>   purpose-built document (plain objects, streams with direct / backward /
                                    forward referenced /Length, object stream where the layout allows) in layout
                                    variant%3 (table / stream / hybrid) with identity-mismatch corruption <mode>:
                                    0 two plain objects swapped, 1 direct /Length stream <-> plain, 2 backward /Length
                                    stream <-> plain, 3 forward /Length stream <-> plain, 4 two forward /Length streams
                                    swapped (second pass only), 5 forward /Length stream listed under an unused smaller
                                    number (second pass only), 6 plain object listed under an unused number, 7 backward-
                                    /Length stream listed under an unused number; all must be rejected; 8 = uncorrupted
                                    control, must load exactly
      ret  <hex> <seed> <layout> <A> <B> <target> <placement>   the `sys` document with ONE entry - of B - aimed at object A,
                                    which keeps its own entry (two entries share an offset), or into A, at its `endobj`, at the
                                    section, at the header: must be rejected; target 7 = control (see `RetSel`, `genRet`)
      reth <hex> <seed> <revisions> <index>   the same across the revisions of a history (C04; Driver/C04.lean `genReth`)
      pack <hex> <seed> <variant>   a document whose object stream is TIGHTLY PACKED (members back to back, every separator,
                                    offset convention, slack before / after /First, tail, header layout; see `genPack`)
      w0   <hex> <seed> <variant>   purpose-built: a cross-reference stream WITHOUT a type field (/W [0 n m], every row is
                                    type 1 by default, /Index leaving out object 0): variant even = the stream is the
                                    file's cross-reference section, odd = hybrid file whose /XRefStm stream lists some
                                    of the file-level objects (in-use rows) that the table does not mention
      enc  <hex> <seed> <variant>   a one-revision document that DECLARES ENCRYPTION: `/Encrypt <reference | dictionary>` in the
                                    trailer (classic table: must load exactly - nothing needs decoding), in the dictionary of
                                    its cross-reference stream, or (hybrid) in the trailer / the /XRefStm stream's dictionary /
                                    both; layout variant%4 (table, stream, hybrid, hybrid), placement (variant/4)%3.  Oracle:
                                    DocSpec.acceptable (a declaring document may be refused or must load EXACTLY what
                                    `resolve` says; accepted with objects missing / extra / wrong is bad); see `judgeEnc`
      ench <hex> <seed> <variant>   the same over histories (C04; generator in Driver/C04.lean)
      garb <hex of the DOCUMENT> <seed> <variant> <lk> <ll> <gk> <gl> <tk> <tl> [o]
                                    size sweep of the bytes around a well-formed document: filler of kind lk and length ll
                                    before the header, (gk, gl) in the gap before the last `startxref`, (tk, tl) after the
                                    last %%EOF; the only case kind whose word 2 is NOT the whole file (see `garbFile`);
                                    an accepted load is followed by ` @<reported file offset of the header>`; `o` = oracle-only
      garh ...                      the same around a history (C04; generator in Driver/C04.lean)
      hist <hex> <seed> <variant>   a history (C04): newest revision wins / bad /Prev chain rejected
      exp  <hex> <expected output>  hand-built corpus case with the expected output spelled out
      decl <hex> <exact load>       hand-built file that declares encryption: `rejected` or exactly the spelled-out load
      mut  <hex>                    a corrupted file: correspondence and no panic only
    output lines (implementation and model):
      rejected | ok <root num> <root gen> | <num> <gen> <value> | ...   | panic <site>

    The oracle re-derives the abstract document from (seed, variant) with the generator below,
    checks that it renders to the very bytes of the case, and computes the expected output from
    `DocSpec.resolve` - it never calls the loader model. -/

/-! ### outputs -/

def showDefs (defs : List (DocSpec.ObjId × Obj)) : String :=
  String.join (defs.map fun (k, v) => s!" | {k.1} {k.2} {objSexp v}")

def showLoaded : Loader.Out Loader.Loaded → String
  | .reject => "rejected"
  | .panic p => s!"panic {p}"
  | .ok l => s!"ok {l.root.1} {l.root.2}" ++ showDefs l.defs

/-! ### filler bytes of the `garb` / `garh` size sweeps

    `garb <hex of the document> <seed> <variant> <lk> <ll> <gk> <gl> <tk> <tl> [o]`: the file is NOT spelled out in the case
    line (the sweep goes up to 10^6 bytes); word 2 is the document alone and the three (kind, length) pairs describe what
    is put BEFORE THE HEADER (leading garbage), in the GAP before the last `startxref` and AFTER THE LAST `%%EOF` (tail).
    The Rust harness (harness/src/loader_common.rs `case_bytes`) and `garbFile` below expand the description the same
    way; the filler is a pure function of (kind, length, salt), salt = seed / seed + 1 / seed + 2 for the three places:
      0  zeros
      1  pseudo-random bytes (a 31-bit linear congruential generator), every `%` replaced by `$`
      2  text with look-alikes of everything the loader searches for: `%PDF` without the dash, `%%EOF`, `startxref`, `xref`,
         `trailer` (not after %%EOF: the LAST %%EOF ends the document)
      3  an earlier PDF file whose first bytes (`%PDF-`) were cut off: objects, table, trailer, startxref, %%EOF (not after %%EOF)
      4  look-alikes that are legal after the last %%EOF too: `%%EO`, `%EOF`, `%%E0F`, `startxref`, even `%PDF-1.7`
         (not before the header: the FIRST magic is the header)
      5  white space and a comment line
    kinds 2-5 repeat their pattern from position `salt mod length of the pattern`, so the cut at the document's first /
    last byte falls at every place of the pattern (`%PDF` right before `%PDF-1.5`, `%%EO` right before ...). -/

def fillPat (kind : Nat) : Bytes :=
  match kind with
  | 2 => bs "%PDF 1.4\n%PDF_1.7 %PDF\n%%EOF\nstartxref\n0\n%%EOF\nxref\n0 1\n0000000000 65535 f \ntrailer\n<< /Size 1 /Root 1 0 R >>\n"
  | 3 => bs "1.4\n1 0 obj\n<< /Type /Catalog /Pages 2 0 R >>\nendobj\n2 0 obj\n<< /Type /Pages /Kids [] /Count 0 >>\nendobj\nxref\n0 3\n0000000000 65535 f \n0000000004 00000 n \n0000000053 00000 n \ntrailer\n<< /Size 3 /Root 1 0 R >>\nstartxref\n109\n%%EOF\n"
  | 4 => bs "%%EO\n%EOF\nstartxref\n7\n%%E0F %%EOf\n%PDF-1.7\ntrailer\n<< /Size 9 >>\nstartxre\n"
  | _ => bs " \n\r\n\t % padding\n  "

def fill (kind len salt : Nat) : Bytes :=
  match kind with
  | 0 => List.replicate len 0
  | 1 => Id.run do
    let mut s := salt % 2147483648
    let mut out : Array UInt8 := Array.mkEmpty len
    for _ in [0:len] do
      s := (s * 1103515245 + 12345) % 2147483648
      let b := (s / 65536) % 256
      out := out.push (UInt8.ofNat (if b == 37 then 36 else b))
    return out.toList
  | k =>
    let p := (fillPat k).toArray
    let n := p.size
    (List.range len).map fun i => p[(salt + i) % n]?.getD 32

/-- may a filler of this kind stand before the header / after the last %%EOF? (anything may stand in the gap) -/
def leadKinds : List Nat := [0, 1, 2, 3, 5]
def tailKinds : List Nat := [0, 1, 4, 5]
def gapKinds : List Nat := [0, 1, 2, 3, 4, 5]

/-- the file of a `garb` / `garh` case -/
def garbFile (doc : Bytes) (seed lk ll gk gl tk tl : Nat) : Bytes :=
  let gp := (lastIndexOf (bs "startxref") doc).getD doc.length
  fill lk ll seed ++ doc.take gp ++ fill gk gl (seed + 1) ++ doc.drop gp ++ fill tk tl (seed + 2)

/-- an accepted load of a `garb` / `garh` case also reports where the header was found (`FileInfo::file_offset(0)`) -/
def showLoadedAt (data : Bytes) : String :=
  let out := Loader.parseData data
  match out with
  | .ok _ => showLoaded out ++ s!" @{(Loader.scanFwd Loader.kwPdf data).getD 0}"
  | _ => showLoaded out

def isGarbTag (t : String) : Bool := t == "garb" || t == "garh"

def model (line : String) : String :=
  match words line with
  | tag :: hex :: seed :: _ :: lk :: ll :: gk :: gl :: tk :: tl :: rest =>
    if isGarbTag tag then
      -- (`o`: oracle-only - the byte-list model recurses once per byte in its scans; above `garbModelMax` bytes it is not run)
      if rest == ["o"] then "nomodel" else
      match bytesOfHex hex with
      | some b => showLoadedAt (garbFile b seed.toNat! lk.toNat! ll.toNat! gk.toNat! gl.toNat! tk.toNat! tl.toNat!)
      | none => "bad-case"
    else
      match bytesOfHex hex with
      | some b => showLoaded (Loader.parseData b)
      | none => "bad-case"
  | _ :: hex :: _ =>
    match bytesOfHex hex with
    | some b => showLoaded (Loader.parseData b)
    | none => "bad-case"
  | _ => "bad-case"

/-! ### random documents -/

open Driver.C02 (rndObj shuffleObj rndChoices rndBytes)

/-- what the generator knows about an object number -/
structure Known where
  num : Nat
  gen : Nat
  member : Bool       -- written as an object-stream member
  live : Bool
deriving Inhabited

structure GenSt where
  r : Rng
  next : Nat          -- next unused object number
  known : List Known  -- user objects

def rndPad (r : Rng) : Bytes × Rng :=
  let (k, r) := r.nat 3
  let (c, r) := rndChoices r 4
  ((wsRun k c).1, r)

def rndNonNull (d : Nat) (r : Rng) : Obj × Rng :=
  let (v, r) := rndObj d r
  match v with
  | .null => (.int 7, r)
  | v => (v, r)

def blankObj : DObj := ⟨0, 0, .val .null .null, [], [], false, none, 0, 0, 0⟩

/-- layout choices of one object -/
def rndShell (r : Rng) (num gen : Nat) : DObj × Rng :=
  let (ch, r) := rndChoices r 200
  let (pad, r) := rndPad r
  let (ap, r) := r.nat 2
  let (lp, r) := r.nat 4
  let (e1, r) := r.nat 2
  let (e2, r) := r.nat 4
  ({ blankObj with num, gen, ch, pad, ofsAtPad := ap == 1, lenPos := lp, eol1 := e1, eol2 := e2 }, r)

def rndValObj (r : Rng) (num gen : Nat) : DObj × Rng :=
  let (o, r) := rndShell r num gen
  let (v, r) := rndObj 3 r
  let (sv, r) := shuffleObj v r
  ({ o with body := .val v sv }, r)

def rndEntries (r : Rng) : List (Bytes × Obj) × Rng :=
  let (n, r) := r.nat 3
  let (kvs, r) := (List.range n).foldl (fun (acc : List (Bytes × Obj) × Rng) _ =>
    let (k, r) := rndBytes acc.2 4 true
    let (v, r) := rndNonNull 2 r
    if acc.1.any (·.1 == k) then (acc.1, r) else ((k, v) :: acc.1, r)) ([], r)
  (kvs, r)

def rndStmObj (r : Rng) (num gen : Nat) (lenRef : Option Nat) : DObj × Rng :=
  let (o, r) := rndShell r num gen
  let (es, r) := rndEntries r
  let (n, r) := r.nat 25
  let (data, r) := r.bytes n
  ({ o with body := .stm es data, lenRef }, r)

def holderObj (r : Rng) (num len : Nat) : DObj × Rng :=
  let (o, r) := rndShell r num 0
  ({ o with body := .val (.int len) (.int len) }, r)

def dataLen (o : DObj) : Nat := match o.body with | .stm _ d => d.length | _ => 0

def rndLay (r : Rng) (kind : Nat) (xnum : Nat) (hiddenGen : Nat) : RevLay × Rng :=
  let (ch, r) := rndChoices r 60
  let (cut, r) := r.nat 4
  let (eols, r) := rndChoices r 5
  let (w0, r) := r.nat 3
  let (x1, r) := r.nat 3
  let (x2, r) := r.nat 3
  let (oi, r) := r.nat 2
  let (fl, r) := r.nat 2
  let (up, r) := r.nat 2
  let (dord, r) := r.nat 5
  ({ kind, ch, cut, eols, w0, x1, x2, omitIndex := oi == 1, flate := fl == 1, up := up == 1, xnum, hiddenGen,
     swap := none, dictOrder := dord }, r)

/-- new objects for one revision: `n` fresh user objects (some streams, some with a referenced
    /Length whose holder gets the smaller or the larger number), some grouped into object streams
    when the layout can express it.  Returns file-level objects, members and the new `Known`s. -/
def rndNewObjs (g : GenSt) (n : Nat) (kind : Nat) (gens : Bool) :
    List DObj × List (Nat × Nat × Nat × Obj) × GenSt :=
  -- user objects
  let (objs, cands, g) := (List.range n).foldl
    (fun (acc : List DObj × List (Nat × Obj × Obj × Ch × Bytes) × GenSt) _ =>
      let (objs, cands, g) := acc
      let (c, r) := g.r.nat 10
      if c < 3 then
        -- a stream, /Length direct or by reference
        let (lr, r) := r.nat 3
        if lr == 0 then
          let (sw, r) := r.nat 2
          let (a, b) := (g.next, g.next + 1)
          let (sn, hn) := if sw == 0 then (a, b) else (b, a)
          let (o, r) := rndStmObj r sn 0 (some hn)
          let (h, r) := holderObj r hn (dataLen o)
          (objs ++ [o, h], cands, { r, next := g.next + 2, known := g.known ++ [⟨sn, 0, false, true⟩] })   -- (the holder is not edited later: the stream depends on it)
        else
          let (o, r) := rndStmObj r g.next 0 none
          (objs ++ [o], cands, { r, next := g.next + 1, known := g.known ++ [⟨g.next, 0, false, true⟩] })
      else
        let (gn, r) := if gens then (let (x, r) := r.nat 6; (if x == 0 then 2 else if x == 1 then 1 else 0, r)) else (0, r)
        let (inStm, r) := r.nat 2
        if kind != 0 && gn == 0 && inStm == 1 then
          -- candidate member of an object stream
          let (v, r) := rndNonNull 3 r
          let v := match v with | .ref a b => Obj.arr [.ref a b] | v => v      -- (a bare reference is a legal member too, but keep it boxed)
          let (sv, r) := shuffleObj v r
          let (ch, r) := rndChoices r 200
          let (gap, r) := rndPad r
          (objs, cands ++ [(g.next, v, sv, ch, gap)], { r, next := g.next + 1, known := g.known ++ [⟨g.next, 0, true, true⟩] })
        else
          let (o, r) := rndValObj r g.next gn
          (objs ++ [o], cands, { r, next := g.next + 1, known := g.known ++ [⟨g.next, gn, false, true⟩] }))
    ([], [], g)
  -- containers: one, or two when there are at least 3 members
  if cands.isEmpty then (objs, [], g)
  else
    let (two, r) := g.r.nat 2
    let groups := if cands.length ≥ 3 && two == 1 then [cands.take (cands.length / 2), cands.drop (cands.length / 2)] else [cands]
    let (cs, ms, g) := groups.foldl (fun (acc : List DObj × List (Nat × Nat × Nat × Obj) × GenSt) grp =>
      let (cs, ms, g) := acc
      let (shell, r) := rndShell g.r g.next 0
      let (fl, r) := r.nat 2
      let (hp, r) := rndPad r
      let (c, m) := mkContainer g.next grp (fl == 1) hp shell
      (cs ++ [c], ms ++ m, { g with r, next := g.next + 1 })) ([], [], { g with r })
    (objs ++ cs, ms, g)

def shuffleL {α : Type} (l : List α) (r : Rng) : List α × Rng := Driver.C02.shuffle l r

/-- the base revision -/
def rndBase (g : GenSt) (kind : Nat) (hiddenGen : Nat) : Rev × GenSt :=
  let (n, r) := g.r.nat 5
  let (objs, mems, g) := rndNewObjs { g with r } (n + 2) kind true
  let (objs, r) := shuffleL objs g.r
  let xnum := g.next
  let g := { g with r, next := if kind == 0 then g.next else g.next + 1 }
  let (lay, r) := rndLay g.r kind xnum hiddenGen
  -- (a PNG predictor over zero rows is rejected by the predictor code: keep an empty hybrid stream plain)
  let lay := if kind == 2 && mems.isEmpty then { lay with up := false } else lay
  -- root: any user object
  let (ri, r) := r.nat g.known.length
  let rk := g.known[ri]?.getD default
  ({ objs, members := mems, frees := [], zero := true, root := (rk.num, rk.gen), lay }, { g with r })

/-- an incremental update: 1-3 edits (add / redefine / free), each number at most once -/
def rndUpdate (g : GenSt) (kind : Nat) (allowBump allowMember : Bool) (root : DocSpec.ObjId) : Rev × GenSt :=
  let (ne, r) := g.r.nat 3
  let g := { g with r }
  let (objs, frees, _, g) := (List.range (ne + 1)).foldl
    (fun (acc : List DObj × List (Nat × Nat) × List Nat × GenSt) _ =>
      let (objs, frees, touched, g) := acc
      let (op, r) := g.r.nat 3
      let (ti, r) := r.nat g.known.length
      let k := g.known[ti]?.getD default
      let (bump, r) := r.nat 2
      let g := { g with r }
      let usable := !touched.contains k.num && (allowMember || !k.member) && g.known.length > 0
      if op == 0 || !usable then (objs, frees, touched, g)            -- (additions are made below)
      else
        let gn := if allowBump && bump == 1 then k.gen + 1 else k.gen
        if op == 1 then
          -- redefine (or re-add a freed number) as a direct object
          let (o, r) := rndValObj g.r k.num gn
          (objs ++ [o], frees, k.num :: touched,
           { g with r, known := g.known.map fun x => if x.num == k.num then ⟨k.num, gn, false, true⟩ else x })
        else if k.live then
          (objs, frees ++ [(k.num, gn)], k.num :: touched,
           { g with known := g.known.map fun x => if x.num == k.num then ⟨k.num, gn, false, false⟩ else x })
        else (objs, frees, touched, g))
    ([], [], [], g)
  let (na, r) := g.r.nat 3
  -- an update mentions at least one object (a table needs at least one subsection)
  let na := if objs.isEmpty && frees.isEmpty && na == 0 then 1 else na
  let (newObjs, mems, g) := rndNewObjs { g with r } na kind false
  let (objs, r) := shuffleL (objs ++ newObjs) g.r
  let xnum := g.next
  let g := { g with r, next := if kind == 0 then g.next else g.next + 1 }
  let (lay, r) := rndLay g.r kind xnum 65535
  let lay := if kind == 2 && mems.isEmpty then { lay with up := false } else lay
  ({ objs, members := mems, frees, zero := false, root, lay }, { g with r })

def rndGarbage (r : Rng) : Bytes × Rng :=
  let (c, r) := r.nat 4
  if c == 0 then ([], r)
  else
    let (n, r) := r.nat 40
    let (b, r) := r.bytes n
    -- garbage must not contain the header magic (it would BE the header): break every '%'
    (b.map fun x => if x == 37 then 36 else x, r)

/-- a document or history together with what the oracle needs -/
structure Scene where
  garbage : Bytes
  binary : Bool
  revs : List (Rev × PrevMode)
  chain : Option (List Nat)      -- indices of the revisions on the /Prev chain (oldest first); none = must be rejected
deriving Inhabited

def kindOf (v : Nat) (r : Rng) : Nat × Rng :=
  match v % 6 with
  | 0 | 1 => (0, r)
  | 2 | 3 => (1, r)
  | 4 => (2, r)
  | _ => r.nat 3

/-- C03: one revision; `variant` selects the layout family -/
def genDoc (seed variant : Nat) : Scene :=
  let r := Rng.mk' (seed * 7919 + variant)
  let (kind, r) := kindOf variant r
  let (hg, r) := r.nat 4
  let hiddenGen := if variant % 6 == 4 then 65535 else if hg == 0 then 0 else 65535
  let (garbage, r) := rndGarbage r
  let (bin, r) := r.nat 2
  let (rev, _) := rndBase ⟨r, 1, []⟩ kind hiddenGen
  ⟨garbage, bin == 1, [(rev, .auto)], some [0]⟩

/-- C03: the same document with the offsets of two in-use entries exchanged -/
def genMism (seed variant : Nat) : Scene :=
  let sc := genDoc seed variant
  match sc.revs with
  | [(rev, pm)] =>
    let nums := rev.objs.map (·.num)
    let r := Rng.mk' (seed * 31 + variant + 5)
    let (i, r) := r.nat nums.length
    let (j, _) := r.nat (nums.length - 1)
    let a := nums[i]?.getD 0
    let b := (nums.filter (· != a))[j]?.getD a
    { sc with revs := [({ rev with lay := { rev.lay with swap := some (a, b) } }, pm)], chain := none }
  | _ => sc

/-- C03: the purpose-built document of the `sys` cases.  Numbers: 1,2 plain; 3 stream with direct /Length;
    4 holder of 5 (backward reference: the holder is loaded first); 6 unused; 7 stream, holder 8 (forward
    reference: deferred to the second pass); 9 stream, holder 10 (forward); with stream / hybrid layouts
    11,12 members of object stream 13. -/
def genSys (seed variant mode : Nat) : Scene :=
  let r := Rng.mk' (seed * 6007 + variant * 13 + 1)
  let kind := variant % 3
  let (garbage, r) := rndGarbage r
  let (bin, r) := r.nat 2
  let (p1, r) := rndValObj r 1 0
  let (p2, r) := rndValObj r 2 0
  let (d, r) := rndStmObj r 3 0 none
  let (bk, r) := rndStmObj r 5 0 (some 4)
  let (hbk, r) := holderObj r 4 (dataLen bk)
  let (f1, r) := rndStmObj r 7 0 (some 8)
  let (hf1, r) := holderObj r 8 (dataLen f1)
  let (f2, r) := rndStmObj r 9 0 (some 10)
  let (hf2, r) := holderObj r 10 (dataLen f2)
  let (objs, mems, r) :=
    if kind == 0 then ([p1, p2, d, bk, hbk, f1, hf1, f2, hf2], [], r)
    else
      let (v1, r) := rndNonNull 2 r
      let (v2, r) := rndNonNull 2 r
      let box (v : Obj) : Obj := match v with | .ref a b => .arr [.ref a b] | v => v
      let (c1, r) := rndChoices r 100
      let (c2, r) := rndChoices r 100
      let (shell, r) := rndShell r 13 0
      let (fl, r) := r.nat 2
      let (c, m) := mkContainer 13 [(11, box v1, box v1, c1, [32]), (12, box v2, box v2, c2, [10])] (fl == 1) [] shell
      ([p1, p2, d, bk, hbk, f1, hf1, f2, hf2, c], m, r)
  let (objs, r) := shuffleL objs r
  let (lay, _) := rndLay r kind 14 65535
  let lay : RevLay := match mode with
    | 0 => { lay with swap := some (1, 2) }
    | 1 => { lay with swap := some (3, 1) }
    | 2 => { lay with swap := some (5, 2) }
    | 3 => { lay with swap := some (7, 1) }
    | 4 => { lay with swap := some (7, 9) }
    | 5 => { lay with relabel := some (7, 6) }
    | 6 => { lay with relabel := some (1, 20) }
    | 7 => { lay with relabel := some (5, 21) }
    | _ => lay
  ⟨garbage, bin == 1, [({ objs, members := mems, frees := [], zero := true, root := (1, 0), lay }, .auto)],
   if mode ≥ 8 then some [0] else none⟩

def render (sc : Scene) : Bytes × List Nat × Nat × List Said := renderHistory sc.garbage sc.binary sc.revs

/-- expected output: `resolve` over the revisions on the chain -/
def expected (sc : Scene) : String :=
  match sc.chain with
  | none => "rejected"
  | some idx =>
    let (_, _, _, saids) := render sc
    let on := idx.filterMap fun i => saids[i]?
    match resolve on with
    | (defs, some root) => s!"ok {root.1} {root.2}" ++ showDefs defs
    | (_, none) => "rejected"

/-! ### known-finding classifiers (decided on the CASE, not on the outputs) -/

/-- #31: a hybrid file whose hidden objects have generation-0 free entries in the table -/
def isHybridGen0 (sc : Scene) : Bool :=
  sc.revs.any fun (r, _) => r.lay.kind == 2 && r.lay.hiddenGen == 0 && !r.members.isEmpty

/-- every (number, generation) a revision mentions -/
def mentions (r : Rev) : List (Nat × Nat) :=
  r.objs.map (fun o => (o.num, o.gen)) ++ r.members.map (fun m => (m.1, 0)) ++ r.frees

/-- #29: some object number is mentioned with two different generations in the history -/
def hasGenChange (sc : Scene) : Bool :=
  let all := sc.revs.flatMap fun (r, _) => mentions r
  all.any fun a => all.any fun b => a.1 == b.1 && a.2 != b.2

/-- #30: an object-stream member is mentioned again (redefined or freed) by a later revision -/
def memberTouchedLater (sc : Scene) : Bool :=
  let rs := sc.revs.map (·.1)
  rs.zipIdx.any fun (r, i) =>
    r.members.any fun m => (rs.drop (i + 1)).any fun r' => (mentions r').any fun x => x.1 == m.1

def classOf (sc : Scene) : String :=
  if memberTouchedLater sc then "objstm-member-touched-later"
  else if hasGenChange sc then "generation-changed"
  else if isHybridGen0 sc then "hybrid-hidden-gen0"
  else "wrong-load"

def judgeScene (sc : Scene) (hex impl : String) : String :=
  let (bytes, _, _, _) := render sc
  if hexOfBytes bytes != hex then "bad generator-mismatch the case does not re-derive from its seed"
  else
    let want := expected sc
    let got := impl.trimAscii.toString
    if got == want then "ok"
    else if got.startsWith "panic" || got.startsWith "crash" || got.startsWith "hang" then s!"bad panic-or-crash {got.take 80}"
    else if want == "rejected" then "bad accepted-but-must-reject"
    else if got == "rejected" then s!"bad {if classOf sc == "wrong-load" then "wellformed-rejected" else classOf sc} rejected"
    else s!"bad {classOf sc} want={(want.take 300)}"

/-- the identifiers an `ok` output line reports, each with "its value is a cross-reference stream" -/
def definedOf (out : String) : List ((Nat × Nat) × Bool) :=
  ((out.splitOn " | ").drop 1).filterMap fun part =>
    match part.splitOn " " with
    | n :: g :: rest =>
      match n.toNat?, g.toNat? with
      | some n, some g =>
        let v := " ".intercalate rest
        some ((n, g), v.startsWith "(stream" && (v.splitOn "(54797065 (name 58526566))").length > 1)
      | _, _ => none
    | _ => none

def judgeCommon (case impl : String) : Option String :=
  match words case with
  | "exp" :: _ :: want =>
    let want := " ".intercalate want
    let got := impl.trimAscii.toString
    some (if got == want then "ok"
      else if got.startsWith "panic" || got.startsWith "crash" || got.startsWith "hang" then "bad panic-or-crash"
      else s!"bad corpus-expectation want={want.take 200}")
  | "decl" :: _ :: want =>
    -- hand-built file that DECLARES encryption: refused, or exactly the spelled-out load (DocSpec.acceptable)
    let want := " ".intercalate want
    let got := impl.trimAscii.toString
    some (if got == want || got == "rejected" then "ok"
      else if got.startsWith "panic" || got.startsWith "crash" || got.startsWith "hang" then "bad panic-or-crash"
      else s!"bad wrong-load want={want.take 200}")
  | "selfrow" :: _ :: want =>
    -- hand-built file of the known finding `xrefstm-self-entry-unchecked` (the row a cross-reference stream object has for
    -- itself points at another object): must be rejected; the known class is reported for exactly the spelled-out load
    -- "as if the row were correct", any other accepted load is unlisted
    let want := " ".intercalate want
    let got := impl.trimAscii.toString
    some (if got == "rejected" then "ok"
      else if got.startsWith "panic" || got.startsWith "crash" || got.startsWith "hang" then "bad panic-or-crash"
      else if got == want then "bad xrefstm-self-entry-unchecked accepted: the row of a cross-reference stream object for itself is never compared with its offset"
      else "bad accepted-but-must-reject")
  | "mut" :: hex :: _ =>
    let got := impl.trimAscii.toString
    some (if got.startsWith "panic" || got.startsWith "crash" || got.startsWith "hang" then s!"bad panic-or-crash {got.take 80}"
      else if got == "rejected" then "ok"
      else if got.startsWith "ok " then
        -- an accepted load is checked against the newest table, read from the bytes alone
        match bytesOfHex hex with
        | some file =>
          (match entryViolation file (definedOf got) with
           | some msg => s!"bad accepted-with-wrong-object-at-entry {msg}"
           | none => "ok")
        | none => "bad-case"
      else "bad malformed-output")
  | _ => none

/-! ### cross-reference streams without a type field (/W [0 n m]) -/

/-- the objects of a `w0` document: 2-5 user objects (values and streams, /Length direct or referenced), no members -/
def w0Objs (seed variant : Nat) : List DObj × GenSt × Bytes × Bool :=
  let r := Rng.mk' (seed * 3571 + variant * 17 + 3)
  let (garbage, r) := rndGarbage r
  let (bin, r) := r.nat 2
  let (n, r) := r.nat 4
  let (objs, _, g) := rndNewObjs ⟨r, 1, []⟩ (n + 2) 0 false
  let (objs, r) := shuffleL objs g.r
  (objs, { g with r }, garbage, bin == 1)

/-- variant even: one revision whose cross-reference section is a stream with only type-1 rows (object 0 is not
    listed), `lay.w0 = 0`: the encoder then writes /W [0 n m] -/
def genW0 (seed variant : Nat) : Scene :=
  let (objs, g, garbage, bin) := w0Objs seed variant
  let (lay, _) := rndLay g.r 1 g.next 65535
  let rk := g.known[0]?.getD default
  ⟨garbage, bin, [({ objs, members := [], frees := [], zero := false, root := (rk.num, rk.gen), lay := { lay with w0 := 0 } }, .auto)],
   some [0]⟩

/-- variant odd: a hybrid file written here (Spec/Doc's hybrid layout puts only object-stream members into the
    /XRefStm stream): the table lists object 0, the stream object and every second user object; the OTHER user objects
    are listed only in the /XRefStm stream, as in-use rows of a stream with /W [0 n m].  Same pieces as
    `DocSpec.renderRev`: `renderObjs`, `renderXrefStream`, `tableSubs`, `spellRaw`, `tailBytes`. -/
def renderHybridW0 (seed variant : Nat) : Bytes × Said :=
  let (objs, g, garbage, bin) := w0Objs seed variant
  let (lay, _) := rndLay g.r 2 g.next 65535
  let lay := { lay with w0 := 0, omitIndex := false }
  let rk := g.known[0]?.getD default
  let root : DocSpec.ObjId := (rk.num, rk.gen)
  let h := header bin
  let (body, us, vals) := renderObjs objs h.length
  let p1 := h.length + body.length
  let uses : List XE := us.map fun u => ⟨u.1, 1, u.2.2, u.2.1⟩
  -- the user objects (not the length holders, which must be loadable in the first pass anyway) at even positions
  let userNums := g.known.map (·.num)
  let moved := (userNums.zipIdx.filter fun (_, i) => i % 2 == 0).map (·.1)
  let inStream := uses.filter fun e => moved.contains e.num
  let inTable := uses.filter fun e => !moved.contains e.num
  let maxNum := maxOf (uses.map (·.num) ++ [lay.xnum])
  let (xb, xv) := renderXrefStream lay p1 (sortXE inStream) (maxNum + 1) none none
  let p2 := p1 + xb.length
  let es := sortXE (inTable ++ [⟨0, 0, 0, 65535⟩, ⟨lay.xnum, 1, p1, 0⟩])
  let table := XrefSpec.encTable (tableSubs lay es)
  let tr : List (Bytes × Bytes) := rotate
    [(bs "Size", natDigits (maxNum + 1)), (bs "Root", refBytes root), (bs "XRefStm", natDigits p1)] lay.dictOrder
  let (w, c) := wsOpt lay.ch
  let (d, c) := spellRaw tr c
  (garbage ++ h ++ body ++ xb ++ table ++ bs "trailer" ++ w ++ bs "<<" ++ d ++ [10] ++ tailBytes p2 c,
   ⟨vals ++ [((lay.xnum, 0), xv)], [], root⟩)

def w0Bytes (seed variant : Nat) : Bytes × String :=
  if variant % 2 == 0 then
    let sc := genW0 seed variant
    ((render sc).1, expected sc)
  else
    let (b, said) := renderHybridW0 seed variant
    (b, match resolve [said] with
        | (defs, some root) => s!"ok {root.1} {root.2}" ++ showDefs defs
        | (_, none) => "rejected")

def judgeW0 (seed variant : Nat) (hex impl : String) : String :=
  let (bytes, want) := w0Bytes seed variant
  if hexOfBytes bytes != hex then "bad generator-mismatch the case does not re-derive from its seed"
  else
    let got := impl.trimAscii.toString
    if got == want then "ok"
    else if got.startsWith "panic" || got.startsWith "crash" || got.startsWith "hang" then s!"bad panic-or-crash {got.take 80}"
    else if got == "rejected" then "bad wellformed-rejected rejected"
    else s!"bad wrong-load want={(want.take 300)}"


/-! ### object-stream CONTAINERS (and ordinary streams) whose own /Length is a reference (`lenc`)

    `parse_objects` defers a stream object whose /Length names an object that is not loaded yet to a second pass and
    opens the object streams only after BOTH passes.  The purpose-built document: plain objects 1 (root), 2; an object
    stream (members 7, 8) and an ordinary stream, each taking its /Length from its own holder; cross-reference stream
    20.  variant bits:
      variant % 2        layout: 0 cross-reference stream, 1 hybrid (members hidden behind /XRefStm)
      (variant / 2) % 2  NUMBER order = cross-reference order: 0 holders 3 / 5 below their streams 4 / 6 (loaded first),
                         1 streams 3 / 5 below their holders 4 / 6 (FORWARD reference: second pass)
      (variant / 4) % 2  FILE order: 0 each holder is written before its stream, 1 after it
      (variant / 8) % 3  family: 0 as described; 1 a second container (members 11, 12) with the OPPOSITE number order
                         (9 / 10) and a third one (13, member 14) with a direct /Length: containers of all three sorts
                         in one file; 2 a holder is itself a MEMBER of another object stream (container 15, direct
                         /Length, members 16 and the holder): (variant / 24) % 2 = 0 the ordinary stream's holder,
                         = 1 the container's holder -/

def memberOf (r : Rng) (num : Nat) : (Nat × Obj × Obj × Ch × Bytes) × Rng :=
  let (v, r) := rndNonNull 2 r
  let v := match v with | .ref a b => Obj.arr [.ref a b] | v => v
  let (sv, r) := shuffleObj v r
  let (ch, r) := rndChoices r 100
  let (gap, r) := rndPad r
  ((num, v, sv, ch, gap), r)

/-- an object-stream container; `holder = 0`: direct /Length -/
def lenContainer (r : Rng) (num holder : Nat) (mems : List (Nat × Obj × Obj × Ch × Bytes)) :
    DObj × List (Nat × Nat × Nat × Obj) × Rng :=
  let (shell, r) := rndShell r num 0
  let (fl, r) := r.nat 2
  let (hp, r) := rndPad r
  let (c, m) := mkContainer num mems (fl == 1) hp { shell with lenRef := (if holder == 0 then none else some holder) }
  (c, m, r)

/-- put file-level object `a` before (`aFirst`) or after object `b` by exchanging their places if needed -/
def orderPair (objs : List DObj) (a b : Nat) (aFirst : Bool) : List DObj :=
  let ia := objs.findIdx (·.num == a)
  let ib := objs.findIdx (·.num == b)
  if ia ≥ objs.length || ib ≥ objs.length then objs
  else if (ia < ib) == aFirst then objs
  else objs.zipIdx.map fun (o, i) => if i == ia then objs[ib]?.getD o else if i == ib then objs[ia]?.getD o else o

/-- the holder as a member of an object stream -/
def holderMember (num len : Nat) : Nat × Obj × Obj × Ch × Bytes := (num, .int len, .int len, [], [32])

structure LenParts where
  objs : List DObj
  mems : List (Nat × Nat × Nat × Obj)
  pairs : List (Nat × Nat)       -- (stream, holder): pairs whose file order is prescribed
  r : Rng

/-- the part with the streams whose /Length is a reference of a `lenc` / `lenh` document; numbers from `b`+3 .. `b`+16 -/
def lenParts (r : Rng) (b : Nat) (fwdNum : Bool) (fam sub : Nat) (withMembers : Bool) : LenParts :=
  let (cN, hN) := if fwdNum then (b + 3, b + 4) else (b + 4, b + 3)
  let (sN, hsN) := if fwdNum then (b + 5, b + 6) else (b + 6, b + 5)
  let (m7, r) := memberOf r (b + 7)
  let (m8, r) := memberOf r (b + 8)
  let (c, cm, r) := lenContainer r cN hN [m7, m8]
  let (s, r) := rndStmObj r sN 0 (some hsN)
  let (h, r) := holderObj r hN (dataLen c)
  let (hs, r) := holderObj r hsN (dataLen s)
  if !withMembers then ⟨[s, hs], [], [(sN, hsN)], r⟩
  else match fam with
  | 0 => ⟨[c, s, h, hs], cm, [(cN, hN), (sN, hsN)], r⟩
  | 1 =>
    let (c2N, h2N) := if fwdNum then (b + 10, b + 9) else (b + 9, b + 10)
    let (m11, r) := memberOf r (b + 11)
    let (m12, r) := memberOf r (b + 12)
    let (c2, cm2, r) := lenContainer r c2N h2N [m11, m12]
    let (h2, r) := holderObj r h2N (dataLen c2)
    let (m14, r) := memberOf r (b + 14)
    let (c3, cm3, r) := lenContainer r (b + 13) 0 [m14]
    ⟨[c, s, h, hs, c2, h2, c3], cm ++ cm2 ++ cm3, [(cN, hN), (sN, hsN), (c2N, h2N)], r⟩
  | _ =>
    let (m16, r) := memberOf r (b + 16)
    if sub == 0 then
      let (d, dm, r) := lenContainer r (b + 15) 0 [m16, holderMember hsN (dataLen s)]
      ⟨[c, s, h, d], cm ++ dm, [(cN, hN)], r⟩
    else
      let (d, dm, r) := lenContainer r (b + 15) 0 [holderMember hN (dataLen c), m16]
      ⟨[c, s, hs, d], cm ++ dm, [(sN, hsN)], r⟩

def lencFam (variant : Nat) : Nat := (variant / 8) % 3
def lencSub (variant : Nat) : Nat := (variant / 24) % 2

def genLenC (seed variant : Nat) : Scene :=
  let r := Rng.mk' (seed * 9973 + variant * 37 + 5)
  let kind := 1 + variant % 2
  let fwdNum := (variant / 2) % 2 == 1
  let after := (variant / 4) % 2 == 1
  let (garbage, r) := rndGarbage r
  let (bin, r) := r.nat 2
  let (p1, r) := rndValObj r 1 0
  let (p2, r) := rndValObj r 2 0
  let lp := lenParts r 0 fwdNum (lencFam variant) (lencSub variant) true
  let (objs, r) := shuffleL ([p1, p2] ++ lp.objs) lp.r
  let objs := lp.pairs.foldl (fun objs p => orderPair objs p.2 p.1 (!after)) objs
  let (lay, _) := rndLay r kind 20 65535
  ⟨garbage, bin == 1, [({ objs, members := lp.mems, frees := [], zero := true, root := (1, 0), lay }, .auto)], some [0]⟩

/-- is this file-level object an object-stream container? -/
def isContainer (o : DObj) : Bool :=
  match o.body with
  | .stm es _ => es.any fun e => e.1 == bs "Type" && (match e.2 with | .name n => n == bs "ObjStm" | _ => false)
  | _ => false

/-- the streams (container?, holder number) of a scene that take their /Length from an object that is - in the newest
    revision mentioning it - a MEMBER of an object stream -/
def holdersInObjStm (sc : Scene) : List (Bool × Nat) :=
  let rs := sc.revs.map (·.1)
  let newestIsMember (h : Nat) : Bool :=
    match (rs.reverse.find? fun r => (mentions r).any fun x => x.1 == h) with
    | some r => r.members.any fun m => m.1 == h
    | none => false
  rs.flatMap fun r => r.objs.filterMap fun o =>
    match o.lenRef with
    | some h => if newestIsMember h then some (isContainer o, h) else none
    | none => none

/-- `lenc` / `lenh`: the oracle is `resolve`, with two exceptions decided on the CASE: (a) a CONTAINER whose own
    /Length lives in an object stream is not a well-formed document (ISO 32000-1 7.5.7: "an object representing the
    value of the Length entry in an object stream dictionary" shall not be stored in an object stream): rejected or the
    exact load; (b) an ORDINARY stream whose /Length lives in an object stream is well formed, and refused by
    parse_objects (object streams are opened after both passes): known class `length-holder-in-objstm`, reported only
    for a case of that shape that is REJECTED - accepted with a wrong load is `wrong-load` as everywhere. -/
def judgeLen (sc : Scene) (hex impl : String) : String :=
  let v := judgeScene sc hex impl
  if impl.trimAscii.toString == "rejected" && v.startsWith "bad " && sc.chain.isSome then
    let hs := holdersInObjStm sc
    if hs.any (·.1) then "ok"
    else if !hs.isEmpty then "bad length-holder-in-objstm rejected"
    else v
  else v

/-! ### documents and histories that declare encryption (`/Encrypt`)

    The encoder is `DocSpec.renderHistoryE` (Spec/DocEnc.lean: `renderHistory` with an optional declaration per
    revision, equal to it when there is none).  Two declarative rules are evaluated on the chain of the case:
    `DocSpec.acceptable` (what C03 / C04 allow) and `DocSpec.asBuilt` (the order rule of pdf_traverse_xref.rs).  The expected
    output is computed from `resolve` over what the encoder wrote; the loader model is never called. -/

structure EncScene where
  garbage : Bytes
  binary : Bool
  revs : List (Rev × Option EncDecl × PrevMode)
  chain : List Nat               -- indices of the revisions on the /Prev chain, oldest first
deriving Inhabited

def renderE (sc : EncScene) : Bytes × List Nat × Nat × List Said := renderHistoryE sc.garbage sc.binary sc.revs

/-- the value of an /Encrypt entry: a reference (to an existing or to an unused number) or a direct dictionary
    (entries in key order, as the reader reports them) -/
def rndEncVal (r : Rng) (top : Nat) : Obj × Rng :=
  let (c, r) := r.nat 3
  if c == 0 then
    let (a, r) := r.nat 5
    let (b, r) := r.nat 200
    (.dict [(bs "Length", .int (Int.ofNat (40 + b))), (bs "R", .int (Int.ofNat (a + 2))), (bs "V", .int (Int.ofNat (a + 1)))], r)
  else
    let (n, r) := r.nat (top + 2)
    (.ref (n + 1) 0, r)

/-- the sections on the chain, NEWEST FIRST, as the rules see them -/
def encSecs (sc : EncScene) : List SecView :=
  (sc.chain.filterMap fun i => (sc.revs[i]?).map fun (r, e, _) => secView r e).reverse

/-- the expected output under a rule -/
def expectedEnc (sc : EncScene) (rule : List SecView → Verdict) : String :=
  let (_, _, _, saids) := renderE sc
  let on : List (Rev × Said) := sc.chain.filterMap fun i =>
    match sc.revs[i]?, saids[i]? with
    | some (r, _, _), some s => some (r, s)
    | _, _ => none
  let out (ss : List Said) : String :=
    match resolve ss with
    | (defs, some root) => s!"ok {root.1} {root.2}" ++ showDefs defs
    | (_, none) => "rejected"
  match rule (encSecs sc) with
  | .reject => "rejected"
  | .loadAll => out (on.map (·.2))
  | .loadWithoutMembers =>
    out (on.map fun (r, s) => { s with written := s.written.filter fun w => !(r.members.any fun m => (m.1, 0) == w.1) })

/-- `ok` = an outcome the statements allow for this case (DocSpec.acceptable): refusal when the chain declares, or
    exactly the objects `resolve` says.  Anything else is `bad`; the known class `encrypt-declared-below-streams` is
    reported ONLY when the case is of that shape (decided on the CASE: the as-built rule ends with the flag up) and the
    output is exactly what that rule predicts (accepted, every object-stream member missing). -/
def judgeEnc (sc : EncScene) (hex impl : String) : String :=
  let (bytes, _, _, _) := renderE sc
  if hexOfBytes bytes != hex then "bad generator-mismatch the case does not re-derive from its seed"
  else
    let secs := encSecs sc
    let exact := expectedEnc sc (fun _ => .loadAll)
    let built := expectedEnc sc asBuilt
    let got := impl.trimAscii.toString
    if got.startsWith "panic" || got.startsWith "crash" || got.startsWith "hang" then s!"bad panic-or-crash {got.take 80}"
    else if got == exact then "ok"
    else if got == "rejected" then (if acceptable secs .reject then "ok" else "bad wellformed-rejected rejected")
    else if asBuilt secs == .loadWithoutMembers && got == built then
      s!"bad encrypt-declared-below-streams accepted without the object-stream members: want={(exact.take 60)}"
    else s!"bad wrong-load want={(exact.take 300)}"

/-- C03: one revision.  variant%4: 0 classic table, 1 cross-reference stream, 2/3 hybrid; hybrid placement
    (variant/4)%3: trailer, stream dictionary, both -/
def genEncDoc (seed variant : Nat) : EncScene :=
  let r := Rng.mk' (seed * 15485863 + variant * 29 + 7)
  let kind := match variant % 4 with | 0 => 0 | 1 => 1 | _ => 2
  let place := (variant / 4) % 3
  let (garbage, r) := rndGarbage r
  let (bin, r) := r.nat 2
  let (rev, g) := rndBase ⟨r, 1, []⟩ kind 65535
  let (v, _) := rndEncVal g.r g.next
  let d : EncDecl := match kind with
    | 0 => ⟨v, true, place == 1⟩
    | 1 => ⟨v, place == 1, true⟩
    | _ => ⟨v, place != 1, place != 0⟩
  ⟨garbage, bin == 1, [(rev, some d, .auto)], [0]⟩

/-! ### SIZE SWEEP of the bytes around a document (`garb`; histories: `garh` in Driver/C04.lean)

    The statement of C03 lets ANY amount of bytes stand before the header; its end-to-end theorems (ClassicFile,
    XrefStreamFile, HybridFile: fields `garbage`, `gap`, `trail`) also let anything stand between the last
    cross-reference section and `startxref` and after the last `%%EOF`.  Every length of `sweepSizes` is put at each of
    the three places of a well-formed document of every layout; the oracle is `DocSpec.resolve` of the document - the
    filler changes nothing - and the header offset an accepted load reports must be the length of the leading filler. -/

/-- every length 0..40, the neighbourhoods of the powers of two up to 2^16, of 1000 and of 1024 (minus the 5 bytes
    of the magic: 1019, 1020, 1021), some large ones -/
def sweepSizes (tier : String) : List Nat :=
  List.range 41 ++ [63, 64, 65, 127, 128, 255, 256, 511, 512, 1000, 1019, 1020, 1021, 1023, 1024, 1025, 2047, 2048,
    4095, 4096, 4097, 8192, 65535, 65536, 70000] ++ (if tier == "thorough" then [1000000] else [])

/-- the document of a `garb` case, written without anything around it: variant % 4 = 0, 1, 2: the purpose-built document
    of the `sys` cases (plain objects, streams with direct / backward / FORWARD referenced /Length, an object stream
    where the layout has one) as a classic table / cross-reference stream / hybrid file; 3: a random document of the
    `doc` family (layout (variant / 4) % 6) -/
def garbBase (seed variant : Nat) : Scene :=
  let sc := if variant % 4 == 3 then genDoc seed ((variant / 4) % 6) else genSys seed (variant % 4) 8
  { sc with garbage := [] }

/-- the bytes the model may be asked to read (its scans recurse once per byte: stack) -/
def garbModelMax : Nat := 100000

structure GarbCase where
  seed : Nat
  variant : Nat
  lk : Nat
  ll : Nat
  gk : Nat
  gl : Nat
  tk : Nat
  tl : Nat

def garbLine (tag : String) (doc : Bytes) (c : GarbCase) : String :=
  s!"{tag} {hexOfBytes doc} {c.seed} {c.variant} {c.lk} {c.ll} {c.gk} {c.gl} {c.tk} {c.tl}" ++
    (if doc.length + c.ll + c.gl + c.tl > garbModelMax then " o" else "")

def pickKind (kinds : List Nat) (i : Nat) : Nat := kinds[i % kinds.length]?.getD 0

/-- the sweep: for every size (index `i`) and every base document `v` of `variants` one case per place, the filler kind
    rotating with i + v + seed; and one case per size with all three places filled (sizes up to 8192) -/
def garbSweep (seed : Nat) (tier : String) (variants : List Nat) : List GarbCase :=
  let sizes := sweepSizes tier
  let small := sizes.filter (· ≤ 8192)
  sizes.zipIdx.flatMap fun (len, i) =>
    let s := seed * 1009 + i
    (variants.flatMap fun v =>
      let k := i + v + seed
      [ ⟨s, v, pickKind leadKinds k, len, 0, 0, 0, 0⟩,
        ⟨s, v, 0, 0, pickKind gapKinds k, len, 0, 0⟩,
        ⟨s, v, 0, 0, 0, 0, pickKind tailKinds k, len⟩ ]) ++
    (if len ≤ 8192 then
      let v := variants[i % variants.length]?.getD 0
      [ ⟨s, v, pickKind leadKinds (i + seed + 1), len,
         pickKind gapKinds (i + seed + 2), small[(i * 7 + 3) % small.length]?.getD 0,
         pickKind tailKinds (i + seed + 3), small[(i * 11 + 5) % small.length]?.getD 0⟩ ]
    else [])

/-- `garb` / `garh`: the document re-derives from (seed, variant) and renders to word 2; the filler kinds are legal at
    their places; expected = `resolve` of the document, reported header offset = length of the leading filler -/
def judgeGarb (sc : Scene) (hex : String) (lk ll tk : Nat) (impl : String) : String :=
  let got := impl.trimAscii.toString
  if got == "nomodel" then "skip"                                   -- (the model's side of an oracle-only case)
  else if !sc.garbage.isEmpty || !leadKinds.contains lk || !tailKinds.contains tk then
    "bad generator-mismatch filler kind not allowed at its place"
  else
    let (main, hofs) : String × Option String :=
      match got.splitOn " @" with
      | [m, a] => (m, some a)
      | _ => (got, none)
    let v := judgeScene sc hex main
    if v != "ok" then v
    else if main == "rejected" then "ok"
    else if hofs == some (toString ll) then "ok"
    else s!"bad wrong-header-offset reported {hofs.getD "-"} want {ll}"

/-! ### TIGHTLY PACKED object streams (`pack`; histories: `packh` in Driver/C04.lean)

    `DocSpec.mkContainer` writes a space after every member and a one-space header.  Here the container is laid out by
    hand (same dictionary, same meaning): seven members, one of every kind - dictionary, array, string, name, integer,
    real, boolean - in an order that brings every kind behind every other; between consecutive members
      sepMode 0  NOTHING wherever the two spellings allow it (`Spelling.endsRegular` / `startsRegular`: the predecessor
                 ends in a delimiter `>>` `]` `)` `>` or the successor starts with one), else one space
              1  one space      2  one newline      3  a comment and its end of line      4  a long run (blanks, NUL, form
              feed, CR LF, a comment)      5  all of these in turn
    the declared offset of a member is its first byte, or (`ofsAtSep`) the END OF ITS PREDECESSOR (the separator then is
    leading white space of the member: offset = cursor after the previous object even with a separator);
      slack 0  one white-space byte between the header and /First, the first member exactly at /First
            1  NO byte between the last header number and /First when the first member starts with a delimiter
            2  a long run with a comment before /First      3  white space after /First: the first offset is not 0
      tail  0  the data ends with the last byte of the last member    1  one space    2  newline, blanks, newline
      hdr   0  `id ofs id ofs` with single spaces    1  one pair per line    2  leading zeros (`007 00`)    3  long mixed runs
    optionally FlateDecode'd.  Oracle: DocSpec.resolve - every member is defined with its value. -/

def objKind : Obj → Nat
  | .dict _ => 0
  | .arr _ => 1
  | .str _ => 2
  | .name _ => 3
  | .int _ => 4
  | .real _ _ => 5
  | .bool _ => 6
  | _ => 7

/-- a random value of the wanted kind (canonical form, form to spell) -/
def memberOfKind (r : Rng) (k : Nat) : (Obj × Obj) × Rng :=
  let fallback : Obj := match k with
    | 0 => .dict [(bs "K", .int 1)]
    | 1 => .arr [.int 1, .name (bs "N")]
    | 2 => .str (bs "s(")
    | 3 => .name (bs "Nm")
    | 4 => .int (-17)
    | 6 => .bool true
    | _ => .int 3
  let (found, r) := (List.range 40).foldl (fun (acc : Option Obj × Rng) _ =>
    match acc.1 with
    | some _ => acc
    | none => let (v, r) := rndNonNull 2 acc.2; (if objKind v == k then some v else none, r)) (none, r)
  let v := found.getD fallback
  let (sv, r) := shuffleObj v r
  ((v, sv), r)

def packSep (mode : Nat) : Bytes :=
  match mode with
  | 1 => [32]
  | 2 => [10]
  | 3 => bs "%c\n"
  | 4 => [32, 0, 12, 9, 13, 10] ++ bs "% x y\r\n  "
  | _ => []

structure PackLay where
  sepMode : Nat
  ofsAtSep : Bool
  slack : Nat
  tail : Nat
  hdr : Nat
  flate : Bool
  step : Nat          -- order of the kinds: member i has kind (i * step + rot) % 7
  rot : Nat := 0      -- kind of the FIRST member (variants from 288 on; 0 = a dictionary, as in every variant below 288)
  digitFirst : Bool := false   -- the first member's spelling starts with a DIGIT (redrawn until it does)

/-- data, /First and the members' (number, value) of a packed object stream -/
def packData (r : Rng) (nums : List Nat) (l : PackLay) : Bytes × Nat × List (Nat × Obj) × Rng :=
  -- spellings
  let (ms, r) := nums.zipIdx.foldl (fun (acc : List (Nat × Obj × Bytes) × Rng) (n, i) =>
    let kind := (i * l.step + l.rot) % 7
    if l.digitFirst && i == 0 then
      let (found, r) := (List.range 40).foldl (fun (a : Option (Obj × Bytes) × Rng) _ =>
        match a.1 with
        | some _ => a
        | none =>
          let ((v, sv), r) := memberOfKind a.2 kind
          let (ch, r) := rndChoices r 60
          let body := (spell sv ch).1
          (if (body.head?.map fun b => decide (48 ≤ b ∧ b ≤ 57)) == some true then some (v, body) else none, r)) (none, acc.2)
      let (v, body) := found.getD (.int 7, bs "7")
      (acc.1 ++ [(n, v, body)], r)
    else
    let ((v, sv), r) := memberOfKind acc.2 kind
    let (ch, r) := rndChoices r 60
    (acc.1 ++ [(n, v, (spell sv ch).1)], r)) ([], r)
  -- content: (number, offset) pairs
  let gap0 : Bytes := match l.slack with | 3 => [32, 10, 32] | 5 => [10, 32] | 6 => [32] | _ => []
  let (content, pairs, _) := ms.zipIdx.foldl (fun (acc : Bytes × List (Nat × Nat) × Bytes) (m, i) =>
    let (content, pairs, prev) := acc
    let body := m.2.2
    if i == 0 then (content ++ body, pairs ++ [(m.1, content.length)], body)
    else
      let mode := if l.sepMode == 5 then i % 5 else l.sepMode
      let sep := packSep mode
      let sep := if sep.isEmpty && endsRegular prev && startsRegular body then [32] else sep
      let ofs := if l.ofsAtSep then content.length else content.length + sep.length
      (content ++ sep ++ body, pairs ++ [(m.1, ofs)], body)) (gap0, [], [])
  let tail : Bytes := match l.tail with | 0 => [] | 1 => [32] | _ => [10, 32, 32, 10]
  -- header
  let num (n : Nat) (k : Nat) : Bytes := (if l.hdr == 2 then zeros (1 + k % 2) else []) ++ natDigits n
  let hdr : Bytes := pairs.zipIdx.flatMap fun (p, i) =>
    let pre : Bytes := if i == 0 then (if l.hdr == 3 then [10, 32] else []) else
      match l.hdr with | 1 => [10] | 3 => [32, 13, 10, 9] | _ => [32]
    let mid : Bytes := if l.hdr == 3 then [32, 32, 10] else [32]
    pre ++ num p.1 i ++ mid ++ num p.2 (i + 1)
  let firstBody := (ms.head?.map (·.2.2)).getD []
  let pad : Bytes := match l.slack with
    | 1 => if gap0.isEmpty && !startsRegular firstBody then [] else [32]
    | 2 => [32, 10] ++ bs "% 99 0 (not a pair)\n" ++ [9]
    | 4 => []          -- the header ENDS exactly at /First: the last offset abuts the first member, whatever it starts with
    | 5 => [32]        -- /First points INTO the white space after the header (one byte in; two more follow)
    | 6 => []          -- /First = end of the last header number, white space FOLLOWS /First (first offset 1)
    | _ => if l.hdr == 1 then [10] else [32]
  (hdr ++ pad ++ content ++ tail, (hdr ++ pad).length, ms.map fun m => (m.1, m.2.1), r)

/-- the container object and the members' cross-reference data -/
def packContainer (r : Rng) (num : Nat) (nums : List Nat) (l : PackLay) : DObj × List (Nat × Nat × Nat × Obj) × Rng :=
  let (data, first, ms, r) := packData r nums l
  let (shell, r) := rndShell r num 0
  let payload := if l.flate then FiltersSpec.zlibStored [data] else data
  let ents : List (Bytes × Obj) :=
    [(bs "Type", .name (bs "ObjStm")), (bs "N", .int ms.length), (bs "First", .int first)] ++
    (if l.flate then [(bs "Filter", .name (bs "FlateDecode"))] else [])
  ({ shell with body := .stm ents payload }, ms.zipIdx.map fun (m, k) => (m.1, num, k, m.2), r)

def packLayOf (variant : Nat) : PackLay :=
  { sepMode := (variant / 2) % 6, ofsAtSep := (variant / 12) % 2 == 1, slack := (variant / 24) % 4, tail := (variant / 96) % 3,
    hdr := (variant + variant / 7) % 4, flate := (variant / 3) % 2 == 1, step := 1 + (variant / 7) % 6 }

/-- `pack` variants 288 ..: THE HEADER ENDS EXACTLY AT /First.  The header is the first /First bytes of the decoded data and
    nothing else (ISO 32000-1 7.5.7: /First = offset of the first member; the pairs are read from the bytes before it), so
    the last offset may be followed DIRECTLY by the first member even when that member starts with a digit: data
    `4 0 5 27 (x)` with /N 2 /First 7 is pairs (4,0) (5,2) and members `7`, `(x)` - a reader that parses the pairs on the
    whole data reads the last offset as 27.
      N      1 (the only offset abuts), 2, 7
      slack  4  no byte between the last header number and /First (= length of the pair list), first member at /First
             5  /First points INTO the white space after the header (one byte in, two more follow: first offset 2)
             6  /First = end of the last header number, white space follows (first offset 1)
      first member  one of every kind (dictionary, array, string, name, integer, real, boolean as drawn) and, twice,
             an integer / a real whose spelling STARTS WITH A DIGIT (redrawn until it does)
    x two mixes of header style (incl. leading zeros, one pair per line), FlateDecode, separators, offset convention, tail.
    A reference is not used as a member value (the writer never stores one; `7 0 R` at top level of a member is legal
    but says nothing more than the digit-leading integer).  Oracle as for every `pack` case: every member is defined with
    its value. -/
def packLayX (j : Nat) : PackLay :=
  let fk := (j / 9) % 9
  let alt := (j / 81) % 2
  { sepMode := (j / 2) % 6, ofsAtSep := (j / 5) % 2 == 1, slack := 4 + (j / 3) % 3, tail := (j / 7) % 3,
    hdr := (j + alt * 2 + j / 9) % 4, flate := (j / 3 + alt) % 2 == 1, step := 1 + (j / 11) % 6,
    rot := if fk == 7 then 4 else if fk == 8 then 5 else fk, digitFirst := fk ≥ 7 }

def packXVariants : Nat := 162

/-- variants 0 .. 287 cover layout x separator mode x offset convention x slack x tail; 288 .. 449 = `packLayX` -/
def packVariants : Nat := 288 + packXVariants

def genPack (seed variant : Nat) : Scene :=
  let r := Rng.mk' (seed * 7243 + variant * 19 + 4)
  let kind := 1 + variant % 2
  let (garbage, r) := rndGarbage r
  let (bin, r) := r.nat 2
  let (p1, r) := rndValObj r 1 0
  let (p2, r) := rndValObj r 2 0
  let nums : List Nat := if variant < 288 then [11, 12, 13, 14, 15, 16, 17] else
    match (variant - 288) % 3 with | 0 => [11] | 1 => [11, 12] | _ => [11, 12, 13, 14, 15, 16, 17]
  let (c, ms, r) := packContainer r 20 nums (if variant < 288 then packLayOf variant else packLayX (variant - 288))
  let (objs, r) := shuffleL [p1, p2, c] r
  let (lay, _) := rndLay r kind 30 65535
  ⟨garbage, bin == 1, [({ objs, members := ms, frees := [], zero := true, root := (1, 0), lay }, .auto)], some [0]⟩

/-! ### identity mismatch by RETARGETING (`ret`; over histories: `reth` in Driver/C04.lean)

    The `mism` / `sys` corruptions exchange the offsets of two entries or list an object under another number: every
    offset still occurs once.  Here ONE entry - of object B - is aimed somewhere else while every other entry stays
    correct, so that (target `own`) two entries carry the SAME offset: B's entry and the entry of the object A that is
    really written there.  Targets: the offset A's own entry carries (`own`), the other legal offset of A (start of its
    padding / first digit of its number: `alt`), one byte into A's number (`inside`), A's `endobj` keyword, the
    cross-reference section itself (`xref` keyword / the cross-reference stream object), the /XRefStm stream object of a
    hybrid file, the header (offset 0: the header line is a comment, the first object of the file is found).  B is an
    object of the file (its own object is still written, no entry points at it any more) or a number no object carries
    (an entry is ADDED).  Every ordered pair (A, B) of file-level objects occurs, so both walk orders do (the loader
    walks a section in number order: A before B and B before A); in hybrid files the entries of A and of B are each
    written into the table or into the /XRefStm stream (table entries are walked first).  All of these must be
    REJECTED: the object found at the offset carries another identifier than the entry (or no object is found).  That
    the case is a mismatch is decided from the BYTES by `DocSpec.headerAt` (the identifier spelled at the offset is not
    B's), never by the loader model; a control (`none`: nothing retargeted, same placement) must load exactly.

    The encoder `renderRevT` is `DocSpec.renderRev` with two more parameters (it is equal to it for the empty `Tweak`);
    it lives here because Spec/Doc.lean is the subject of the generator-link theorems. -/

/-- entries set (or added) after the encoder computed them, and - hybrid - the numbers whose in-use entry is written
    into the /XRefStm stream instead of the table -/
structure Tweak where
  ents : List (Nat × Nat × Nat) := []       -- (number, generation, offset)
  toStream : List Nat := []
deriving Inhabited, BEq

/-- where an object was written -/
structure Place where
  num : Nat
  gen : Nat
  ofs : Nat        -- the offset its own entry carries
  padAt : Nat      -- start of its padding
  numAt : Nat      -- first digit of its object number
  endAt : Nat      -- its `endobj` keyword
deriving Inhabited

/-- where a revision put things -/
structure RevMap where
  objs : List Place
  sect : Nat       -- what `startxref` / a newer /Prev names: `xref` keyword or cross-reference stream object
  stm : Nat        -- hybrid: the /XRefStm stream object (otherwise = sect)
deriving Inhabited

def objPlaces : List DObj → Nat → List Place
  | [], _ => []
  | o :: t, pos =>
    let (b, ofs, _) := renderObj o pos
    ⟨o.num, o.gen, ofs, pos, pos + o.pad.length, pos + b.length - 7⟩ :: objPlaces t (pos + b.length)

def setEnts (ents : List (Nat × Nat × Nat)) (us : List (Nat × Nat × Nat)) : List (Nat × Nat × Nat) :=
  ents.foldl (fun us e => if us.any (·.1 == e.1) then us.map (fun u => if u.1 == e.1 then e else u) else us ++ [e]) us

/-- `DocSpec.renderRev` with a `Tweak` -/
def renderRevT (r : Rev) (t : Tweak) (pos : Nat) (prev : Option Nat) : Bytes × Nat × Said × RevMap :=
  let lay := r.lay
  let (body, us0, vals) := renderObjs r.objs pos
  let places := objPlaces r.objs pos
  let us := setEnts t.ents (relabelUse lay.relabel (swapOfs lay.swap us0))
  let p1 := pos + body.length
  let uses : List XE := us.map fun u => ⟨u.1, 1, u.2.2, u.2.1⟩
  let mems : List XE := r.members.map fun m => ⟨m.1, 2, m.2.1, m.2.2.1⟩
  let frees : List XE := (if r.zero then [⟨0, 0, 0, 65535⟩] else []) ++ r.frees.map fun f => ⟨f.1, 0, 0, f.2⟩
  let memVals : List (DocSpec.ObjId × Obj) := r.members.map fun m => ((m.1, 0), m.2.2.2)
  let maxNum := maxOf ((uses ++ mems ++ frees).map (·.num) ++ [lay.xnum])
  let freed := r.frees.map (·.1)
  -- the entry of the cross-reference stream object itself (unless a tweak sets it)
  let self : List XE := if t.ents.any (·.1 == lay.xnum) then [] else [⟨lay.xnum, 1, p1, 0⟩]
  match lay.kind with
  | 0 =>
    let es := sortXE (uses ++ frees)
    let table := XrefSpec.encTable (tableSubs lay es)
    let tr : List (Bytes × Bytes) := rotate
      ([(bs "Size", natDigits (maxNum + 1)), (bs "Root", refBytes r.root)] ++
       (match prev with | some p => [(bs "Prev", pad10 p)] | none => [])) lay.dictOrder
    let (w, c) := wsOpt lay.ch
    let (d, c) := spellRaw tr c
    (body ++ table ++ bs "trailer" ++ w ++ bs "<<" ++ d ++ [10] ++ tailBytes p1 c, p1, ⟨vals, freed, r.root⟩, ⟨places, p1, p1⟩)
  | 1 =>
    let es := sortXE (uses ++ mems ++ frees ++ self)
    let (xb, xv) := renderXrefStream lay p1 es (maxNum + 1) (some r.root) prev
    (body ++ xb ++ tailBytes p1 lay.ch, p1, ⟨vals ++ memVals ++ [((lay.xnum, 0), xv)], freed, r.root⟩, ⟨places, p1, p1⟩)
  | _ =>
    let inStm := uses.filter fun e => t.toStream.contains e.num
    let inTab := uses.filter fun e => !t.toStream.contains e.num
    let (xb, xv) := renderXrefStream { lay with omitIndex := false } p1 (sortXE (mems ++ inStm)) (maxNum + 1) none none
    let p2 := p1 + xb.length
    let hidden : List XE := r.members.map fun m => ⟨m.1, 0, 0, lay.hiddenGen⟩
    let es := sortXE (inTab ++ frees ++ hidden ++ self)
    let table := XrefSpec.encTable (tableSubs lay es)
    let tr : List (Bytes × Bytes) := rotate
      ([(bs "Size", natDigits (maxNum + 1)), (bs "Root", refBytes r.root), (bs "XRefStm", natDigits p1)] ++
       (match prev with | some p => [(bs "Prev", pad10 p)] | none => [])) lay.dictOrder
    let (w, c) := wsOpt lay.ch
    let (d, c) := spellRaw tr c
    (body ++ xb ++ table ++ bs "trailer" ++ w ++ bs "<<" ++ d ++ [10] ++ tailBytes p2 c, p2,
     ⟨vals ++ memVals ++ [((lay.xnum, 0), xv)], freed, r.root⟩, ⟨places, p2, p1⟩)

def renderRevsT : List (Rev × Tweak) → Nat → List Nat → Bytes × List RevMap × List Said
  | [], _, _ => ([], [], [])
  | (r, t) :: rest, pos, xs =>
    let (b, x, said, m) := renderRevT r t pos xs.getLast?
    let (bt, ms, saids) := renderRevsT rest (pos + b.length) (xs ++ [x])
    (b ++ bt, m :: ms, said :: saids)

/-- the file for a history whose revisions carry tweaks (every /Prev automatic) -/
def renderHistoryT (garbage : Bytes) (binary : Bool) (revs : List (Rev × Tweak)) : Bytes × List RevMap × List Said :=
  let h := header binary
  let (b, ms, saids) := renderRevsT revs h.length []
  (garbage ++ h ++ b, ms, saids)

inductive Target where
  | none                 -- control: nothing is retargeted
  | own (a : Nat)        -- the offset the entry of object `a` carries
  | alt (a : Nat)        -- the other legal offset of `a` (start of its padding / first digit of its number)
  | inside (a : Nat)     -- one byte into the number of `a`
  | endobj (a : Nat)     -- the `endobj` keyword of `a`
  | sect                 -- the cross-reference section of revision `aRev`
  | stm                  -- the /XRefStm stream object of revision `aRev` (= sect unless hybrid)
  | header               -- offset 0
deriving Inhabited, BEq, Repr

/-- a history in which the entry of `b`, written in the section of revision `bRev`, is aimed at `target` in revision `aRev` -/
structure RetCase where
  garbage : Bytes
  binary : Bool
  revs : List Rev
  bRev : Nat
  b : Nat × Nat
  aRev : Nat
  target : Target
  toStream : List (List Nat)       -- per revision
  exact : Bool                     -- the retargeted entry does not count (control / shadowed by a newer entry): must load exactly
deriving Inhabited

def targetOfs (rc : RetCase) (maps : List RevMap) : Option Nat :=
  let m := maps[rc.aRev]?.getD default
  let pl (a : Nat) : Place := (m.objs.find? (·.num == a)).getD default
  match rc.target with
  | .none => Option.none
  | .own a => some (pl a).ofs
  | .alt a => let p := pl a; some (if p.ofs == p.numAt then p.padAt else p.numAt)
  | .inside a => some ((pl a).numAt + 1)
  | .endobj a => some (pl a).endAt
  | .sect => some m.sect
  | .stm => some m.stm
  | .header => some 0

def tweaksOf (rc : RetCase) (maps : List RevMap) : List Tweak :=
  rc.revs.zipIdx.map fun (_, i) =>
    let ts := rc.toStream[i]?.getD []
    if i == rc.bRev then
      match targetOfs rc maps with
      | some o => ⟨[(rc.b.1, rc.b.2, o)], ts⟩
      | Option.none => ⟨[], ts⟩
    else ⟨[], ts⟩

/-- Offsets of LATER revisions are not known while an earlier section is written, and the width of an offset field
    of a cross-reference stream depends on the offsets: render with the offsets of the previous rendering until
    nothing moves (a classic table needs one round).  Returns the bytes, the Saids, the offset written into the entry
    and whether the rendering is stable. -/
def renderRet (rc : RetCase) : Bytes × List Said × Option Nat × Bool :=
  let go (ts : List Tweak) := renderHistoryT rc.garbage rc.binary (rc.revs.zip ts)
  let t0 := tweaksOf rc []
  let (_, m0, _) := go t0
  let t1 := tweaksOf rc m0
  let (b1, m1, s1) := go t1
  let t2 := tweaksOf rc m1
  if t2 == t1 then (b1, s1, targetOfs rc m1, true)
  else
    let (b2, m2, s2) := go t2
    let t3 := tweaksOf rc m2
    if t3 == t2 then (b2, s2, targetOfs rc m2, true)
    else
      let (b3, m3, s3) := go t3
      (b3, s3, targetOfs rc m3, tweaksOf rc m3 == t3)

/-- is the case what it claims to be?  Decided on the BYTES: the identifier spelled at the offset the entry carries
    (`DocSpec.headerAt`: after optional white space / comments `n g obj`) is not the entry's, or nothing is spelled there -/
def retIsMismatch (rc : RetCase) (bytes : Bytes) (ofs : Nat) : Bool :=
  headerAt (bytes.drop rc.garbage.length) ofs != some rc.b

def retExpected (rc : RetCase) (saids : List Said) : String :=
  if !rc.exact then "rejected"
  else match resolve saids with
    | (defs, some root) => s!"ok {root.1} {root.2}" ++ showDefs defs
    | (_, Option.none) => "rejected"

/-- a `ret` / `reth` case is emitted only when its rendering is stable and it is a mismatch (or a control) -/
def retUsable (rc : RetCase) : Option Bytes :=
  let (bytes, _, ofs, stable) := renderRet rc
  if !stable then Option.none
  else match ofs with
    | Option.none => if rc.exact then some bytes else Option.none
    | some o => if rc.exact || retIsMismatch rc bytes o then some bytes else Option.none

/-- Known finding `xrefstm-self-entry-unchecked` - the SHAPE, decided on the case: the retargeted entry is the row a
    cross-reference stream object has for ITSELF (the section's own stream; hybrid: the /XRefStm stream object, whose row
    stands in the table or in that stream).  parse_objects skips entries of identifiers that are already registered, and
    these objects are registered while the chain is walked: the row is never compared with what is written at its offset. -/
def isSelfRow (rc : RetCase) : Bool :=
  match rc.revs[rc.bRev]? with
  | some r => r.lay.kind != 0 && rc.b == (r.lay.xnum, 0)
  | Option.none => false

def judgeRet (rc : RetCase) (hex impl : String) (wrongWord : String) : String :=
  let (bytes, saids, ofs, stable) := renderRet rc
  if hexOfBytes bytes != hex then "bad generator-mismatch the case does not re-derive from its seed"
  else if !stable then "bad generator-mismatch the rendering is not stable"
  else if !rc.exact && !(match ofs with | some o => retIsMismatch rc bytes o | Option.none => false) then
    "bad generator-mismatch the entry's offset spells the entry's own identifier"
  else
    let want := retExpected rc saids
    let got := impl.trimAscii.toString
    if got == want then "ok"
    else if got.startsWith "panic" || got.startsWith "crash" || got.startsWith "hang" then s!"bad panic-or-crash {got.take 80}"
    else if want == "rejected" then
      -- the known class: exactly that shape AND exactly the outcome "loads as if the row were correct"
      if isSelfRow rc && got == retExpected { rc with exact := true } saids then
        "bad xrefstm-self-entry-unchecked accepted: the row of a cross-reference stream object for itself is never compared with its offset"
      else "bad accepted-but-must-reject"
    else if got == "rejected" then "bad wellformed-rejected rejected"
    else s!"bad {wrongWord} want={(want.take 300)}"

/-- one `ret` case: layout, A, B, target selector (0 own, 1 alt, 2 inside, 3 endobj, 4 sect, 5 header, 6 /XRefStm
    stream, 7 control), hybrid placement (bit 0: A's entry in the /XRefStm stream, bit 1: B's) -/
structure RetSel where
  kind : Nat
  a : Nat
  b : Nat
  tsel : Nat
  place : Nat

def targetOfSel (tsel a : Nat) : Target :=
  match tsel with
  | 0 => .own a
  | 1 => .alt a
  | 2 => .inside a
  | 3 => .endobj a
  | 4 => .sect
  | 5 => .header
  | 6 => .stm
  | _ => .none

/-- the file-level objects of the `sys` document (see `genSys`): 1, 2 plain; 3 stream with a direct /Length; 4 holder of stream
    5 (backward); 7, 9 streams with holders 8, 10 (forward: second pass); 13 object-stream container (stream layouts) -/
def retNums (kind : Nat) : List Nat := [1, 2, 3, 4, 5, 7, 8, 9, 10] ++ (if kind == 0 then [] else [13])

/-- numbers no object carries: between the others / above all -/
def retAbsent : List Nat := [6, 20]

/-- every case of the family (the same for every seed; the seed picks spellings, padding, file order, table layout) -/
def retSels : List RetSel :=
  [0, 1, 2].flatMap fun kind =>
    let f := retNums kind
    let places := if kind == 2 then [0, 1, 2, 3] else [0]
    let bs5 := [1, 3, 7, 6, 20]
    -- every ordered pair, B's own object present or absent
    (f.flatMap fun a => (f.filter (· != a) ++ retAbsent).flatMap fun b => places.map fun p => (⟨kind, a, b, 0, p⟩ : RetSel)) ++
    -- into / next to another object
    ([2, 5, 9, (if kind == 0 then 4 else 13)].flatMap fun a => bs5.flatMap fun b => [1, 2, 3].map fun t =>
      (⟨kind, a, b, t, if kind == 2 then (a + b + t) % 4 else 0⟩ : RetSel)) ++
    -- at the section, the header, the /XRefStm stream
    (bs5.flatMap fun b => ([4, 5] ++ (if kind == 2 then [6] else [])).map fun t =>
      (⟨kind, 0, b, t, if kind == 2 then (b + t) % 4 else 0⟩ : RetSel)) ++
    -- controls: nothing retargeted, every placement
    (places.map fun p => (⟨kind, 2, 3, 7, p⟩ : RetSel))

/-- the cross-reference stream object of the `sys` document -/
def sysXnum : Nat := 14

/-- SELF ROWS (known finding `xrefstm-self-entry-unchecked`): B = the cross-reference stream object itself (stream
    layout) / the /XRefStm stream object (hybrid: its row in the table or in that very stream, A's likewise), aimed at
    another object's offset (plain, stream, stream with a forward referenced /Length, container), into an object, at an `endobj`, at the
    header.  Appended AFTER `retSels` so that the older selections keep their indices (= their seeds). -/
def selfSels : List RetSel :=
  [1, 2].flatMap fun kind =>
    let places := if kind == 2 then [0, 1, 2, 3] else [0]
    ([1, 3, 7, 13].flatMap fun a => places.map fun p => (⟨kind, a, sysXnum, 0, p⟩ : RetSel)) ++
    ([(2, 1), (2, 2), (5, 3), (0, 5)].flatMap fun (a, t) => (if kind == 2 then [0, 2] else [0]).map fun p => (⟨kind, a, sysXnum, t, p⟩ : RetSel))

def allRetSels : List RetSel := retSels ++ selfSels

def genRet (seed : Nat) (s : RetSel) : RetCase :=
  let sc := genSys seed s.kind 8
  match sc.revs with
  | [(rev, _)] =>
    let ts := (if s.place % 2 == 1 then [s.a] else []) ++ (if s.place / 2 % 2 == 1 then [s.b] else [])
    ⟨sc.garbage, sc.binary, [rev], 0, (s.b, 0), 0, targetOfSel s.tsel s.a, [if s.kind == 2 then ts else []], s.tsel ≥ 7⟩
  | _ => default

def retLine (seed : Nat) (s : RetSel) (bytes : Bytes) : String :=
  s!"ret {hexOfBytes bytes} {seed} {s.kind} {s.a} {s.b} {s.tsel} {s.place}"

def judge (case impl : String) : String :=
  match judgeCommon case impl with
  | some v => v
  | none =>
    match words case with
    | ["ret", hex, seed, kind, a, b, tsel, place] =>
      judgeRet (genRet seed.toNat! ⟨kind.toNat!, a.toNat!, b.toNat!, tsel.toNat!, place.toNat!⟩) hex impl "wrong-load"
    | "garb" :: hex :: seed :: variant :: lk :: ll :: _ :: _ :: tk :: _ =>
      judgeGarb (garbBase seed.toNat! variant.toNat!) hex lk.toNat! ll.toNat! tk.toNat! impl
    | ["doc", hex, seed, variant] => judgeScene (genDoc seed.toNat! variant.toNat!) hex impl
    | ["mism", hex, seed, variant] => judgeScene (genMism seed.toNat! variant.toNat!) hex impl
    | ["sys", hex, seed, variant, mode] => judgeScene (genSys seed.toNat! variant.toNat! mode.toNat!) hex impl
    | ["w0", hex, seed, variant] => judgeW0 seed.toNat! variant.toNat! hex impl
    | ["enc", hex, seed, variant] => judgeEnc (genEncDoc seed.toNat! variant.toNat!) hex impl
    | ["lenc", hex, seed, variant] => judgeLen (genLenC seed.toNat! variant.toNat!) hex impl
    | ["pack", hex, seed, variant] => judgeScene (genPack seed.toNat! variant.toNat!) hex impl
    | _ => "skip"

/-! ### corruption of a rendered file -/

def mutate (b : Bytes) (r : Rng) : Bytes × Rng :=
  let (k, r) := r.nat 6
  let (pos, r) := r.nat (b.length + 1)
  let (nb, r) := r.pick ([48, 57, 32, 10, 37, 47, 60, 62, 82, 110, 102, 0, 255, 101] : List UInt8)
  match k with
  | 0 => (b.take pos, r)
  | 1 => (b.take pos ++ [nb] ++ b.drop (pos + 1), r)
  | 2 => (b.take pos ++ b.drop (pos + 1), r)
  | 3 => (b.take pos ++ [nb] ++ b.drop pos, r)
  | 4 =>
    -- replace one number by an extreme one
    let (e, r) := r.pick Driver.C02.contexts
    let (ex, r) := r.pick (["0", "1", "65535", "4294967296", "9223372036854775807", "18446744073709551616", "-1", "99999999999999999999"] : List String)
    let _ := e
    let pre := b.take pos
    let post := (b.drop pos).dropWhile fun x => !(48 ≤ x && x ≤ 57)
    let post' := post.dropWhile fun x => 48 ≤ x && x ≤ 57
    (if post.isEmpty then pre else pre ++ ((b.drop pos).takeWhile fun x => !(48 ≤ x && x ≤ 57)) ++ ex.toUTF8.toList ++ post', r)
  | _ =>
    -- drop the tail from a random position but keep the last 40 bytes (startxref .. %%EOF)
    (b.take pos ++ b.drop (b.length - 40), r)

def gen (seed n : Nat) (tier : String) (emit : String → IO Unit) : IO Unit := do
  -- size sweep of leading garbage / gap before startxref / tail after %%EOF over every layout (the same sizes for every
  -- seed; the seed picks documents and filler kinds); thorough: three more rounds with other documents
  for rep in List.range (if tier == "thorough" then 4 else 1) do
    for c in garbSweep (seed + 7 * rep) tier [0, 1, 2, 3 + 4 * ((seed + rep) % 6)] do
      let (doc, _, _, _) := render (garbBase c.seed c.variant)
      emit (garbLine "garb" doc c)
  -- identity mismatch by retargeting one entry: every ordered pair of objects x layout x placement (the same
  -- selections for every seed; the seed picks the document's spellings, order and table layout)
  for rep in List.range (if tier == "thorough" then 4 else 1) do
    for (sel, i) in allRetSels.zipIdx do
      let s := (seed + 11 * rep) * 1013 + i
      match retUsable (genRet s sel) with
      | some bytes => emit (retLine s sel bytes)
      | none => pure ()
  -- tightly packed object streams: every separator mode x offset convention x slack x tail x layout
  for rep in List.range (if tier == "thorough" then 5 else 1) do
    for v in List.range packVariants do
      let s := (seed + 19 * rep) * 1031 + v
      let (bytes, _, _, _) := render (genPack s v)
      emit s!"pack {hexOfBytes bytes} {s} {v}"
  for k in List.range n do
    let s := seed * 100003 + k
    let v := k % 6
    let sc := genDoc s v
    let (bytes, _, _, _) := render sc
    emit s!"doc {hexOfBytes bytes} {s} {v}"
    if k % 4 == 1 then
      let m := genMism s v
      let (mb, _, _, _) := render m
      if mb != bytes then emit s!"mism {hexOfBytes mb} {s} {v}"
    if k % 2 == 0 then
      let (mb, _) := mutate bytes (Rng.mk' (s + 17))
      emit s!"mut {hexOfBytes mb}"
    -- systematic identity mismatches: every corruption mode in every layout, 27 cases per 9 documents
    if k % 3 == 0 then
      let mode := (k / 9) % 9
      let sy := genSys s (k / 3) mode
      let (sb, _, _, _) := render sy
      emit s!"sys {hexOfBytes sb} {s} {k / 3} {mode}"
    -- cross-reference streams without a type field, plain and behind a hybrid table
    if k % 5 == 2 then
      let (wb, _) := w0Bytes s (k / 5)
      emit s!"w0 {hexOfBytes wb} {s} {k / 5}"
    -- documents that declare encryption: every layout x every placement of /Encrypt (12 combinations per 60 indices)
    if k % 5 == 4 then
      let (eb, _, _, _) := renderE (genEncDoc s (k / 5))
      emit s!"enc {hexOfBytes eb} {s} {k / 5}"
    -- object-stream containers / ordinary streams with a referenced /Length: 48 combinations per 192 indices
    if k % 4 == 3 then
      let (lb, _, _, _) := render (genLenC s (k / 4))
      emit s!"lenc {hexOfBytes lb} {s} {k / 4}"

/-- non-trivial: a document with at least 3 defined objects / a mismatch case / a corrupted file of ≥ 200 bytes -/
def nontrivial (line : String) : Bool :=
  match words line with
  | "doc" :: hex :: _ => hex.length ≥ 600
  | "hist" :: hex :: _ => hex.length ≥ 600
  | "mism" :: _ => true
  | "sys" :: _ => true
  | "ret" :: _ => true
  | "reth" :: _ => true
  | "redef" :: _ => true
  | "w0" :: _ => true
  | "enc" :: _ => true
  | "lenc" :: _ => true
  | "pack" :: _ => true
  | "packh" :: _ => true
  | "lenh" :: _ => true
  | "long" :: _ => true
  | "garb" :: _ => true
  | "garh" :: _ => true
  | "ench" :: _ => true
  | "decl" :: _ => true
  | "selfrow" :: _ => true
  | "exp" :: _ => true
  | "mut" :: hex :: _ => hex.length ≥ 400
  | _ => false

def driver : PropDriver := { gen, model, judge, nontrivial }
end Driver.C03
